"""Per-property configuration of the check driver: stages per tier, evidence rule text,
manifest text. MANIFEST.json is generated from this table by ./mkmanifest."""

def st(tier, deadline, variant="native", **kw):
    d = dict(tier=tier, deadline=deadline, variant=variant)
    d.update(kw)
    return d

PROPS = {}

PROPS["SELF"] = dict(
    quick=[st("quick", 60)],
    thorough=[st("thorough", 600)],
    rule="harness self-test: random logical column -> 3 realisations -> extract == model and validators accept; class = (type class, canonical|random layout)",
    internal=True,
)

HOOKS = dict(
    guard="arrow_rs_verif",
    enable="no source hooks are needed: every property is observed at the public API boundary, in harness-supplied environments (sinks, sources, allocators, pools, owners, executors) or by sanitizers; the guard name is reserved (RUSTFLAGS=--cfg arrow_rs_verif) and currently compiles nothing in",
    baseline_off_cmd="cd /repo && cargo nextest run --workspace --no-fail-fast --tool-config-file pb:/w/lib/nextest.toml --profile pb --test-threads 8 --offline",
    source_commits=[],
    add_only=True,
)

NOT_READY_REASON = "runtime monitoring applies (DESIGN.md section 5) but the check is not yet implemented to a sound state; it will be claimed once it is silent on the unchanged tree and demonstrably sees a seeded break"
