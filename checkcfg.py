"""Per-property configuration of the check driver: stages per tier, evidence rule text,
manifest text. MANIFEST.json is generated from this table by ./mkmanifest."""

def st(tier, deadline, variant="native", **kw):
    d = dict(tier=tier, deadline=deadline, variant=variant)
    d.update(kw)
    return d

PROPS = {}

PROPS["SELF"] = dict(
    quick=[st("quick", 60)],
    thorough=[st("thorough", 600)],
    rule="harness self-test: random logical column -> 3 realisations -> extract == model and validators accept; class = (type class, canonical|random layout)",
    internal=True,
)

HOOKS = dict(
    guard="arrow_rs_verif",
    enable="no source hooks are needed: every property is observed at the public API boundary, in harness-supplied environments (sinks, sources, allocators, pools, owners, executors) or by sanitizers; the guard name is reserved (RUSTFLAGS=--cfg arrow_rs_verif) and currently compiles nothing in",
    baseline_off_cmd="cd /repo && cargo nextest run --workspace --no-fail-fast --tool-config-file pb:/w/lib/nextest.toml --profile pb --test-threads 8 --offline",
    source_commits=[],
    add_only=True,
)

NOT_READY_REASON = "runtime monitoring applies (DESIGN.md section 5) but the check is not yet implemented to a sound state; it will be claimed once it is silent on the unchanged tree and demonstrably sees a seeded break"

PROPS["C19"] = dict(
    quick=[st("quick", 90)],
    thorough=[st("thorough", 900), st("tiny", 1500, variant="miri", hard_timeout=3000)],
    floor=dict(quick=500, thorough=2000),
    rule="bit-window cases: (operation family, source/destination bit offset mod 64 or mod 8, length mod 64, content pattern {zeros,ones,alternating,first,last,random}, base-pointer misalignment); every case compares ~60 arrow-buffer bit operations against Vec<bool> incl. all destination bits outside the addressed range; a class is distinct by that tuple and non-trivial when every operation of the family ran to the oracle; thorough enumerates offsets 0..=130 x lengths 0..=200 (single source) and 0..=70 x 0..=70 x 0..=140 (two sources) completely",
    level="exploration",
    level_text="Exhaustive-over-a-finite-grid runtime comparison of every public bit-mask primitive of arrow-buffer against a Vec<bool> model (quick: 1/3 sample of the single-source grid, 1/40 of the two-source grid; thorough: both grids complete plus 3M builder histories and 300k large windows, and a Miri run of a reduced grid for out-of-bounds reads/writes). Right level because the property is a finite-state statement about offsets/lengths/word boundaries which unit tests sample sparsely.",
    level_note="Trusts the Vec<bool> model (a few lines per operation) and the closures being bitwise-local; says nothing about lengths beyond those run (sampled up to 1e5 bits). Miri covers only the reduced grid.",
    technique="differential testing against an executable reference model (Vec<bool>), exhaustive offset x length grid, Miri UB interpreter",
    assumptions=["word closures passed to the *_op helpers are bit-local functions, as their documentation requires"],
)
