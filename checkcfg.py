"""Per-property configuration of the check driver: stages per tier, evidence rule text,
manifest text. MANIFEST.json is generated from this table by ./mkmanifest."""

def st(tier, deadline, variant="native", **kw):
    d = dict(tier=tier, deadline=deadline, variant=variant)
    d.update(kw)
    return d

PROPS = {}

PROPS["SELF"] = dict(
    quick=[st("quick", 60)],
    thorough=[st("thorough", 600)],
    rule="harness self-test: random logical column -> 3 realisations -> extract == model and validators accept; class = (type class, canonical|random layout)",
    internal=True,
)

HOOKS = dict(
    guard="arrow_rs_verif",
    enable="no source hooks are needed: every property is observed at the public API boundary, in harness-supplied environments (sinks, sources, allocators, pools, owners, executors) or by sanitizers; the guard name is reserved (RUSTFLAGS=--cfg arrow_rs_verif) and currently compiles nothing in",
    baseline_off_cmd="cd /repo && cargo nextest run --workspace --no-fail-fast --tool-config-file pb:/w/lib/nextest.toml --profile pb --test-threads 8 --offline",
    source_commits=[],
    add_only=True,
)

NOT_READY_REASON = "runtime monitoring applies (DESIGN.md section 5) but the check is not yet implemented to a sound state; it will be claimed once it is silent on the unchanged tree and demonstrably sees a seeded break"

PROPS["C19"] = dict(
    quick=[st("quick", 90)],
    thorough=[st("thorough", 900), st("tiny", 1800, variant="miri", hard_timeout=5400)],
    floor=dict(quick=500, thorough=2000),
    rule="bit-window cases: (operation family, source/destination bit offset mod 64 or mod 8, length mod 64, content pattern {zeros,ones,alternating,first,last,random}, base-pointer misalignment); every case compares ~60 arrow-buffer bit operations against Vec<bool> incl. all destination bits outside the addressed range; a class is distinct by that tuple and non-trivial when every operation of the family ran to the oracle; thorough enumerates offsets 0..=130 x lengths 0..=200 (single source) and 0..=70 x 0..=70 x 0..=140 (two sources) completely",
    level="exploration",
    level_text="Exhaustive-over-a-finite-grid runtime comparison of every public bit-mask primitive of arrow-buffer against a Vec<bool> model (quick: 1/3 sample of the single-source grid, 1/40 of the two-source grid; thorough: both grids complete plus 3M builder histories and 300k large windows, and a Miri run of a reduced grid for out-of-bounds reads/writes). Right level because the property is a finite-state statement about offsets/lengths/word boundaries which unit tests sample sparsely.",
    level_note="Trusts the Vec<bool> model (a few lines per operation) and the closures being bitwise-local; says nothing about lengths beyond those run (sampled up to 1e5 bits). Miri covers only the reduced grid.",
    technique="differential testing against an executable reference model (Vec<bool>), exhaustive offset x length grid, Miri UB interpreter",
    assumptions=["word closures passed to the *_op helpers are bit-local functions, as their documentation requires"],
)

PROPS["C09"] = dict(
    quick=[st("quick", 90)],
    thorough=[st("thorough", 900), st("quick", 600, variant="asan-core"), st("tiny", 1800, variant="miri", hard_timeout=5400)],
    floor=dict(quick=500, thorough=2000),
    rule="near-valid layouts: a valid array of a random (nested) type in a random physical realisation, one node of its ArrayData tree mutated once (element of an offsets/keys/type-ids/dense-offsets/views/run-ends buffer rewritten to a boundary value, buffer shortened/misaligned/removed/added, len/offset moved incl. overflow, validity shortened or added, child removed/duplicated/retyped/shortened); every validating entry point (ArrayData::try_new, ArrayDataBuilder::build with and without align_buffers, validate_full on unchecked data and on the whole tree, typed try_new constructors, RecordBatch::try_new[_with_options]) is called; accepted => independent validator accepts and accessor exercise completes; class = (node type class, mutation kind, accepted|rejected)",
    level="exploration",
    level_text="Runtime differential check of arrow-rs' validating constructors against an independent validator written from the columnar specification, on generated near-valid layouts (quick 60k, thorough 2M + the same workload under ASan and a reduced one under Miri so that an accepted-but-malformed layout shows up as an out-of-bounds report in the accessor exercise).",
    level_note="Trusts the independent validator (vcore/src/validate.rs), which is deliberately lenient where the spec is silent, so it can only miss. Only single mutations of valid layouts are explored.",
    technique="differential validation against an independent spec validator on mutated layouts; ASan and Miri on the accessor exercise",
)

PROPS["C10"] = dict(
    quick=[st("quick", 75)],
    thorough=[st("thorough", 900)],
    floor=dict(quick=300, thorough=1000),
    rule="arrays of every sortable type (incl. dictionary, run-end, view, fixed-size binary, decimal, interval, nested list/struct) with NaNs of both signs, signed zeros, nulls and duplicates in random physical layouts; sections cmp (make_comparator: reflexive, antisymmetric, transitive, Equal <=> logical equality, equals a reference order on the value model), sort/sort_limit/lexsort (permutation, non-decreasing under the real comparator, omitted rows >= last kept), rank, partition, comparison kernels x {array,scalar} x encodings, in_list; class = (section, type class, sort options, encoding/mode, outcome)",
    level="exploration",
    level_text="Runtime oracle checks of the order-related kernels against (a) the algebraic laws of a total preorder evaluated on all pairs/triples of small arrays and (b) an independent reference order on the logical value model; quick ~300k cases, thorough ~10 min/shard.",
    level_note="Trusts the reference order in c10.rs (IEEE totalOrder, byte-lexicographic, element-wise nested rule with nulls per options). Tie order and result layout are not asserted; nested-type kernel rejections are rejections.",
    technique="property-based runtime monitoring: algebraic-law oracle + reference-model differential on generated arrays",
)

PROPS["C11"] = dict(
    quick=[st("quick", 75)],
    thorough=[st("thorough", 900), st("tiny", 1800, variant="miri", hard_timeout=5400)],
    floor=dict(quick=300, thorough=1000),
    rule="row converters over 1-5 fields of every supported type (nested struct/list/list-view/fixed-size-list/map/union/dictionary/run-end) with all four SortOptions per field; two tables in different physical layouts converted in one call and appended in chunks; for all row pairs across conversions: byte order == reference tuple order == make_comparator tuple order, byte-equal <=> logically equal, Eq/Ord/Hash agree; decode of all rows / selections / parser / binary round trip equals the inputs; variable-length values of every length 0..=70 and 95..=161 with 0x00/0xFF; class = (section, field type classes, options, outcome)",
    level="exploration",
    level_text="Runtime oracle check of arrow-row: order preservation and injectivity on all row pairs of generated tables against an independent reference order and against make_comparator, invertibility by decoding every selection; thorough adds a reduced Miri run of the unsafe-heavy decode path.",
    level_note="Trusts the reference order shared with C10. Row byte encoding itself, rows from different converters, and decoded dictionary types are not asserted.",
    technique="property-based runtime monitoring: reference-model differential over all row pairs, round-trip oracle, Miri",
)

PROPS["C20"] = dict(
    quick=[st("quick", 75)],
    thorough=[st("thorough", 900)],
    floor=dict(quick=300, thorough=1000),
    rule="like/nlike/ilike/nilike/starts_with/ends_with/contains with every LIKE pattern of length <=4 (thorough <=5) over {% _ \\ a A e-acute .} against all strings of length <=4 over an 11-symbol alphabet mixing ASCII, multi-byte, combining, case-varying, newline and metacharacters, in Utf8/LargeUtf8/Utf8View/dictionary encodings, scalar and array patterns; random longer haystacks; regexp_is_match(_scalar) vs the regex crate row by row; substring / substring_by_char with negative and out-of-range start/length; length, bit_length, concat_elements; model = naive char-level matcher with case folding decided by the regex engine; class = (section, op, encoding, pattern-form, outcome)",
    level="exploration",
    level_text="Runtime differential check of arrow-string against a naive Unicode-scalar-value model; exhaustive over all short patterns x short strings (quick: time-boxed share, thorough: complete), sampled for long inputs.",
    level_note="Trusts the naive matcher (cross-checked against a second backtracking matcher every case) and the regex crate for single-character case folding as the property defines it.",
    technique="differential testing against an executable reference model, exhaustive short-pattern enumeration",
)

PROPS["C04"] = dict(
    quick=[st("quick", 75)],
    thorough=[st("thorough", 900)],
    floor=dict(quick=300, thorough=1000),
    rule="sequences of 1-6 record batches (incl. empty and zero-column) over every data type in random physical layouts, with per-field dictionary histories (same Arc / equal new Arc / extended / replaced / shrunk / shared / nested) written by FileWriter, StreamWriter, StreamEncoder and the Flight encoder under random IpcWriteOptions (alignment 8-64, V4-legacy/V4/V5, none/lz4/zstd, Resend/Delta) and Flight message size limits 1 B..2 MB, read back by FileReader (+projection, set_index), StreamReader, StreamDecoder, FlightRecordBatchStream, flight_data_to_batches; oracle: schema equality incl. metadata and batch-by-batch logical equality (row-concatenation for Flight), projection == project-after-full-read; class = (sink, type-chain class, option class, dictionary event class, outcome)",
    level="exploration",
    level_text="Round-trip oracle on generated batch sequences for all four IPC encoders and their readers, comparing logical values through the value model; quick ~15k sequences/shard-run, thorough ~1.8M evaluations per shard.",
    level_note="Writer Err is a rejection; Flight batch boundaries, buffer identity and physical encoding of results are not asserted.",
    technique="round-trip / differential oracle on generated inputs and option sets",
)

PROPS["C05"] = dict(
    quick=[st("quick", 75)],
    thorough=[st("thorough", 900)],
    floor=dict(quick=300, thorough=1000),
    rule="Arrow schemas the Parquet writer accepts (primitive, decimal, temporal, byte/view/fixed, dictionary, run-end, struct/list/large-list/list-view/fixed-size-list/map nesting <=3) x WriterProperties (version, encodings, dictionary + page limits forcing fallback, page/row-group/write-batch limits, codecs, statistics, bloom, CDC) x random write()/flush() partitions x reader batch sizes; sections serial, parallel (one thread per leaf column writer with random yields and close order; distinct completion orders counted), flat (long single columns), concat (append_column re-splice), compat (equivalent input types); oracle: schema (names/types/nullability) and rows equal through the value model; class = (section, shape class, leaf class, property tags, outcome)",
    level="exploration",
    level_text="Round-trip oracle on generated files: quick 24k files, thorough 320k, with the multi-threaded column-writer path under random thread schedules (distinct completion orders are measured and reported).",
    level_note="Reads without the embedded Arrow schema, out-of-domain temporal values, file bytes and layout are not asserted; 'not supported' outcomes are rejections.",
    technique="round-trip oracle on generated inputs, option sets and thread schedules",
)

PROPS["C12"] = dict(
    quick=[st("quick", 75)],
    thorough=[st("thorough", 900)],
    floor=dict(quick=300, thorough=1000),
    rule="sections: sweep8/native8/bitw8 (ALL 65,536 i8 and u8 operand pairs for add/sub/mul/div/rem/neg, checked and wrapping, array x array / array x scalar / scalar x array, failing pairs also hidden under nulls as bait), sweep16x (i16/u16 scalar against all 65,536 array values; thorough: every scalar), kernel (Datum API over ints, floats bit-for-bit, Decimal32..256 with any precision/scale, timestamps/dates/durations/intervals with fixed-offset zones; boundary-dense operands), agg (sum/min/max/bit/bool aggregates incl. checked forms, dictionary and run-end inputs, lengths 0..130 and thousands, 12 null pattern classes), boolk (and/or/not/Kleene truth tables), big (i256 vs BigInt), native, dectab, arity (unary/binary/try_* closures called on valid rows only), fixedp; oracle = num-bigint / widened exact arithmetic; class = (section, op, type family, shape, null class, outcome)",
    level="exploration",
    level_text="Differential runtime check of arrow-arith / i256 against exact big-integer arithmetic, exhaustive for all 8-bit operand pairs (and all 16-bit scalar x array sweeps in thorough), boundary-dense elsewhere.",
    level_note="Trusts num-bigint and the harness' own proleptic-Gregorian calendar (self-checked before each run). Float sum association order, NaN payloads, named time zones and interval x non-integral f64 are not asserted.",
    technique="differential testing against exact big-integer reference arithmetic, exhaustive 8/16-bit operand sweeps",
)

PROPS["C13"] = dict(
    quick=[st("quick", 90)],
    thorough=[st("thorough", 900)],
    floor=dict(quick=300, thorough=1000),
    rule="sections: dtype (DataType Display -> FromStr over the grid, every container x unusual field names, random depth-3 types), text (60 types -> Utf8/LargeUtf8/Utf8View -> back under default and custom FormatOptions), grid (ALL 108 x 108 ordered type pairs: can_cast_types vs dispatch on empty and all-null arrays, boundary columns in canonical / random / validity-masked layouts, safe vs strict duality, exact reference values, inverse casts), exh (every value of Int8/UInt8/Int16/UInt16/Float16 against every flat target), sparse (hand-built dictionaries with more than twice as many entries as rows: split / invalid UTF-8, null entries, null keys), gridr and rand (random columns, one container level deep); class = (section, source family -> target family, mode, layout, outcome)",
    level="exploration",
    level_text="Runtime oracle over the complete finite type-pair grid of arrow-cast: metamorphic safe/strict duality, exact reference conversion (std integer/float semantics, num-bigint decimals, chrono calendars), inverse-cast identity and format/parse round trips; exhaustive for 8/16-bit sources.",
    level_note="Trusts the reference model in c13_model.rs. Named time zones, NaN payloads, out-of-domain Time/Date64 values and nullability errors of struct casts are not asserted.",
    technique="metamorphic (safe/strict duality, inverse cast, format/parse round trip) + reference-model differential over an exhaustive type-pair grid",
)

PROPS["C17"] = dict(
    quick=[st("quick", 90)],
    thorough=[st("thorough", 900)],
    floor=dict(quick=300, thorough=1000),
    rule="sections csv-rt / json-rt / avro-rt (writer -> reader round trips over every type each format supports, all writer/reader options under which the text is unambiguous, Avro OCF with 6 codecs and SOE framings), csv-split (RFC 4180 grammar documents vs an independent splitter), json-doc (RFC 8259 grammar documents: all escapes, surrogate pairs, number forms; serde_json as arbiter; JSON written by arrow-json parsed by serde_json), avro-ext (schemas and data written by the independent apache-avro crate read by arrow-avro, and arrow-avro output decoded by apache-avro); class = (section, type class, option class, outcome)",
    level="exploration",
    level_text="Round-trip and third-party differential oracles (serde_json, apache-avro, an own RFC 4180 splitter) on generated batches and grammar-generated documents; quick ~90k cases, thorough 25x.",
    level_note="Trusts serde_json, apache-avro and the 60-line CSV splitter as independent arbiters. Text spelling, non-finite JSON floats, implicit-null map entries and documented lossy Avro mappings are not asserted.",
    technique="round-trip oracle + differential testing against independent third-party decoders",
)

# properties whose check is integrated, silent on the unchanged tree modulo listed known
# findings, and has been shown to see at least one seeded break: only these are claimed
READY = ["C01", "C02", "C03", "C04", "C05", "C06", "C07", "C08", "C09", "C10", "C11", "C12", "C13", "C14", "C15", "C16", "C17", "C18", "C19", "C20"]

# workloads implemented entirely in vcore (no format crates): run through the vcore-run binary
for _p in ("SELF", "C09", "C10", "C11", "C12", "C13", "C19", "C20"):
    PROPS[_p]["core"] = True

PROPS["C07"] = dict(
    quick=[st("quick", 90)],
    thorough=[st("thorough", 900)],
    floor=dict(quick=200, thorough=1000),
    rule="Parquet files from four generators (general nested schemas with every WriterProperties knob; flat long columns; typed = every leaf type x value shapes {random, ascending, descending, constant, NaN runs, null runs, all-null} x page rows 1-50 x statistics levels x truncation lengths {1..8,16,32,63,64,65,none} x bloom fpp/ndv; lowlevel = typed column writers for BYTE_ARRAY/FLBA/INT decimals, INT96, unsigned/converted types); every chunk decoded with the low-level column reader and compared page by page (sequentially and at offset-index locations) against footer statistics, column index, offset index, page-header statistics, bloom filters and StatisticsConverter output under an independently written sort-order table; class = (section, order x physical type class, flat|nested, statistics level, truncation class, outcome)",
    level="exploration",
    level_text="Runtime soundness oracle for every statistic the Parquet writer emits: bounds bound, exact flags attained, counts exact, boundary order true, offset index tiles the chunk, every value bloom-positive, converter output bounds the same data; quick ~1.7k files/shard, thorough ~11k.",
    level_note="Trusts the independent sort-order model in c07core.rs. Tightness of non-exact bounds, presence of statistics, distinct counts and orders the format leaves undefined are not asserted.",
    technique="runtime invariant monitor over decoded pages vs written metadata (independent sort-order model)",
)

PROPS["C15"] = dict(
    quick=[st("quick", 90)],
    thorough=[st("thorough", 900)],
    floor=dict(quick=200, thorough=1000),
    rule="(file, reader options, I/O schedule) triples: files from the C05 generator; options = page index policy, batch size, row-group subset, projection, RowSelection (selector/mask), 0-3 predicates, offset, limit, selection policy; schedules = push decoder (5 drive modes x 10 supply presets: exact, shuffled+split, partial rounds, supersets, coalesced, duplicated, chaos with unrelated ranges, whole file early, prefetch; into_builder rebuilds never/at start/always/random) and async stream over an adversarial AsyncFileReader (per-range/vectored/coalesced/reversed fetch, metadata up front or fetched with prefetch hints, futures pending 0-3 times with self-wake or parked waker, manual executor re-polling only on wake); oracle: same rows as the sync reader, requested ranges within the file, no re-request of supplied ranges, bounded NeedsData rounds/polls, no lost wake; distinct schedules observed are counted; class = (front-end, drive mode, supply preset / reader kind, option class, outcome)",
    level="exploration",
    level_text="Differential runtime check of the three Parquet read front-ends under adversarial I/O schedules produced by harness-written readers, suppliers and a manual executor; liveness is restated as bounded progress (decode steps <= 10 x (#pages + #row groups + 10), every Pending has a pending wake).",
    level_note="Trusts the sync reader as reference (its own correctness is C05/C06). Number, shape and order of requests and batch boundaries are not asserted.",
    technique="differential testing across reader front-ends under injected I/O schedules, bounded-progress and wake-accounting monitors",
)

PROPS["C03"] = dict(
    quick=[st("quick", 75)],
    thorough=[st("thorough", 900), st("tiny", 1800, variant="miri", hard_timeout=5400)],
    floor=dict(quick=300, thorough=1000),
    core=True,
    rule="selection kernels on every data type in random physical layouts: filter (FilterBuilder with/without optimize, predicate reuse, record-batch forms; selectivities {0, 1 bit, 1/64, 1/16+-1, 1/2, 0.8n-1..+2, all-but-one, all, random}, run-structured and random masks, null predicate bits over set bits), take (8 index types, nulls with garbage underneath, duplicates, check_bounds), concat, interleave, zip/ScalarZipper, merge/merge_n, nullif, shift, slice, dictionary garbage collection, against naive definitions on the value model; BatchCoalescer histories of 1-40 push_batch / push_batch_with_filter / push_batch_with_indices / finish calls with a unique-id column and target sizes 1-300: after every call buffered-row count, completed-batch flag, exact batch sizes, ids and all columns equal the model (conservation pushed = emitted + buffered); class = (op, type class, selectivity/index class, layout, outcome)",
    level="exploration",
    level_text="Differential runtime check of arrow-select against 10-40 line naive definitions on the logical value model, plus an online trace checker (unique row ids => n log n conservation/order check) for the batch coalescer; thorough adds a reduced Miri run.",
    level_note="Union x introduced null, out-of-range indices without check_bounds, coalescer batch sizes under a bypass limit and physical layout of results are not asserted.",
    technique="differential testing against naive reference definitions; online trace checking of coalescer histories with unique ids",
)

PROPS["C06"] = dict(
    quick=[st("quick", 90)],
    thorough=[st("thorough", 900)],
    floor=dict(quick=200, thorough=1000),
    rule="(file, reader configuration) pairs: files from the C05 generator (nesting <=3, tiny pages, 1-150 row groups, offset index on/off, every encoding); ~28 configurations per file drawing projection (all/none/roots/leaves), row-group subsets in any order, RowSelections (selector- and mask-backed, built by 10 recipes incl. and_then/intersection/union/split_off, runs aligned to page and row-group borders +-1), 0-3 predicates returning true/false/null, offset, limit, batch size 1-8192, RowSelectionPolicy, page-index policies, virtual columns; run through the sync reader, the async stream and the push decoder; oracle = in-memory reference (row groups -> selection -> predicates -> offset -> limit -> projection) on one unrestricted read, batch size bound, predicates only see surviving rows in order; sections algebra (RowSelection set algebra vs Vec<bool> in all four backing pairings) and ranges (scan_ranges covers every page holding a selected row); class = (section, reader family, option class, outcome)",
    level="exploration",
    level_text="Differential runtime check of Parquet pushdown against a 200-line in-memory reference evaluated on a full read of the same file; RowSelection algebra against position sets.",
    level_note="Trusts the full read (C05) and the reference model c06model.rs. Contract violations by the caller (selection length mismatch, duplicate row groups, batch size 0) and batch boundaries are not asserted.",
    technique="differential testing against an in-memory reference model on generated files and reader configurations",
)

PROPS["C14"] = dict(
    quick=[st("quick", 90)],
    thorough=[st("thorough", 900)],
    floor=dict(quick=200, thorough=1000),
    rule="(input, decoder configuration, chunk schedule) triples for the IPC StreamDecoder, CSV Decoder, JSON Decoder, Avro single-object/Confluent Decoder and OCF Reader over a BufRead with arbitrary fill_buf slices, ParquetMetaDataPushDecoder (range delivery schedules) and the Flight decoder (Pending schedules); schedules: every single split point, ALL 2^(n-1) partitions for hand-built inputs with n <= 14 and for 12-byte windows of longer ones, one byte at a time, random multi-splits with empty chunks, all legal flush points; valid, corrupted and truncated inputs; oracle: rows, schema and outcome class equal the single-chunk run and the pull reader, no batch above the batch size; distinct schedules are counted; class = (decoder, input family, schedule family, batch size, outcome)",
    level="exploration",
    level_text="Metamorphic runtime check (chunking invariance) of all six incremental decoders, exhaustive over split points and over all partitions of short inputs/windows, sampled beyond.",
    level_note="Batch boundaries, mid-stream empty CSV chunks (documented end marker), error message text under optional flushes and alignment-dependent outcomes under require_alignment(true) are not asserted.",
    technique="metamorphic testing (chunk-schedule invariance) with exhaustive partition enumeration for short inputs",
)

PROPS["C18"] = dict(
    quick=[st("quick", 120)],
    thorough=[st("thorough", 1200)],
    floor=dict(quick=100, thorough=200),
    level="fault_enumeration",
    rule="per generated input (must first pass a plain write/read/compare): a fault-free dry run counts the N I/O calls of the writer (IPC file/stream, Parquet ArrowWriter and AsyncArrowWriter, Avro OCF and single-object, CSV, JSON lines/array) and of the reader; then EVERY call index k (all when N <= 1000, deterministic sample above) x fault kind {Err once, Err forever, short write/read, Interrupted, Pending for async} is injected through harness-written Write/Read+Seek/ChunkReader/AsyncFileWriter wrappers, and the file is truncated at EVERY byte length; oracle: no panic, no runaway I/O, bytes accepted before the fault are a prefix of the fault-free output, all-Ok implies identical output, readers return Err or exactly the original rows, truncated Parquet/IPC files are rejected, truncated self-delimiting streams yield a prefix; the number of (call index x kind) sites actually delivered is counted; class = (format, writer|reader|truncation, fault kind, teardown, outcome)",
    level_text="Fault enumeration: exhaustive over I/O call indices and fault kinds per input (2.5M delivered sites and 25M truncation lengths in a quick run), over inputs from the C04/C05 generators and a flat-table generator for Avro/CSV/JSON.",
    level_note="Which call reports the error, behaviour of a writer after it has returned Err (except no panic), CSV truncation and Avro OCF byte prefixes are not asserted.",
    technique="fault injection at every I/O call index and truncation at every byte length, with prefix/equality oracles on recorded sink contents",
)

PROPS["C16"] = dict(
    quick=[st("quick", 90)],
    thorough=[st("thorough", 900), st("tiny", 1800, variant="miri", hard_timeout=5400)],
    floor=dict(quick=200, thorough=1000),
    core=True,
    rule="ownership histories over a pool of handles: 41 operations (clone, slice, advance, wrap into Boolean/Primitive/String arrays and ArrayData, into_mutable, into_vec, into_builder, unary_mut / try_unary_mut / binary_mut, BooleanBuffer &= |= ^=, shrink_to_fit, claim(pool), to_ffi / from_ffi with wrapped release callbacks, FFI_ArrowArrayStream export/import, send to another thread, drop) on buffers from standard allocations, Vec, bytes::Bytes and Buffer::from_custom_allocation over harness-owned regions whose owner counts releases and scribbles 0xDD; sections scen/parscen (scripted), seq (random histories of 5-60 ops, checked after every step), par (1-4 threads on shared clones, each history run twice); oracle: bytes visible through every live handle equal their creation snapshot, owner released exactly once and only after the last derived handle died, every FFI release callback (children and dictionary included) runs exactly once, recording MemoryPool used()==0 at quiescence and == capacity right after claim, imported == exported; distinct cross-thread operation orders are counted from a global sequence number; class = (section, op class, handle kind, owner kind, outcome)",
    level="exploration",
    level_text="Runtime history checking of buffer ownership: online assertions on hooked environments the harness supplies (owners, pool, FFI callbacks) plus an offline checker over the event log; the same workload (tiny tier) under Miri (UB, data races, leaks) in the thorough tier.",
    level_note="Whether an in-place operation succeeds or declines, which of len/capacity a mutable reservation tracks and promptness of release are not asserted. Sanitizer stages only see what the schedules produce.",
    technique="history-based runtime monitoring with instrumented owners/pool/FFI callbacks; Miri on the same workload",
)

PROPS["C08"] = dict(
    quick=[st("quick", 120, hard_timeout=900)],
    thorough=[st("thorough", 1200, hard_timeout=5400)],
    floor=dict(quick=200, thorough=1000),
    rule="per valid base input (IPC file/stream, Flight messages, Parquet files over all codecs/encodings/page versions, Avro OCF and single-object, CSV, JSON, Variant) N structure-aware mutations (located flatbuffer table/vtable/vector fields, thrift compact-protocol footer/page-header/index fields, Avro framing and schema tokens, Variant headers/offsets, first bytes of every buffer/page; generic byte/bit flips, 32/64-bit LE integer and varint rewrites, truncation, block delete/duplicate/swap, cross-splices) through every reader entry point of the format; exhaustive position x value sweeps and all truncation lengths for small IPC and Variant inputs; oracle: no panic, Ok => every returned array/batch passes the independent validator and accessor exercise and matches the announced schema, peak heap <= 1 GiB and no single request > 8 GiB (counting allocator), CPU-time watchdog with a hang reported only after 3 isolated reproductions at 10x budget; class = (reader family, mutator class, outcome)",
    level="exploration",
    level_text="Hostile-input runtime monitoring of all safe readers in supervised worker processes (aborts and hangs attributed to the exact mutation and reader), with a counting allocator for the memory clause and a CPU-time watchdog for the bounded restatement of termination.",
    level_note="'Memory unrelated to input size' is restated as an absolute cap (1 GiB peak / 8 GiB single request for inputs <= 1 MiB); 'does not loop forever' as 3 reproductions at 10x the CPU budget. Which error is returned and the unsafe skip-validation paths are not asserted.",
    technique="structure-aware mutation of valid inputs under panic, allocation and CPU-time monitors with independent validation of every Ok result",
)

PROPS["C01"] = dict(
    quick=[st("quick", 90)],
    thorough=[st("thorough", 900), st("quick", 600, variant="fv")],
    floor=dict(quick=300, thorough=1000),
    rule="pipelines of 1-4 type-compatible operations drawn from a registry of 101 safe operations (builders finish/finish_cloned, FromIterator, typed try_new, slice, new_null/new_empty, ArrayData round trips, MutableArrayData; filter/take/concat/interleave/zip/merge/nullif/shift/gc-dictionary/union_extract/coalescer and record-batch forms; cast over can_cast_types; row convert; sort/lexsort/rank/partition; comparison, arithmetic, aggregate, boolean, bitwise, temporal, arity and string kernels) applied to random columns in random physical layouts, and IPC / Parquet / CSV / JSON readers on the harness' own valid files followed by kernels; every returned array, ArrayData and RecordBatch is checked by the independent validator, validate_full, the accessor exercise and ArrayFormatter; the thorough tier repeats the workload in a build with the force_validate feature where any panic from a re-validating unchecked constructor is a violation; class = (op, input family -> output family, section, outcome)",
    level="exploration",
    level_text="Runtime validation of every array any safe API returns along generated kernel/reader pipelines, with an independent format validator as oracle and a second build (force_validate) turning internal unchecked constructions into checks.",
    level_note="Values are not asserted (C02/C03 do that); Err results and panics of the operations themselves are not verdicts here; nulls of non-nullable fields in slots not reachable through valid ancestors are not asserted.",
    technique="runtime invariant checking (independent Arrow-format validator) over generated pipelines; force_validate instrumented build",
)

PROPS["C02"] = dict(
    quick=[st("quick", 90)],
    thorough=[st("thorough", 900)],
    floor=dict(quick=300, thorough=1000),
    core=True,
    rule="per logical column 7-11 physical realisations (canonical, clean slice, unsliced chaos, garbage under nulls, unaligned, random; builder, FromIterator and builder reuse): section rt (accessors, iterators and ArrayFormatter text equal the model for every realisation), eq (`==` holds between realisations with equal null placement and fails after one value/null flip or row insertion), cong (for every registry kernel: is_ok and logical output agree across all realisations, auxiliary operands realised in the same layout class), comm (row-wise kernels commute with slice / take / concat); a cong violation is classified by cause: offset vs hidden values (unreferenced dictionary entries, non-empty extents under nulls); class = (section, op, type family, layout class, outcome)",
    level="exploration",
    level_text="Metamorphic runtime check: the same logical column in many physical layouts must give equal accessor views, equal `==` verdicts and congruent kernel outcomes, and row-wise kernels must commute with selection.",
    level_note="`==` between a null dictionary key and a null dictionary value, indices of unstable sorts under ties, error messages, output encoding and NaN payloads of computed results are not asserted. Signatures are normalised to (section, op, type family, cause class).",
    technique="metamorphic testing across physical realisations of one logical value (layout invariance, commutation with selection)",
)
