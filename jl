#!/usr/bin/env python3
"""summarise vrun JSONL from stdin: jl [detail_chars] [max_viol]"""
import sys,json
n=int(sys.argv[1]) if len(sys.argv)>1 else 400
mx=int(sys.argv[2]) if len(sys.argv)>2 else 12
seen=0
try:
  for l in sys.stdin:
    try: j=json.loads(l)
    except Exception as e: print('RAW',l[:300]); continue
    if j['t']=='violation':
        seen+=1
        if seen<=mx: print('VIOL',j['sig'], '@',j['section'], j['case']); print('   ',j['detail'][:n].replace('\n','\n    ')); 
    if j['t']=='inconclusive' and seen<=mx: print('INCONCL',str(j)[:300])
    if j['t']=='summary': print({k:(v if k not in('classes','samples') else len(v)) for k,v in j.items()}, 'distinct-sigs',seen)
except BrokenPipeError: pass
