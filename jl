#!/usr/bin/env python3
"""summarise vrun JSONL from stdin"""
import sys,json
for l in sys.stdin:
    try: j=json.loads(l)
    except Exception as e: print('RAW',l[:300]); continue
    if j['t']=='violation': print('VIOL',j['sig'], j['section'], j['case']); print(j['detail'][:int(sys.argv[1]) if len(sys.argv)>1 else 800]); print()
    if j['t']=='inconclusive': print('INCONCL',j)
    if j['t']=='summary': print({k:(v if k not in('classes','samples') else len(v)) for k,v in j.items()})
