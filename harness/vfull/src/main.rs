mod props;
fn main() {
    std::process::exit(vcore::cli_main(Some(props::run)));
}
