//! C15: Parquet sync, async and push readers agree under any I/O schedule.
//!
//! Events
//! * rows of `ParquetRecordBatchReader` (the reference, same options);
//! * rows of `ParquetRecordBatchStream` (as a `Stream` and through `next_row_group`) over an
//!   adversarial `AsyncFileReader` (pending 0-3 times per future, self-wake or wake by a later
//!   "I/O completion", per-range default `get_byte_ranges` / vectored `join_all` / coalesced /
//!   reversed fetches, `Box<dyn AsyncFileReader>`, metadata up front / cached / fetched with and
//!   without prefetch hint / fetched via suffix) driven by a manual executor (re-polls only on
//!   wake, optionally a fresh waker per poll and stale wakers ignored, optional spurious polls);
//! * rows of `ParquetPushDecoder` (`try_decode`, `try_next_reader` with immediate or deferred
//!   draining, both mixed) fed by a scripted supplier (exact, permuted, split over calls, partial
//!   with decode calls in between, duplicated, widened to supersets, coalesced, whole file, early
//!   prefetch of chunk ranges / random pieces, `clear_all_ranges`), `into_builder().build()` with
//!   unchanged options at row-group boundaries; metadata from `ParquetMetaDataPushDecoder` fed by
//!   the same supplier;
//! * the log of every range requested and supplied; poll / wake counts.
//!
//! Oracle
//! * same schema fields and the same rows, in order, as the sync reader with the same options;
//! * an `Err`/panic of a front-end where the sync reader succeeded is a violation;
//! * every requested range is inside the file (`start <= end <= file length`);
//! * sufficiency / bounded progress: a `NeedsData` never names a range that is contained in a range
//!   pushed since the previous `NeedsData` (or in the whole file once that was pushed); the async
//!   reader is never asked twice for the same data range; number of `NeedsData` rounds / data
//!   fetches <= 10 * (#pages + #row groups + 10);
//! * no lost wake: a `Pending` stream/future with no wake delivered and no I/O completion parked
//!   is a violation; total polls are capped;
//! * `is_at_row_group_boundary()` holds right after `try_next_reader` handed out a reader
//!   (documented), `into_builder()` / `build()` succeed there.
//!
//! Findings on the unchanged tree (each with a hand-written reproducer in `repros()`, `--section repro --case 0`):
//! * `C15|{push,async}|err|Invalid column index #, column was not fetched` (R3): file without offset index
//!   (`set_offset_index_disabled(true)`), page index policy Optional, any row selection / limit / offset /
//!   predicate: `InMemoryRowGroup::fetch_ranges` returns early for a column without offset index and
//!   does not record its `page_start_offsets`, `fill_column_chunks` then never fills the chunk;
//! * `C15|{push,async}|err|Invalid offset in sparse column chunk data: #, no matching page found...` (R4):
//!   file with a zero-row data page (the CDC writer emits them), offset index loaded, selection whose
//!   selected run ends exactly at the zero-row page, mask execution: `scan_ranges` does not fetch the page,
//!   the mask reader steps into it;
//! * `C15|async|err|Corrupted parquet file: index data range (#..#) exceeds remainder length (#)` (R1):
//!   `load_via_suffix_and_finish` with a prefetch hint covering the footer metadata but not the page
//!   index: `load_metadata_via_suffix` reports the remainder as starting at file offset 0;
//! * `C15|async|declared-schema-differs-from-sync-reader` (R2): `ParquetRecordBatchStream::schema()`
//!   under a projection when the schema has a multi-leaf ListView/LargeListView column
//!   (`Fields::filter_leaves` does not descend into list-views, so leaf indexes shift).
//!
//! Self-test: env `C15_BREAK=rows|swap|starve|lost-wake|phantom|short-file` (see `Break`).
//! Witness minimisation on replays: env `C15_MINIMISE=nolimit,nosel,...` and `C15_ONLY_OPT=k`.
//!
//! Sections: `nested` (C05 generator, nested schemas, <= 300 rows), `flat` (one flat column, up to
//! 4200 rows, many pages).
//!
//! not asserted:
//! * number / shape / order of requests, batch sizes and batch boundaries (only the concatenation);
//! * behaviour when a requested range is delivered only as pieces none of which contains it;
//! * behaviour when the sync reader itself returns `Err`/panics for the option set (counted as rejection),
//!   and whether the sync reader's rows are right (C05/C06);
//! * cancellation (dropping a `next_row_group` future), mixing `Stream` and `next_row_group` use;
//! * schema-level metadata of the stream's schema (documented as stripped);
//! * selections not covering exactly the chosen row groups, duplicate row-group indexes, batch size 0.

use super::pq_common::{self as pq, GenCfg, ReadCfg, ReadOutcome, WriteCfg, Written, compare_rows, compare_schema, read_file};
use arrow_array::{BooleanArray, RecordBatch, RecordBatchReader};
use arrow_buffer::BooleanBuffer;
use arrow_schema::{Schema, SchemaRef};
use bytes::Bytes;
use futures::future::BoxFuture;
use futures::task::ArcWake;
use futures::{FutureExt, StreamExt};
use parquet::DecodeResult;
use parquet::arrow::ProjectionMask;
use parquet::arrow::arrow_reader::{
    ArrowPredicate, ArrowPredicateFn, ArrowReaderBuilder, ArrowReaderMetadata, ArrowReaderOptions, ParquetRecordBatchReader,
    ParquetRecordBatchReaderBuilder, RowFilter, RowSelection, RowSelectionPolicy, RowSelector,
};
use parquet::arrow::async_reader::{AsyncFileReader, MetadataSuffixFetch, ParquetRecordBatchStreamBuilder};
use parquet::arrow::push_decoder::{ParquetPushDecoder, ParquetPushDecoderBuilder};
use parquet::errors::{ParquetError, Result as PqResult};
use parquet::file::metadata::{PageIndexPolicy, ParquetMetaData, ParquetMetaDataPushDecoder, ParquetMetaDataReader};
use parquet::schema::types::SchemaDescriptor;
use std::collections::BTreeSet;
use std::future::Future;
use std::hash::{Hash, Hasher};
use std::ops::Range;
use std::pin::Pin;
use std::sync::atomic::{AtomicU64, Ordering};
use std::sync::{Arc, Mutex};
use std::task::{Context, Poll, Waker};
use vcore::extract::extract;
use vcore::mon::{Ctx, PanicInfo, guard, is_rejection_msg, strip_digits};
use vcore::rng::{Rng, hash_str, mix};
use vcore::val::Val;

// ------------------------------------------------------------------------------------------
// reader options (the C06 option space), described by plain data so that the same set can be
// applied to every front-end (RowFilter is not Clone)
// ------------------------------------------------------------------------------------------

#[derive(Clone, Debug)]
enum Proj {
    All,
    Roots(Vec<usize>),
    Leaves(Vec<usize>),
}

impl Proj {
    fn mask(&self, sd: &SchemaDescriptor) -> ProjectionMask {
        match self {
            Proj::All => ProjectionMask::all(),
            Proj::Roots(v) => ProjectionMask::roots(sd, v.iter().copied()),
            Proj::Leaves(v) => ProjectionMask::leaves(sd, v.iter().copied()),
        }
    }
    fn tag(&self) -> &'static str {
        match self {
            Proj::All => "pAll",
            Proj::Roots(_) => "pRoots",
            Proj::Leaves(v) if v.is_empty() => "pNone",
            Proj::Leaves(_) => "pLeaves",
        }
    }
}

#[derive(Clone, Debug)]
enum PredKind {
    True,
    False,
    /// row-wise hash of the projected values: `h % m == 0` -> false, `== 1 && nulls` -> null, else true
    Hash { salt: u64, m: u64, nulls: bool },
}

#[derive(Clone, Debug)]
struct PredSpec {
    proj: Proj,
    kind: PredKind,
}

fn hash_val(v: &Val) -> u64 {
    // DefaultHasher::new() uses fixed keys: deterministic across runs
    let mut h = std::collections::hash_map::DefaultHasher::new();
    v.hash(&mut h);
    h.finish()
}

impl PredSpec {
    fn build(&self, sd: &SchemaDescriptor) -> Box<dyn ArrowPredicate> {
        let kind = self.kind.clone();
        Box::new(ArrowPredicateFn::new(self.proj.mask(sd), move |batch: RecordBatch| {
            let n = batch.num_rows();
            let out: BooleanArray = match &kind {
                PredKind::True => BooleanArray::from(vec![true; n]),
                PredKind::False => BooleanArray::from(vec![false; n]),
                PredKind::Hash { salt, m, nulls } => {
                    let cols: Vec<Vec<Val>> = batch.columns().iter().map(|c| extract(c.as_ref())).collect();
                    (0..n)
                        .map(|i| {
                            let mut h = *salt;
                            for c in &cols {
                                h = mix(h, hash_val(&c[i]));
                            }
                            match h % *m {
                                0 => Some(false),
                                1 if *nulls => None,
                                _ => Some(true),
                            }
                        })
                        .collect()
                }
            };
            Ok(out)
        }))
    }
}

#[derive(Clone, Debug)]
struct SelSpec {
    /// (skip, run length); the lengths add up to the rows of the chosen row groups
    runs: Vec<(bool, usize)>,
    mask_backed: bool,
}

impl SelSpec {
    fn build(&self) -> RowSelection {
        if self.mask_backed {
            let mut bits = Vec::new();
            for (skip, n) in &self.runs {
                bits.extend(std::iter::repeat(!*skip).take(*n));
            }
            RowSelection::from_boolean_buffer(BooleanBuffer::from(bits))
        } else {
            RowSelection::from(self.runs.iter().map(|(s, n)| if *s { RowSelector::skip(*n) } else { RowSelector::select(*n) }).collect::<Vec<_>>())
        }
    }
    fn selected(&self) -> usize {
        self.runs.iter().filter(|r| !r.0).map(|r| r.1).sum()
    }
}

#[derive(Clone, Debug)]
struct Opts {
    page_index: PageIndexPolicy,
    batch_size: Option<usize>,
    row_groups: Option<Vec<usize>>,
    proj: Proj,
    selection: Option<SelSpec>,
    preds: Vec<PredSpec>,
    offset: Option<usize>,
    limit: Option<usize>,
    policy: Option<RowSelectionPolicy>,
    cache: Option<usize>,
}

impl Opts {
    fn plain(page_index: PageIndexPolicy) -> Opts {
        Opts { page_index, batch_size: None, row_groups: None, proj: Proj::All, selection: None, preds: vec![], offset: None, limit: None, policy: None, cache: None }
    }
    fn reader_options(&self) -> ArrowReaderOptions {
        ArrowReaderOptions::new().with_page_index_policy(self.page_index)
    }
    fn apply<T>(&self, mut b: ArrowReaderBuilder<T>) -> ArrowReaderBuilder<T> {
        let sd = b.metadata().file_metadata().schema_descr_ptr();
        if let Some(n) = self.batch_size {
            b = b.with_batch_size(n);
        }
        if let Some(rg) = &self.row_groups {
            b = b.with_row_groups(rg.clone());
        }
        if !matches!(self.proj, Proj::All) {
            b = b.with_projection(self.proj.mask(&sd));
        }
        if let Some(s) = &self.selection {
            b = b.with_row_selection(s.build());
        }
        if !self.preds.is_empty() {
            b = b.with_row_filter(RowFilter::new(self.preds.iter().map(|p| p.build(&sd)).collect()));
        }
        if let Some(o) = self.offset {
            b = b.with_offset(o);
        }
        if let Some(l) = self.limit {
            b = b.with_limit(l);
        }
        if let Some(p) = self.policy {
            b = b.with_row_selection_policy(p);
        }
        if let Some(c) = self.cache {
            b = b.with_max_predicate_cache_size(c);
        }
        b
    }
    fn class(&self) -> String {
        format!(
            "{}|{}|{}|f{}|{}|{}|{}",
            self.proj.tag(),
            match &self.row_groups {
                None => "rgAll",
                Some(v) if v.windows(2).all(|w| w[0] < w[1]) => "rgSub",
                Some(_) => "rgPerm",
            },
            match &self.selection {
                None => "sel-",
                Some(s) if s.mask_backed => "selM",
                Some(_) => "selS",
            },
            self.preds.len(),
            match (self.offset.is_some(), self.limit.is_some()) {
                (false, false) => "ol-",
                (true, false) => "off",
                (false, true) => "lim",
                (true, true) => "off+lim",
            },
            match self.policy {
                None => "polDef",
                Some(RowSelectionPolicy::Selectors) => "polSel",
                Some(RowSelectionPolicy::Mask) => "polMask",
                Some(RowSelectionPolicy::Auto { .. }) => "polAuto",
            },
            if self.page_index == PageIndexPolicy::Skip { "pi0" } else { "pi1" }
        )
    }
}

fn subset(rng: &mut Rng, n: usize, max: usize) -> Vec<usize> {
    let mut v: Vec<usize> = (0..n).collect();
    rng.shuffle(&mut v);
    let k = 1 + rng.below(max.min(n).max(1));
    v.truncate(k.min(n));
    v.sort_unstable();
    v
}

fn gen_proj(rng: &mut Rng, roots: usize, leaves: usize, allow_empty: bool) -> Proj {
    match rng.below(8) {
        0..=2 => Proj::All,
        3 | 4 if roots > 0 => Proj::Roots(subset(rng, roots, roots)),
        7 if allow_empty && rng.chance(1, 3) => Proj::Leaves(vec![]),
        _ if leaves > 0 => Proj::Leaves(subset(rng, leaves, leaves)),
        _ => Proj::All,
    }
}

fn gen_runs(rng: &mut Rng, total: usize, rg_rows: &[usize]) -> Vec<(bool, usize)> {
    let mut runs = Vec::new();
    match rng.below(10) {
        0 => runs.push((false, total)),
        1 => runs.push((true, total)),
        2 => {
            // whole row groups selected / skipped
            for r in rg_rows {
                runs.push((rng.bool(), *r));
            }
        }
        _ => {
            let lens: &[usize] = match rng.below(3) {
                0 => &[1, 1, 2, 3],
                1 => &[1, 2, 3, 5, 8, 13, 21],
                _ => &[1, 7, 32, 33, 64, 100, 500],
            };
            let mut left = total;
            let mut skip = rng.bool();
            while left > 0 {
                let n = (*rng.pick(lens)).min(left);
                runs.push((skip, n));
                left -= n;
                // mostly alternate; sometimes two runs of the same kind in a row, sometimes an empty run
                if !rng.chance(1, 8) {
                    skip = !skip;
                }
                if rng.chance(1, 20) {
                    runs.push((rng.bool(), 0));
                }
            }
        }
    }
    runs
}

fn gen_opts(rng: &mut Rng, md: &ParquetMetaData) -> Opts {
    let sd = md.file_metadata().schema_descr();
    let leaves = sd.num_columns();
    let roots = sd.root_schema().get_fields().len();
    let nrg = md.num_row_groups();
    let file_rows: usize = md.row_groups().iter().map(|r| r.num_rows() as usize).sum();
    let page_index = if rng.chance(3, 5) { PageIndexPolicy::Optional } else { PageIndexPolicy::Skip };
    let mut o = Opts::plain(page_index);
    if rng.chance(4, 5) {
        o.batch_size = Some(match rng.below(7) {
            0 => 1,
            1 => 1 + rng.below(4),
            2 => file_rows.max(1),
            3 => file_rows + 1,
            4 => 1024,
            _ => 1 + rng.below(file_rows + 3),
        });
    }
    if nrg > 0 && rng.chance(1, 3) {
        let mut v = subset(rng, nrg, nrg);
        if rng.chance(1, 4) {
            rng.shuffle(&mut v);
        }
        o.row_groups = Some(v);
    } else if rng.chance(1, 40) {
        o.row_groups = Some(vec![]);
    }
    o.proj = gen_proj(rng, roots, leaves, true);
    let rg_rows: Vec<usize> = match &o.row_groups {
        None => md.row_groups().iter().map(|r| r.num_rows() as usize).collect(),
        Some(v) => v.iter().map(|i| md.row_group(*i).num_rows() as usize).collect(),
    };
    let total: usize = rg_rows.iter().sum();
    if rng.chance(1, 2) {
        o.selection = Some(SelSpec { runs: gen_runs(rng, total, &rg_rows), mask_backed: rng.chance(2, 5) });
    }
    let npred = *rng.pick(&[0usize, 0, 0, 1, 1, 2, 3]);
    for _ in 0..npred {
        if leaves == 0 {
            break;
        }
        let proj = match rng.below(4) {
            0 if roots > 0 => Proj::Roots(vec![rng.below(roots)]),
            1 => Proj::Leaves(subset(rng, leaves, 2)),
            _ => Proj::Leaves(vec![rng.below(leaves)]),
        };
        let kind = match rng.below(10) {
            0 => PredKind::True,
            1 => PredKind::False,
            _ => PredKind::Hash { salt: rng.u64(), m: *rng.pick(&[2u64, 2, 3, 4, 7, 50]), nulls: rng.chance(1, 3) },
        };
        o.preds.push(PredSpec { proj, kind });
    }
    let sel_rows = o.selection.as_ref().map(|s| s.selected()).unwrap_or(total);
    let pick_count = |rng: &mut Rng| match rng.below(6) {
        0 => 0,
        1 => 1 + rng.below(3),
        2 => sel_rows / 2,
        3 => sel_rows,
        4 => sel_rows + 1 + rng.below(3),
        _ => rng.below(total + 2),
    };
    if rng.chance(1, 3) {
        o.offset = Some(pick_count(rng));
    }
    if rng.chance(1, 3) {
        o.limit = Some(pick_count(rng));
    }
    if rng.chance(1, 2) {
        o.policy = Some(match rng.below(4) {
            0 => RowSelectionPolicy::Selectors,
            1 => RowSelectionPolicy::Mask,
            _ => RowSelectionPolicy::Auto { threshold: *rng.pick(&[0usize, 1, 2, 8, 32, 1000]) },
        });
    }
    if !o.preds.is_empty() && rng.chance(1, 2) {
        o.cache = Some(*rng.pick(&[0usize, 1, 64, 4096, usize::MAX]));
    }
    o
}

// ------------------------------------------------------------------------------------------
// outcome of one front-end run
// ------------------------------------------------------------------------------------------

/// Why a run did not deliver rows. `sig` is the stable signature tail, `detail` the witness.
#[derive(Debug)]
struct Fail {
    sig: String,
    detail: String,
}

fn fail(sig: impl Into<String>, detail: impl Into<String>) -> Fail {
    Fail { sig: sig.into(), detail: detail.into() }
}

fn perr(stage: &str, e: impl std::fmt::Display) -> Fail {
    let m = e.to_string();
    // the stage is part of the witness only: one defect surfaces through try_decode / try_next_reader / poll_next /
    // the readers' next(), each wrapping the message differently
    let mut core: &str = &m;
    loop {
        let before = core;
        for pre in ["Arrow: ", "Parquet argument error: ", "Parquet error: ", "External: ", "External error: "] {
            core = core.strip_prefix(pre).unwrap_or(core);
        }
        if core == before {
            break;
        }
    }
    let core: String = strip_digits(core).chars().take(90).collect();
    fail(format!("err|{core}"), format!("{stage} returned Err: {m}"))
}

#[derive(Default)]
struct RunStats {
    trace: String,
    requested: u64,
    supplied: u64,
    needs_rounds: u64,
    decode_calls: u64,
    rebuilds: u64,
    polls: u64,
    pendings: u64,
    io_fires: u64,
    stale_wakes_ignored: u64,
    spurious_polls: u64,
    fetch_calls: u64,
}

impl RunStats {
    fn ev(&mut self, s: &str) {
        if self.trace.len() < 600 {
            self.trace.push_str(s);
        }
    }
}

fn drain(reader: ParquetRecordBatchReader, out: &mut Vec<RecordBatch>) -> Result<(), Fail> {
    for b in reader {
        out.push(b.map_err(|e| perr("reader-next", e))?);
    }
    Ok(())
}

fn run_sync(bytes: &Bytes, o: &Opts) -> Result<(SchemaRef, Vec<RecordBatch>), Fail> {
    let b = ParquetRecordBatchReaderBuilder::try_new_with_options(bytes.clone(), o.reader_options()).map_err(|e| perr("open", e))?;
    let reader = o.apply(b).build().map_err(|e| perr("build", e))?;
    let schema = reader.schema();
    let mut out = Vec::new();
    drain(reader, &mut out)?;
    Ok((schema, out))
}

// ------------------------------------------------------------------------------------------
// scripted range supplier (push decoders)
// ------------------------------------------------------------------------------------------

#[derive(Clone, Copy, Debug, PartialEq, Eq)]
enum Preset {
    /// exactly the requested ranges, same order, one call (the documented loop)
    Exact,
    /// exact ranges, permuted, spread over several push calls
    ShuffleSplit,
    /// a non-empty part of the request per round, decode call in between
    Partial,
    /// every range widened to a superset
    Widen,
    /// one covering range per group of requested ranges
    Coalesce,
    /// ranges delivered twice
    Dup,
    /// everything at random, plus unrelated additional ranges
    Chaos,
    /// the whole file before the first decode call
    WholeFirst,
    /// the whole file as answer to the first request
    WholeOnRequest,
    /// column-chunk ranges of the metadata (exact or widened) pushed before they are requested
    PrefetchChunks,
}

const PRESETS: [Preset; 10] = [
    Preset::Exact,
    Preset::ShuffleSplit,
    Preset::Partial,
    Preset::Widen,
    Preset::Coalesce,
    Preset::Dup,
    Preset::Chaos,
    Preset::WholeFirst,
    Preset::WholeOnRequest,
    Preset::PrefetchChunks,
];

/// self-test switches (env `C15_BREAK`), perturbing the harness' own model / environment, never arrow-rs
#[derive(Clone, Copy, PartialEq, Eq, Debug)]
enum Break {
    None,
    /// drop the last row of the expectation
    Rows,
    /// swap two rows of the expectation
    Swap,
    /// the supplier never delivers one of the requested ranges (must end in `stalled`)
    Starve,
    /// the I/O future returns Pending without arranging a wake (must end in `lost-wake`)
    LostWake,
    /// the supplier model pretends a range was pushed although it was not (must end in `re-request`)
    Phantom,
    /// the file length the monitors believe is one byte short (must end in `range-outside-file`)
    ShortFile,
}

fn break_mode() -> Break {
    match std::env::var("C15_BREAK").as_deref() {
        Ok("rows") => Break::Rows,
        Ok("swap") => Break::Swap,
        Ok("starve") => Break::Starve,
        Ok("lost-wake") => Break::LostWake,
        Ok("phantom") => Break::Phantom,
        Ok("short-file") => Break::ShortFile,
        _ => Break::None,
    }
}

struct Supplier {
    file: Bytes,
    /// what the monitor believes the file length is (== file.len() unless self-test)
    file_len: u64,
    rng: Rng,
    preset: Preset,
    /// ranges pushed since the last NeedsData was returned
    pushed_since: Vec<Range<u64>>,
    /// the previous request: a request that only repeats members of it comes from the same waiting
    /// state of the decoder (nothing was consumed in between), so `pushed_since` keeps accumulating
    last_req: Vec<Range<u64>>,
    whole_pushed: bool,
    answered_whole: bool,
    brk: Break,
    starved: Option<Range<u64>>,
}

type PushFn<'a> = dyn FnMut(Vec<Range<u64>>, Vec<Bytes>) -> PqResult<()> + 'a;

fn contains(outer: &Range<u64>, inner: &Range<u64>) -> bool {
    outer.start <= inner.start && outer.end >= inner.end
}

impl Supplier {
    fn new(file: &Bytes, rng: Rng, preset: Preset, brk: Break) -> Supplier {
        let file_len = file.len() as u64 - if brk == Break::ShortFile { 1 } else { 0 };
        Supplier { file: file.clone(), file_len, rng, preset, pushed_since: vec![], last_req: vec![], whole_pushed: false, answered_whole: false, brk, starved: None }
    }

    fn slice(&self, r: &Range<u64>) -> Bytes {
        self.file.slice(r.start as usize..r.end as usize)
    }

    fn widen(&mut self, r: &Range<u64>) -> Range<u64> {
        let len = self.file.len() as u64;
        let a = match self.rng.below(4) {
            0 => 0,
            1 => 1,
            _ => self.rng.below(40) as u64,
        };
        let b = match self.rng.below(4) {
            0 => 0,
            1 => 1,
            _ => self.rng.below(40) as u64,
        };
        r.start.saturating_sub(a)..(r.end + b).min(len)
    }

    fn do_push(&mut self, st: &mut RunStats, push: &mut PushFn<'_>, ranges: Vec<Range<u64>>, one_by_one: bool) -> Result<(), Fail> {
        if ranges.is_empty() {
            return Ok(());
        }
        st.supplied += ranges.len() as u64;
        for r in &ranges {
            if r.start == 0 && r.end == self.file.len() as u64 {
                self.whole_pushed = true;
            }
            self.pushed_since.push(r.clone());
        }
        if one_by_one {
            for r in ranges {
                let d = self.slice(&r);
                push(vec![r], vec![d]).map_err(|e| perr("push_range", e))?;
            }
            Ok(())
        } else {
            let data: Vec<Bytes> = ranges.iter().map(|r| self.slice(r)).collect();
            push(ranges, data).map_err(|e| perr("push_ranges", e))
        }
    }

    /// additional data nobody asked for (yet)
    fn extras(&mut self, st: &mut RunStats, push: &mut PushFn<'_>) -> Result<(), Fail> {
        let len = self.file.len() as u64;
        if len == 0 {
            return Ok(());
        }
        let n = 1 + self.rng.below(3);
        let mut v = Vec::new();
        for _ in 0..n {
            let a = self.rng.below(len as usize) as u64;
            let l = match self.rng.below(3) {
                0 => 1 + self.rng.below(16) as u64,
                1 => 1 + self.rng.below(300) as u64,
                _ => 1 + self.rng.below(len as usize) as u64,
            };
            v.push(a..(a + l).min(len));
        }
        st.ev("x");
        self.do_push(st, push, v, false)
    }

    /// before the first decode call
    fn at_start(&mut self, st: &mut RunStats, push: &mut PushFn<'_>, md: Option<&ParquetMetaData>) -> Result<(), Fail> {
        let len = self.file.len() as u64;
        match self.preset {
            Preset::WholeFirst => {
                st.ev("W");
                self.do_push(st, push, vec![0..len], true)?;
            }
            Preset::PrefetchChunks => {
                if let Some(md) = md {
                    let mut v = Vec::new();
                    let widen = self.rng.bool();
                    let p = *self.rng.pick(&[1u32, 2, 4]);
                    for rg in md.row_groups() {
                        for c in rg.columns() {
                            if self.rng.chance(p, 4) {
                                let (s, l) = c.byte_range();
                                let r = s..s + l;
                                if r.end <= len {
                                    v.push(if widen { self.widen(&r) } else { r });
                                }
                            }
                        }
                    }
                    self.rng.shuffle(&mut v);
                    st.ev(&format!("C{}", v.len().min(9)));
                    self.do_push(st, push, v, false)?;
                }
            }
            Preset::Chaos if self.rng.bool() => self.extras(st, push)?,
            _ => {}
        }
        Ok(())
    }

    /// The oracle on a request, then the answer. `cleared`: the caller cleared the decoder's buffers since the last round.
    fn round(&mut self, st: &mut RunStats, what: &str, req: &[Range<u64>], push: &mut PushFn<'_>) -> Result<(), Fail> {
        st.needs_rounds += 1;
        st.requested += req.len() as u64;
        st.ev(&format!("N{}", req.len().min(9)));
        if std::env::var("C15_MINIMISE").is_ok() {
            eprintln!("{what} NeedsData {req:?}");
        }
        if req.is_empty() {
            return Err(fail(format!("{what}|empty-request"), "NeedsData with an empty list of ranges: no way to make progress".to_string()));
        }
        for r in req {
            if r.start > r.end || r.end > self.file_len {
                return Err(fail(format!("{what}|range-outside-file"), format!("requested {r:?}, file length {}", self.file_len)));
            }
        }
        // sufficiency: nothing that was delivered since the previous request may be asked for again
        for r in req {
            if self.whole_pushed {
                return Err(fail(format!("{what}|re-request-after-whole-file"), format!("the whole file 0..{} had been pushed, yet {r:?} is requested (request {req:?})", self.file.len())));
            }
            if let Some(s) = self.pushed_since.iter().find(|s| contains(s, r)) {
                return Err(fail(
                    format!("{what}|re-request"),
                    format!("{r:?} is requested although {s:?} was pushed after the previous request\nrequest {req:?}\npushed since the previous request {:?}", self.pushed_since),
                ));
            }
        }
        if !req.iter().all(|r| self.last_req.contains(r)) {
            self.pushed_since.clear();
        }
        self.last_req = req.to_vec();
        if self.brk == Break::Phantom {
            self.pushed_since.push(req[0].clone());
        }
        if self.brk == Break::Starve && self.starved.is_none() {
            self.starved = Some(req[self.rng.below(req.len())].clone());
        }
        let req: Vec<Range<u64>> = req.iter().filter(|r| self.starved.as_ref() != Some(*r)).cloned().collect();
        if req.is_empty() {
            return Ok(());
        }
        let len = self.file.len() as u64;
        let p = self.preset;
        if p == Preset::WholeOnRequest && !self.answered_whole {
            self.answered_whole = true;
            st.ev("W");
            return self.do_push(st, push, vec![0..len], false);
        }
        // 1. which of the requested ranges are answered in this round
        let mut chosen: Vec<Range<u64>> = req.clone();
        let partial = match p {
            Preset::Partial => true,
            Preset::Chaos => self.rng.chance(1, 3),
            _ => false,
        };
        if partial && chosen.len() > 1 {
            self.rng.shuffle(&mut chosen);
            let k = 1 + self.rng.below(chosen.len());
            chosen.truncate(k);
            st.ev("p");
        }
        // 2. shape
        let mut out: Vec<Range<u64>> = Vec::new();
        match p {
            Preset::Widen => {
                for r in &chosen {
                    let w = self.widen(r);
                    out.push(w);
                }
                st.ev("w");
            }
            Preset::Coalesce => {
                chosen.sort_by_key(|r| r.start);
                let mut i = 0;
                while i < chosen.len() {
                    let k = 1 + self.rng.below(chosen.len() - i);
                    let g = &chosen[i..i + k];
                    out.push(g.iter().map(|r| r.start).min().unwrap()..g.iter().map(|r| r.end).max().unwrap());
                    i += k;
                }
                st.ev("c");
            }
            Preset::Chaos => {
                for r in &chosen {
                    match self.rng.below(6) {
                        0 | 1 => out.push(r.clone()),
                        2 | 3 => {
                            let w = self.widen(r);
                            out.push(w);
                        }
                        4 => {
                            // cover this one and a random other one
                            let o = self.rng.pick(&chosen).clone();
                            out.push(r.start.min(o.start)..r.end.max(o.end));
                        }
                        _ => {
                            if self.rng.chance(1, 6) {
                                out.push(0..len);
                            } else {
                                out.push(r.clone());
                                out.push(r.clone());
                            }
                        }
                    }
                }
                st.ev("z");
            }
            _ => out = chosen.clone(),
        }
        if matches!(p, Preset::Dup) {
            let n = out.len();
            for i in 0..n {
                if self.rng.bool() {
                    out.push(out[i].clone());
                }
            }
            st.ev("d");
        }
        // 3. order and number of calls
        let reorder = matches!(p, Preset::ShuffleSplit | Preset::Chaos | Preset::Dup | Preset::Partial) || (p != Preset::Exact && self.rng.bool());
        if reorder {
            self.rng.shuffle(&mut out);
        }
        let split = matches!(p, Preset::ShuffleSplit) || (matches!(p, Preset::Chaos | Preset::Dup | Preset::Widen) && self.rng.bool());
        if split && out.len() > 1 {
            let mut rest = out;
            while !rest.is_empty() {
                let k = 1 + self.rng.below(rest.len());
                let tail = rest.split_off(k);
                let one = self.rng.chance(1, 3);
                st.ev(&format!("P{}", rest.len().min(9)));
                self.do_push(st, push, rest, one)?;
                rest = tail;
            }
        } else {
            st.ev(&format!("P{}", out.len().min(9)));
            let one = p != Preset::Exact && self.rng.chance(1, 4);
            self.do_push(st, push, out, one)?;
        }
        if p == Preset::Chaos && self.rng.chance(1, 4) {
            self.extras(st, push)?;
        }
        Ok(())
    }
}

// ------------------------------------------------------------------------------------------
// push front-end
// ------------------------------------------------------------------------------------------

#[derive(Clone, Copy, Debug, PartialEq, Eq)]
enum PushMode {
    Decode,
    NextReader,
    NextReaderDeferred,
    Mixed,
}

#[derive(Clone, Copy, Debug, PartialEq, Eq)]
enum Rebuild {
    Never,
    AtStart,
    Always,
    Random,
}

#[derive(Clone, Debug)]
struct PushSched {
    mode: PushMode,
    preset: Preset,
    rebuild: Rebuild,
    /// metadata through `ParquetMetaDataPushDecoder` fed by the supplier (else loaded synchronously)
    meta_push: bool,
    /// `clear_all_ranges()` once, right after some request
    clear_once: bool,
}

impl PushSched {
    fn draw(rng: &mut Rng) -> PushSched {
        let mode = *rng.pick(&[PushMode::Decode, PushMode::Decode, PushMode::NextReader, PushMode::NextReader, PushMode::NextReaderDeferred, PushMode::Mixed]);
        let rebuild = if mode == PushMode::Decode {
            *rng.pick(&[Rebuild::Never, Rebuild::Never, Rebuild::AtStart])
        } else {
            *rng.pick(&[Rebuild::Never, Rebuild::AtStart, Rebuild::Always, Rebuild::Always, Rebuild::Random, Rebuild::Random])
        };
        PushSched { mode, preset: *rng.pick(&PRESETS), rebuild, meta_push: rng.chance(2, 5), clear_once: rng.chance(1, 12) }
    }
    fn class(&self) -> String {
        format!("push|{:?}|{:?}|rebuild{:?}|{}{}", self.mode, self.preset, self.rebuild, if self.meta_push { "metaPush" } else { "metaSync" }, if self.clear_once { "|clear" } else { "" })
    }
}

/// Metadata through the metadata push decoder, ranges from the scripted supplier.
fn push_metadata(sup: &mut Supplier, st: &mut RunStats, policy: PageIndexPolicy) -> Result<ParquetMetaData, Fail> {
    let mut d = ParquetMetaDataPushDecoder::try_new(sup.file.len() as u64).map_err(|e| perr("meta-try_new", e))?.with_page_index_policy(policy);
    if matches!(sup.preset, Preset::WholeFirst) || (sup.preset == Preset::Chaos && sup.rng.bool()) {
        let mut push = |r: Vec<Range<u64>>, b: Vec<Bytes>| d.push_ranges(r, b);
        sup.at_start(st, &mut push, None)?;
    }
    let mut rounds = 0;
    loop {
        rounds += 1;
        if rounds > 40 {
            return Err(fail("meta-push|stalled", "more than 40 NeedsData rounds for footer + metadata + page index".to_string()));
        }
        match d.try_decode().map_err(|e| perr("meta-try_decode", e))? {
            DecodeResult::NeedsData(req) => {
                let mut push = |r: Vec<Range<u64>>, b: Vec<Bytes>| d.push_ranges(r, b);
                sup.round(st, "meta-push", &req, &mut push)?;
            }
            DecodeResult::Data(md) => {
                // a fresh decoder follows: what it holds is not what the metadata decoder held
                sup.pushed_since.clear();
                sup.whole_pushed = false;
                sup.answered_whole = false;
                st.ev("M");
                return Ok(md);
            }
            DecodeResult::Finished => return Err(fail("meta-push|finished-without-metadata", "try_decode returned Finished before any metadata".to_string())),
        }
    }
}

struct Caps {
    /// 10 * (#pages + #row groups + 10)
    rounds: u64,
    /// upper bound of productive steps (batches + readers)
    productive: u64,
}

fn run_push(file: &Bytes, o: &Opts, s: &PushSched, rng: &mut Rng, caps: &Caps, st: &mut RunStats, brk: Break) -> Result<(SchemaRef, Vec<RecordBatch>), Fail> {
    let mut sup = Supplier::new(file, rng.fork(), s.preset, brk);
    let mut rng = rng.fork();
    let md: Arc<ParquetMetaData> = if s.meta_push {
        Arc::new(push_metadata(&mut sup, st, o.page_index)?)
    } else {
        ArrowReaderMetadata::load(file, o.reader_options()).map_err(|e| perr("meta-load", e))?.metadata().clone()
    };
    let b = ParquetPushDecoderBuilder::try_new_decoder_with_options(md.clone(), o.reader_options()).map_err(|e| perr("try_new_decoder", e))?;
    let schema_all = b.schema().clone();
    let mut dec: ParquetPushDecoder = o.apply(b).build().map_err(|e| perr("build", e))?;
    let _ = schema_all;
    macro_rules! rebuild {
        ($why:expr) => {{
            st.rebuilds += 1;
            st.ev("R");
            dec = dec.into_builder().map_err(|e| perr(concat!("into_builder@", $why), e))?.build().map_err(|e| perr(concat!("rebuild@", $why), e))?;
        }};
    }
    if s.rebuild != Rebuild::Never {
        if !dec.is_at_row_group_boundary() {
            return Err(fail("not-at-boundary|fresh", "a freshly built decoder reports is_at_row_group_boundary() == false".to_string()));
        }
        if s.rebuild == Rebuild::AtStart || rng.bool() {
            rebuild!("start");
        }
    }
    {
        let mut push = |r: Vec<Range<u64>>, b: Vec<Bytes>| dec.push_ranges(r, b);
        sup.at_start(st, &mut push, Some(&md))?;
    }
    let mut out: Vec<RecordBatch> = Vec::new();
    let mut held: Option<ParquetRecordBatchReader> = None;
    let mut cleared = !s.clear_once;
    let mut schema: Option<SchemaRef> = None;
    loop {
        st.decode_calls += 1;
        if st.needs_rounds > caps.rounds || st.decode_calls > caps.rounds + caps.productive {
            return Err(fail(
                "stalled",
                format!("{} NeedsData rounds / {} decode calls (bound {} rounds, {} productive steps); every round delivered at least one missing requested range", st.needs_rounds, st.decode_calls, caps.rounds, caps.productive),
            ));
        }
        let use_reader = match s.mode {
            PushMode::Decode => false,
            PushMode::NextReader | PushMode::NextReaderDeferred => true,
            PushMode::Mixed => rng.chance(1, 3),
        };
        let needs: Option<Vec<Range<u64>>> = if use_reader {
            match dec.try_next_reader().map_err(|e| perr("try_next_reader", e))? {
                DecodeResult::NeedsData(r) => Some(r),
                DecodeResult::Data(reader) => {
                    st.ev("G");
                    if let Some(h) = held.take() {
                        drain(h, &mut out)?;
                    }
                    schema.get_or_insert_with(|| reader.schema());
                    if s.mode == PushMode::NextReaderDeferred || (s.mode == PushMode::Mixed && rng.bool()) {
                        held = Some(reader);
                    } else {
                        drain(reader, &mut out)?;
                    }
                    if !dec.is_at_row_group_boundary() {
                        return Err(fail("not-at-boundary|after-next-reader", "is_at_row_group_boundary() == false right after try_next_reader returned a reader".to_string()));
                    }
                    let doit = match s.rebuild {
                        Rebuild::Always => true,
                        Rebuild::Random => rng.bool(),
                        _ => false,
                    };
                    if doit {
                        rebuild!("boundary");
                    }
                    None
                }
                DecodeResult::Finished => break,
            }
        } else {
            match dec.try_decode().map_err(|e| perr("try_decode", e))? {
                DecodeResult::NeedsData(r) => Some(r),
                DecodeResult::Data(b) => {
                    st.ev("D");
                    if let Some(h) = held.take() {
                        drain(h, &mut out)?;
                    }
                    out.push(b);
                    if s.preset == Preset::Chaos && rng.chance(1, 6) {
                        // "it is ok to get data before we asked for it"
                        let mut push = |r: Vec<Range<u64>>, b: Vec<Bytes>| dec.push_ranges(r, b);
                        sup.extras(st, &mut push)?;
                    }
                    None
                }
                DecodeResult::Finished => break,
            }
        };
        if let Some(req) = needs {
            if !cleared && rng.bool() {
                cleared = true;
                st.ev("K");
                dec.clear_all_ranges();
                sup.pushed_since.clear();
                sup.whole_pushed = false;
            }
            let mut push = |r: Vec<Range<u64>>, b: Vec<Bytes>| dec.push_ranges(r, b);
            sup.round(st, "push", &req, &mut push)?;
        }
    }
    st.ev("F");
    if let Some(h) = held.take() {
        drain(h, &mut out)?;
    }
    // the decoder has no schema accessor: take it from the batches / readers (checked against sync by the caller)
    let schema = schema.or_else(|| out.first().map(|b| b.schema())).unwrap_or_else(|| Arc::new(Schema::empty()));
    Ok((schema, out))
}

// ------------------------------------------------------------------------------------------
// adversarial AsyncFileReader + manual executor
// ------------------------------------------------------------------------------------------

#[derive(Default)]
struct IoShared {
    /// wakers of futures that returned Pending and wait for their "I/O completion" (future id, waker)
    parked: Vec<(u64, Waker)>,
    next_id: u64,
    /// every call: (kind, ranges)
    log: Vec<(&'static str, Vec<Range<u64>>)>,
    /// index into `log` where the data phase starts
    data_from: usize,
    outside: Vec<Range<u64>>,
    fut_polls: u64,
    fut_pendings: u64,
    trace: String,
}

fn lock(m: &Arc<Mutex<IoShared>>) -> std::sync::MutexGuard<'_, IoShared> {
    m.lock().unwrap_or_else(|e| e.into_inner())
}

/// A future that is Pending `plan.len()` times; `plan[i]`: wake from inside poll (true) or park the
/// waker until the executor completes the "I/O" (false).
struct Pend<T> {
    id: u64,
    plan: Vec<bool>,
    at: usize,
    value: Option<T>,
    io: Arc<Mutex<IoShared>>,
    lose_wake: bool,
}

impl<T: Unpin> Future for Pend<T> {
    type Output = T;
    fn poll(mut self: Pin<&mut Self>, cx: &mut Context<'_>) -> Poll<T> {
        let this = &mut *self;
        let mut io = lock(&this.io);
        io.fut_polls += 1;
        io.parked.retain(|(id, _)| *id != this.id);
        if this.at < this.plan.len() {
            let self_wake = this.plan[this.at];
            this.at += 1;
            io.fut_pendings += 1;
            if this.lose_wake {
                // self-test only: an I/O layer that forgets the waker
            } else if self_wake {
                cx.waker().wake_by_ref();
            } else {
                io.parked.push((this.id, cx.waker().clone()));
            }
            Poll::Pending
        } else {
            Poll::Ready(this.value.take().expect("model: Pend polled after completion"))
        }
    }
}

#[derive(Clone, Copy, Debug, PartialEq, Eq)]
enum MetaImpl {
    /// `get_metadata` returns a pre-parsed Arc (after some Pending)
    Cached,
    /// `ParquetMetaDataReader::load_and_finish(&mut self, file_len)` through `get_bytes`
    LoadSized,
    /// `load_via_suffix_and_finish` through `fetch_suffix`
    LoadSuffix,
}

#[derive(Clone, Copy, Debug, PartialEq, Eq)]
enum Vectored {
    /// all ranges as concurrent sub-futures (`join_all`)
    JoinAll,
    /// one fetch of the covering range, sliced
    Coalesced,
    /// sequential, last range first
    Reverse,
}

struct Core {
    data: Bytes,
    file_len: u64,
    rng: Rng,
    max_pending: usize,
    io: Arc<Mutex<IoShared>>,
    meta_impl: MetaImpl,
    cached: Option<Arc<ParquetMetaData>>,
    hint: Option<usize>,
    vectored: Vectored,
    lose_wake: bool,
}

impl Core {
    fn pend<T>(&mut self, value: T) -> Pend<T> {
        let n = if self.max_pending == 0 { 0 } else { self.rng.below(self.max_pending + 1) };
        let plan: Vec<bool> = (0..n).map(|_| self.rng.bool()).collect();
        let mut io = lock(&self.io);
        io.next_id += 1;
        let id = io.next_id;
        if io.trace.len() < 400 {
            io.trace.push_str(&format!("f{}", plan.iter().map(|b| if *b { 's' } else { 'i' }).collect::<String>()));
        }
        drop(io);
        Pend { id, plan, at: 0, value: Some(value), io: self.io.clone(), lose_wake: self.lose_wake }
    }
    fn bytes(&mut self, r: &Range<u64>) -> PqResult<Bytes> {
        if r.start > r.end || r.end > self.file_len {
            lock(&self.io).outside.push(r.clone());
            return Err(ParquetError::General(format!("model: range {r:?} outside the file of {} bytes", self.file_len)));
        }
        Ok(self.data.slice(r.start as usize..r.end as usize))
    }
    fn log(&mut self, kind: &'static str, ranges: Vec<Range<u64>>) {
        let mut io = lock(&self.io);
        if io.trace.len() < 400 {
            io.trace.push_str(&format!("{}{}", &kind[..1], ranges.len().min(9)));
        }
        io.log.push((kind, ranges));
    }
    fn fetch(&mut self, r: Range<u64>) -> Pend<PqResult<Bytes>> {
        let v = self.bytes(&r);
        self.pend(v)
    }
    fn suffix(&mut self, n: usize) -> Pend<PqResult<Bytes>> {
        let len = self.data.len();
        let n = n.min(len);
        self.log("suffix", vec![(len - n) as u64..len as u64]);
        let v = Ok(self.data.slice(len - n..));
        self.pend(v)
    }
    fn vectored(&mut self, ranges: Vec<Range<u64>>) -> BoxFuture<'static, PqResult<Vec<Bytes>>> {
        self.log("vectored", ranges.clone());
        match self.vectored {
            Vectored::JoinAll => {
                let futs: Vec<Pend<PqResult<Bytes>>> = ranges.into_iter().map(|r| self.fetch(r)).collect();
                async move { futures::future::join_all(futs).await.into_iter().collect::<PqResult<Vec<Bytes>>>() }.boxed()
            }
            Vectored::Coalesced => {
                if ranges.is_empty() {
                    return self.pend(Ok(vec![])).boxed();
                }
                let lo = ranges.iter().map(|r| r.start).min().unwrap();
                let hi = ranges.iter().map(|r| r.end).max().unwrap();
                // validate each range on its own, then one covering fetch
                let each: PqResult<Vec<()>> = ranges.iter().map(|r| self.bytes(r).map(|_| ())).collect();
                let f = self.fetch(lo..hi.max(lo));
                async move {
                    each?;
                    let all = f.await?;
                    Ok(ranges.iter().map(|r| all.slice((r.start - lo) as usize..(r.end - lo) as usize)).collect())
                }
                .boxed()
            }
            Vectored::Reverse => {
                let futs: Vec<Pend<PqResult<Bytes>>> = ranges.into_iter().rev().map(|r| self.fetch(r)).collect();
                async move {
                    let mut out = Vec::new();
                    for f in futs {
                        out.push(f.await?);
                    }
                    out.reverse();
                    Ok(out)
                }
                .boxed()
            }
        }
    }
}

/// default `get_byte_ranges` (sequential `get_bytes`)
struct PerRange(Core);
/// overrides `get_byte_ranges`
struct Vec1(Core);

macro_rules! impl_reader {
    ($t:ident { $($vectored:tt)* }) => {
        impl AsyncFileReader for $t {
            fn get_bytes(&mut self, range: Range<u64>) -> BoxFuture<'_, PqResult<Bytes>> {
                self.0.log("bytes", vec![range.clone()]);
                self.0.fetch(range).boxed()
            }
            $($vectored)*
            fn get_metadata<'a>(&'a mut self, options: Option<&'a ArrowReaderOptions>) -> BoxFuture<'a, PqResult<Arc<ParquetMetaData>>> {
                self.0.log("metadata", vec![]);
                let (mi, cached, hint, len) = (self.0.meta_impl, self.0.cached.clone(), self.0.hint, self.0.data.len() as u64);
                let pend = self.0.pend(());
                async move {
                    match mi {
                        MetaImpl::Cached => {
                            pend.await;
                            cached.ok_or_else(|| ParquetError::General("model: no cached metadata".into()))
                        }
                        MetaImpl::LoadSized => {
                            let m = ParquetMetaDataReader::new().with_arrow_reader_options(options).with_prefetch_hint(hint).load_and_finish(self, len).await?;
                            Ok(Arc::new(m))
                        }
                        MetaImpl::LoadSuffix => {
                            let m = ParquetMetaDataReader::new().with_arrow_reader_options(options).with_prefetch_hint(hint).load_via_suffix_and_finish(self).await?;
                            Ok(Arc::new(m))
                        }
                    }
                }
                .boxed()
            }
        }
        impl MetadataSuffixFetch for &mut $t {
            fn fetch_suffix(&mut self, suffix: usize) -> BoxFuture<'_, PqResult<Bytes>> {
                self.0.suffix(suffix).boxed()
            }
        }
    };
}

impl_reader!(PerRange {});
impl_reader!(Vec1 {
    fn get_byte_ranges(&mut self, ranges: Vec<Range<u64>>) -> BoxFuture<'_, PqResult<Vec<Bytes>>> {
        self.0.vectored(ranges)
    }
});

struct WakeShared {
    /// generation of the newest waker that was woken since the last poll (0: none)
    woken_gen: AtomicU64,
    wakes: AtomicU64,
}

struct GenWaker {
    generation: u64,
    sh: Arc<WakeShared>,
}

impl ArcWake for GenWaker {
    fn wake_by_ref(a: &Arc<Self>) {
        a.sh.wakes.fetch_add(1, Ordering::SeqCst);
        a.sh.woken_gen.fetch_max(a.generation, Ordering::SeqCst);
    }
}

enum ExecErr {
    LostWake,
    PollCap,
}

/// Single-task executor: polls again only after a wake-up (or, when configured, spuriously).
struct Exec {
    sh: Arc<WakeShared>,
    generation: u64,
    /// a fresh waker per poll; wake-ups through older wakers are ignored (all a future may rely on
    /// is the waker of the most recent poll)
    strict: bool,
    spurious: (u32, u32),
    io: Arc<Mutex<IoShared>>,
    rng: Rng,
    cap: u64,
    polls: u64,
    pendings: u64,
    io_fires: u64,
    stale_ignored: u64,
    spurious_polls: u64,
    trace: String,
}

impl Exec {
    fn new(io: Arc<Mutex<IoShared>>, rng: Rng, strict: bool, spurious: (u32, u32), cap: u64) -> Exec {
        Exec {
            sh: Arc::new(WakeShared { woken_gen: AtomicU64::new(0), wakes: AtomicU64::new(0) }),
            generation: 1,
            strict,
            spurious,
            io,
            rng,
            cap,
            polls: 0,
            pendings: 0,
            io_fires: 0,
            stale_ignored: 0,
            spurious_polls: 0,
            trace: String::new(),
        }
    }
    fn ev(&mut self, c: char) {
        if self.trace.len() < 400 {
            self.trace.push(c);
        }
    }
    fn woken(&mut self) -> bool {
        let g = self.sh.woken_gen.load(Ordering::SeqCst);
        if g == 0 {
            false
        } else if g == self.generation {
            true
        } else {
            // only possible in strict mode: a wake through a waker of an earlier poll
            self.stale_ignored += 1;
            self.sh.woken_gen.store(0, Ordering::SeqCst);
            false
        }
    }
    fn block_on<F: Future + ?Sized>(&mut self, mut fut: Pin<&mut F>) -> Result<F::Output, ExecErr> {
        loop {
            self.polls += 1;
            if self.polls > self.cap {
                return Err(ExecErr::PollCap);
            }
            if self.strict {
                self.generation += 1;
            }
            self.sh.woken_gen.store(0, Ordering::SeqCst);
            let waker = futures::task::waker(Arc::new(GenWaker { generation: self.generation, sh: self.sh.clone() }));
            let mut cx = Context::from_waker(&waker);
            match fut.as_mut().poll(&mut cx) {
                Poll::Ready(v) => {
                    self.ev('r');
                    return Ok(v);
                }
                Poll::Pending => {
                    self.pendings += 1;
                    self.ev('p');
                }
            }
            // wait for a wake-up
            loop {
                if self.woken() {
                    break;
                }
                if self.spurious.0 > 0 && self.rng.chance(self.spurious.0, self.spurious.1) {
                    self.spurious_polls += 1;
                    self.ev('s');
                    break;
                }
                // nothing woke the task: let one outstanding "I/O" complete
                let w = {
                    let mut io = lock(&self.io);
                    if io.parked.is_empty() {
                        None
                    } else {
                        let i = self.rng.below(io.parked.len());
                        Some(io.parked.remove(i).1)
                    }
                };
                match w {
                    Some(w) => {
                        self.io_fires += 1;
                        self.ev('i');
                        w.wake();
                    }
                    None => return Err(ExecErr::LostWake),
                }
            }
        }
    }
}

#[derive(Clone, Copy, Debug, PartialEq, Eq)]
enum ReaderKind {
    PerRange,
    Vectored(Vectored),
    BoxedPerRange,
    BoxedVectored,
}

#[derive(Clone, Copy, Debug, PartialEq, Eq)]
enum MetaMode {
    /// `new_with_options`: the builder calls `get_metadata`
    Fetched(MetaImpl),
    /// `ArrowReaderMetadata::load` (sync) + `new_with_metadata`
    UpFrontSync,
    /// `ArrowReaderMetadata::load_async` + `new_with_metadata`
    UpFrontAsync(MetaImpl),
}

#[derive(Clone, Copy, Debug, PartialEq, Eq)]
enum Consume {
    Stream,
    RowGroups,
    RowGroupsDeferred,
}

#[derive(Clone, Debug)]
struct AsyncSched {
    reader: ReaderKind,
    meta: MetaMode,
    hint: Option<usize>,
    consume: Consume,
    max_pending: usize,
    strict_waker: bool,
    spurious: (u32, u32),
}

impl AsyncSched {
    fn draw(rng: &mut Rng, file_len: usize) -> AsyncSched {
        let v = *rng.pick(&[Vectored::JoinAll, Vectored::JoinAll, Vectored::Coalesced, Vectored::Reverse]);
        let reader = match rng.below(6) {
            0 | 1 => ReaderKind::PerRange,
            2 | 3 => ReaderKind::Vectored(v),
            4 => ReaderKind::BoxedPerRange,
            _ => ReaderKind::BoxedVectored,
        };
        let mi = *rng.pick(&[MetaImpl::Cached, MetaImpl::LoadSized, MetaImpl::LoadSized, MetaImpl::LoadSuffix]);
        let meta = match rng.below(5) {
            0 => MetaMode::UpFrontSync,
            1 => MetaMode::UpFrontAsync(mi),
            _ => MetaMode::Fetched(mi),
        };
        let hint = match rng.below(6) {
            0 | 1 => None,
            2 => Some(rng.below(20)),
            3 => Some(rng.below(file_len + 1)),
            4 => Some(file_len),
            _ => Some(file_len + 1 + rng.below(100)),
        };
        AsyncSched {
            reader,
            meta,
            hint,
            consume: *rng.pick(&[Consume::Stream, Consume::Stream, Consume::RowGroups, Consume::RowGroupsDeferred]),
            max_pending: *rng.pick(&[0usize, 1, 1, 2, 3, 3]),
            strict_waker: rng.bool(),
            spurious: if rng.chance(1, 4) { (1, 3) } else { (0, 1) },
        }
    }
    fn class(&self) -> String {
        format!(
            "async|{:?}|{:?}|{}|{:?}|pend{}|{}{}",
            self.reader,
            self.meta,
            match self.hint {
                None => "hint-",
                Some(_) => "hint+",
            },
            self.consume,
            self.max_pending,
            if self.strict_waker { "freshWaker" } else { "oneWaker" },
            if self.spurious.0 > 0 { "|spurious" } else { "" }
        )
    }
}

fn exec_fail(e: ExecErr, stage: &str, ex: &Exec) -> Fail {
    match e {
        ExecErr::LostWake => fail(
            format!("lost-wake|{stage}"),
            format!("{stage} returned Pending, no waker of the latest poll was woken and no I/O completion holds a waker: the task would sleep forever ({} polls, {} wakes)", ex.polls, ex.sh.wakes.load(Ordering::SeqCst)),
        ),
        ExecErr::PollCap => fail(format!("poll-cap|{stage}"), format!("more than {} polls", ex.cap)),
    }
}

fn run_async_with<T>(reader: T, io: Arc<Mutex<IoShared>>, file: &Bytes, o: &Opts, s: &AsyncSched, rng: &mut Rng, caps: &Caps, st: &mut RunStats) -> Result<(SchemaRef, Vec<RecordBatch>), Fail>
where
    T: AsyncFileReader + Unpin + Send + 'static,
{
    let poll_cap = (caps.rounds + caps.productive) * 8 + 64;
    let mut ex = Exec::new(io.clone(), rng.fork(), s.strict_waker, s.spurious, poll_cap);
    let res: Result<(SchemaRef, Vec<RecordBatch>), Fail> = (|| {
        let mut reader = reader;
        let builder = match s.meta {
            MetaMode::Fetched(_) => {
                let f = ParquetRecordBatchStreamBuilder::new_with_options(reader, o.reader_options());
                let mut f = std::pin::pin!(f);
                ex.block_on(f.as_mut()).map_err(|e| exec_fail(e, "new_with_options", &ex))?.map_err(|e| perr("new_with_options", e))?
            }
            MetaMode::UpFrontSync => {
                let m = ArrowReaderMetadata::load(file, o.reader_options()).map_err(|e| perr("meta-load", e))?;
                ParquetRecordBatchStreamBuilder::new_with_metadata(reader, m)
            }
            MetaMode::UpFrontAsync(_) => {
                let m = {
                    let f = ArrowReaderMetadata::load_async(&mut reader, o.reader_options());
                    let mut f = std::pin::pin!(f);
                    ex.block_on(f.as_mut()).map_err(|e| exec_fail(e, "load_async", &ex))?.map_err(|e| perr("load_async", e))?
                };
                ParquetRecordBatchStreamBuilder::new_with_metadata(reader, m)
            }
        };
        {
            let mut g = lock(&io);
            g.data_from = g.log.len();
            g.trace.push('|');
        }
        ex.ev('|');
        let mut stream = o.apply(builder).build().map_err(|e| perr("build", e))?;
        let schema = stream.schema().clone();
        let mut out = Vec::new();
        match s.consume {
            Consume::Stream => loop {
                let f = stream.next();
                let mut f = std::pin::pin!(f);
                match ex.block_on(f.as_mut()).map_err(|e| exec_fail(e, "poll_next", &ex))? {
                    Some(Ok(b)) => out.push(b),
                    Some(Err(e)) => return Err(perr("poll_next", e)),
                    None => break,
                }
            },
            Consume::RowGroups | Consume::RowGroupsDeferred => {
                let mut held: Option<ParquetRecordBatchReader> = None;
                loop {
                    let r = {
                        let f = stream.next_row_group();
                        let mut f = std::pin::pin!(f);
                        ex.block_on(f.as_mut()).map_err(|e| exec_fail(e, "next_row_group", &ex))?.map_err(|e| perr("next_row_group", e))?
                    };
                    if let Some(h) = held.take() {
                        drain(h, &mut out)?;
                    }
                    match r {
                        Some(reader) => {
                            if s.consume == Consume::RowGroupsDeferred {
                                held = Some(reader);
                            } else {
                                drain(reader, &mut out)?;
                            }
                        }
                        None => break,
                    }
                }
            }
        }
        Ok((schema, out))
    })();
    // monitors on the request log
    let g = lock(&io);
    st.polls = ex.polls;
    st.pendings = ex.pendings;
    st.io_fires = ex.io_fires;
    st.stale_wakes_ignored = ex.stale_ignored;
    st.spurious_polls = ex.spurious_polls;
    st.trace = format!("{}#{}", g.trace, ex.trace);
    if let Some(r) = g.outside.first() {
        return Err(fail("async|range-outside-file", format!("the reader was asked for {r:?}, file length {}\nrequest log {:?}", file.len(), &g.log[g.log.len().saturating_sub(6)..])));
    }
    let data = &g.log[g.data_from.min(g.log.len())..];
    st.fetch_calls = data.len() as u64;
    let mut seen: BTreeSet<(u64, u64)> = BTreeSet::new();
    for (kind, ranges) in data {
        st.requested += ranges.len() as u64;
        if *kind == "vectored" && ranges.is_empty() {
            return Err(fail("async|empty-request", "get_byte_ranges called with no ranges".to_string()));
        }
        for r in ranges {
            if r.start < r.end && !seen.insert((r.start, r.end)) {
                return Err(fail("async|re-request", format!("{r:?} was fetched twice although the reader returned exactly the requested bytes\ndata requests {data:?}")));
            }
        }
    }
    let res = res?;
    let vectored_calls = data.iter().filter(|d| d.0 == "vectored").count() as u64;
    let groups = if vectored_calls > 0 { vectored_calls } else { data.len() as u64 };
    if vectored_calls > caps.rounds || (vectored_calls == 0 && groups > caps.rounds * 4 + st.requested) {
        return Err(fail("async|stalled", format!("{groups} data fetches, bound {}", caps.rounds)));
    }
    Ok(res)
}

fn run_async(file: &Bytes, md_cached: Arc<ParquetMetaData>, o: &Opts, s: &AsyncSched, rng: &mut Rng, caps: &Caps, st: &mut RunStats, brk: Break) -> Result<(SchemaRef, Vec<RecordBatch>), Fail> {
    let io: Arc<Mutex<IoShared>> = Arc::new(Mutex::new(IoShared::default()));
    let meta_impl = match s.meta {
        MetaMode::Fetched(m) | MetaMode::UpFrontAsync(m) => m,
        MetaMode::UpFrontSync => MetaImpl::Cached,
    };
    let core = Core {
        data: file.clone(),
        file_len: file.len() as u64 - if brk == Break::ShortFile { 1 } else { 0 },
        rng: rng.fork(),
        max_pending: s.max_pending,
        io: io.clone(),
        meta_impl,
        cached: Some(md_cached),
        hint: s.hint,
        vectored: match s.reader {
            ReaderKind::Vectored(v) => v,
            _ => Vectored::JoinAll,
        },
        lose_wake: brk == Break::LostWake,
    };
    match s.reader {
        ReaderKind::PerRange => run_async_with(PerRange(core), io, file, o, s, rng, caps, st),
        ReaderKind::Vectored(_) => run_async_with(Vec1(core), io, file, o, s, rng, caps, st),
        ReaderKind::BoxedPerRange => run_async_with(Box::new(PerRange(core)) as Box<dyn AsyncFileReader>, io, file, o, s, rng, caps, st),
        ReaderKind::BoxedVectored => run_async_with(Box::new(Vec1(core)) as Box<dyn AsyncFileReader>, io, file, o, s, rng, caps, st),
    }
}

// ------------------------------------------------------------------------------------------
// the workload
// ------------------------------------------------------------------------------------------

#[derive(Default)]
struct Agg {
    push_schedules: BTreeSet<u64>,
    async_schedules: BTreeSet<u64>,
    push_classes: BTreeSet<String>,
    async_classes: BTreeSet<String>,
}

/// number of pages (data + dictionary) in the file, by walking every column chunk
fn count_pages(bytes: &Bytes) -> Option<u64> {
    use parquet::file::reader::{FileReader, SerializedFileReader};
    guard(|| {
        let r = SerializedFileReader::new(bytes.clone()).ok()?;
        let mut n = 0u64;
        for i in 0..r.num_row_groups() {
            let rg = r.get_row_group(i).ok()?;
            for c in 0..rg.num_columns() {
                let mut pr = rg.get_column_page_reader(c).ok()?;
                loop {
                    match pr.peek_next_page() {
                        Ok(Some(_)) => {
                            n += 1;
                            pr.skip_next_page().ok()?;
                        }
                        Ok(None) => break,
                        Err(_) => return None,
                    }
                }
            }
        }
        Some(n)
    })
    .ok()
    .flatten()
}

fn witness(w: &Written, o: &Opts, sched: &str, trace: &str) -> String {
    let mut s = format!("options {o:?}\nschedule {sched}\ntrace {trace}\nfile: {} bytes, {} row groups {:?}\n{}\n", w.bytes.len(), w.metadata.num_row_groups(), w.metadata.row_groups().iter().map(|r| r.num_rows()).collect::<Vec<_>>(), w.desc);
    for (i, c) in w.logical.cols.iter().enumerate() {
        if s.len() > 3500 {
            break;
        }
        s.push_str(&format!("col{i} = {}\n", vcore::val::dump_vals(c)));
    }
    s
}

/// compare what a front-end returned with the sync reader's result (schema of every batch, rows in order)
fn compare(sync_schema: &Schema, exp: &[Vec<Val>], exp_rows: usize, got: &[RecordBatch]) -> Result<(), Fail> {
    for b in got {
        if let Err(d) = compare_schema(sync_schema, &b.schema(), false) {
            return Err(fail(
                format!("batch-schema|{}|{}", d.sig_path(), d.what),
                format!("a batch's schema differs from the sync reader's at {}: {} ({})\nsync  {}\nbatch {}", d.path, d.what, d.detail, pq::schema_string(sync_schema), pq::schema_string(&b.schema())),
            ));
        }
    }
    let got_rows: usize = got.iter().map(|b| b.num_rows()).sum();
    if got_rows != exp_rows {
        return Err(fail("rows|row-count", format!("sync reader: {exp_rows} rows, this front-end: {got_rows} rows (batches {:?})", got.iter().map(|b| b.num_rows()).collect::<Vec<_>>())));
    }
    if sync_schema.fields().is_empty() {
        return Ok(());
    }
    match compare_rows(sync_schema, exp, got) {
        Ok(Ok(())) => Ok(()),
        Ok(Err(d)) => Err(fail(format!("rows|{}|{}", d.path, d.kind), d.detail)),
        Err(p) => Err(fail(format!("model-panic|{}", strip_digits(&p.msg)), format!("extract panicked: {} @ {}", p.msg, p.loc))),
    }
}

/// the schema a front-end *declares* (`ParquetRecordBatchStream::schema()`, `ParquetRecordBatchReader::schema()`)
fn check_declared(sync_schema: &Schema, declared: &Schema) -> Result<(), Fail> {
    match compare_schema(sync_schema, declared, false) {
        Ok(()) => Ok(()),
        Err(d) => Err(fail(
            "declared-schema-differs-from-sync-reader",
            format!("the schema the front-end declares differs from the sync reader's (and from its own batches) at {}: {} ({})\nsync     {}\ndeclared {}", d.path, d.what, d.detail, pq::schema_string(sync_schema), pq::schema_string(declared)),
        )),
    }
}

fn report(ctx: &mut Ctx, front: &str, f: Fail, w: &Written, o: &Opts, sched: &str, trace: &str) {
    if f.sig.starts_with("model-panic") {
        ctx.inconclusive(&format!("{front}: {}", f.detail));
        return;
    }
    let tail = f.sig.strip_prefix(front).and_then(|t| t.strip_prefix('|')).unwrap_or(&f.sig);
    ctx.violation(&format!("C15|{front}|{tail}"), format!("{}\n{}", f.detail, witness(w, o, sched, trace)));
}

fn panic_report(ctx: &mut Ctx, front: &str, p: &PanicInfo, w: &Written, o: &Opts, sched: &str) {
    if p.msg.starts_with("model:") || p.loc.contains("/harness/v") {
        ctx.inconclusive(&format!("harness model panic in {front}: {} @ {}", p.msg, p.loc));
    } else {
        ctx.panic_violation(front, p, witness(w, o, sched, ""));
    }
}

fn one_file(ctx: &mut Ctx, rng: &mut Rng, cfg: &WriteCfg, agg: &mut Agg, brk: Break) {
    let w = match pq::write_file(rng, cfg) {
        Ok(w) => w,
        Err(f) => {
            // not this property's business (C05): count and move on
            ctx.reject();
            ctx.count(&format!("file_not_written@{}", f.stage), 1);
            return;
        }
    };
    // plain round trip first: files the sync reader does not return faithfully are C05 findings
    let rc = ReadCfg { batch_size: 1024, page_index: PageIndexPolicy::Skip };
    let ok = match read_file(&w.bytes, &rc) {
        ReadOutcome::Ok(schema, batches) => compare_schema(&w.schema, &schema, w.props.coerce_types).is_ok() && matches!(compare_rows(&w.expected_schema, &w.logical.cols, &batches), Ok(Ok(()))),
        _ => false,
    };
    if !ok {
        ctx.reject();
        ctx.count("file_skipped_plain_round_trip_fails", 1);
        return;
    }
    let pages = match count_pages(&w.bytes) {
        Some(p) => p,
        None => {
            ctx.inconclusive("page walk over the file failed");
            return;
        }
    };
    let md = &w.metadata;
    let nrg = md.num_row_groups() as u64;
    let rows = w.logical.rows;
    let caps = Caps { rounds: 10 * (pages + nrg + 10), productive: rows as u64 + 2 * nrg + 10 };
    ctx.count("files", 1);
    ctx.count("file_pages", pages);
    ctx.count("file_row_groups", nrg);
    if nrg > 1 {
        ctx.count("files_multi_row_group", 1);
    }
    let n_opts = 3;
    for k in 0..n_opts {
        let mut orng = rng.fork();
        // all generators of this option set are forked up front: what happens to one run never shifts another
        let mut srngs: Vec<Rng> = (0..4).map(|_| rng.fork()).collect();
        let o = if k == 0 { Opts::plain(if orng.bool() { PageIndexPolicy::Optional } else { PageIndexPolicy::Skip }) } else { gen_opts(&mut orng, md) };
        let mut o = o;
        if let Ok(m) = std::env::var("C15_MINIMISE") {
            // witness minimisation aid (replays only): strip parts of the option set
            for t in m.split(',') {
                match t {
                    "nolimit" => o.limit = None,
                    "nooffset" => o.offset = None,
                    "nosel" => o.selection = None,
                    "nopred" => o.preds.clear(),
                    "nocache" => o.cache = None,
                    "cache0" => o.cache = Some(0),
                    "noproj" => o.proj = Proj::All,
                    "nobatch" => o.batch_size = None,
                    "polsel" => o.policy = Some(RowSelectionPolicy::Selectors),
                    "polmask" => o.policy = Some(RowSelectionPolicy::Mask),
                    "selrle" => {
                        if let Some(s) = o.selection.as_mut() {
                            s.mask_backed = false
                        }
                    }
                    "predtrue" => o.preds.iter_mut().for_each(|p| p.kind = PredKind::True),
                    "nopi" => o.page_index = PageIndexPolicy::Skip,
                    _ => {}
                }
            }
            if k as u64 != std::env::var("C15_ONLY_OPT").ok().and_then(|v| v.parse().ok()).unwrap_or(k as u64) {
                continue;
            }
            eprintln!("minimised options: {o:?}");
            if let Ok(m) = ArrowReaderMetadata::load(&w.bytes, o.reader_options()) {
                let m = m.metadata().clone();
                for (ri, rg) in m.row_groups().iter().enumerate() {
                    for (ci, c) in rg.columns().iter().enumerate() {
                        let pl = m.page_index().and_then(|p| p.offset_index(ri, ci)).map(|oi| oi.page_locations().iter().map(|p| (p.offset, p.compressed_page_size, p.first_row_index)).collect::<Vec<_>>());
                        eprintln!("rg{ri} leaf{ci} chunk {:?} dict {:?} pages(offset,len,first_row) {:?}", c.byte_range(), c.dictionary_page_offset(), pl);
                    }
                }
            }
        }
        let o = o;
        // reference: the sync reader with the same options
        let (sync_schema, sync_batches) = match guard(|| run_sync(&w.bytes, &o)) {
            Ok(Ok(x)) => x,
            Ok(Err(f)) => {
                ctx.reject();
                let m: String = f.sig.chars().take(100).collect();
                ctx.count(&format!("sync_rejected: {m}"), 1);
                continue;
            }
            Err(p) => {
                ctx.reject();
                ctx.count(&format!("sync_panicked: {}", strip_digits(&p.msg).chars().take(80).collect::<String>()), 1);
                continue;
            }
        };
        let mut exp_rows: usize = sync_batches.iter().map(|b| b.num_rows()).sum();
        let exp = match guard(|| -> Vec<Vec<Val>> {
            (0..sync_schema.fields().len())
                .map(|c| sync_batches.iter().flat_map(|b| extract(b.column(c).as_ref())).collect())
                .collect()
        }) {
            Ok(e) => e,
            Err(p) => {
                ctx.inconclusive(&format!("extract of the sync result: {} @ {}", p.msg, p.loc));
                continue;
            }
        };
        let mut exp = exp;
        match brk {
            Break::Rows if exp_rows > 0 => {
                exp_rows -= 1;
                for c in exp.iter_mut() {
                    c.pop();
                }
            }
            Break::Swap if exp_rows > 1 => {
                for c in exp.iter_mut() {
                    let n = c.len();
                    c.swap(n - 1, n - 2);
                }
            }
            _ => {}
        }
        let md_for_policy: Option<Arc<ParquetMetaData>> = ArrowReaderMetadata::load(&w.bytes, o.reader_options()).ok().map(|m| m.metadata().clone());
        let has_offset_index = md_for_policy.as_ref().map(|m| m.page_index().map(|p| p.has_offset_indexes()).unwrap_or(false)).unwrap_or(false);
        ctx.count("option_sets", 1);
        if has_offset_index {
            ctx.count("option_sets_with_offset_index", 1);
        }
        let ocls = format!("opts|{}|{}", o.class(), if exp_rows == 0 { "rows0" } else if exp_rows == rows { "rowsAll" } else { "rowsSome" });
        for j in 0..4 {
            let mut srng = srngs[j].fork();
            let mut st = RunStats::default();
            let is_push = j % 2 == 0;
            let (front, sched_desc, cls, res) = if is_push {
                let s = PushSched::draw(&mut srng);
                let r = guard(|| run_push(&w.bytes, &o, &s, &mut srng, &caps, &mut st, brk));
                ("push", format!("{s:?}"), s.class(), r)
            } else {
                let s = AsyncSched::draw(&mut srng, w.bytes.len());
                let Some(mdc) = md_for_policy.clone() else {
                    ctx.inconclusive("metadata load for the cached-metadata reader failed");
                    continue;
                };
                let r = guard(|| run_async(&w.bytes, mdc, &o, &s, &mut srng, &caps, &mut st, brk));
                ("async", format!("{s:?}"), s.class(), r)
            };
            ctx.eval();
            ctx.count("triples", 1);
            ctx.count(if is_push { "triples_push" } else { "triples_async" }, 1);
            ctx.count("ranges_requested", st.requested);
            if is_push {
                ctx.count("push_ranges_supplied", st.supplied);
                ctx.count("push_needs_data_rounds", st.needs_rounds);
                ctx.count("push_decode_calls", st.decode_calls);
                ctx.count("push_rebuilds_via_into_builder", st.rebuilds);
            } else {
                ctx.count("async_polls", st.polls);
                ctx.count("async_pending_results", st.pendings);
                ctx.count("async_io_completion_wakes", st.io_fires);
                ctx.count("async_stale_wakes_ignored", st.stale_wakes_ignored);
                ctx.count("async_spurious_polls", st.spurious_polls);
                ctx.count("async_data_fetch_calls", st.fetch_calls);
            }
            let sig = mix(hash_str(&cls), hash_str(&st.trace));
            if is_push {
                agg.push_schedules.insert(sig);
                agg.push_classes.insert(cls.clone());
            } else {
                agg.async_schedules.insert(sig);
                agg.async_classes.insert(cls.clone());
            }
            match res {
                Err(p) => {
                    if p.is_rejection() {
                        ctx.reject();
                    } else {
                        panic_report(ctx, front, &p, &w, &o, &sched_desc);
                    }
                }
                Ok(Err(f)) => {
                    if f.sig.starts_with("err|") && is_rejection_msg(&f.detail) {
                        ctx.reject();
                        ctx.count("front_end_rejected_where_sync_accepted", 1);
                    } else {
                        report(ctx, front, f, &w, &o, &sched_desc, &st.trace);
                    }
                }
                Ok(Ok((schema, batches))) => {
                    // declared schema: the stream's `schema()`; for the push decoder the readers' `schema()` (none when no reader was handed out)
                    let declared_ok = if !is_push || !batches.is_empty() {
                        match check_declared(&sync_schema, &schema) {
                            Ok(()) => true,
                            Err(f) => {
                                report(ctx, front, f, &w, &o, &sched_desc, &st.trace);
                                false
                            }
                        }
                    } else {
                        true
                    };
                    match compare(&sync_schema, &exp, exp_rows, &batches) {
                        Ok(()) => {
                            if rows > 0 && declared_ok {
                                ctx.class(format!("sched|{cls}"));
                                ctx.class(ocls.clone());
                            }
                            ctx.count("rows_compared", exp_rows as u64);
                        }
                        Err(f) => report(ctx, front, f, &w, &o, &sched_desc, &st.trace),
                    }
                }
            }
            ctx.sample(|| format!("{front} {sched_desc}\ntrace {}\noptions {o:?}\n{}", st.trace, w.desc));
        }
    }
}

pub fn run(ctx: &mut Ctx) {
    if ctx.only_section.as_deref() == Some("repro") {
        repros();
        return;
    }
    let brk = break_mode();
    let mut agg = Agg::default();
    let nested = ctx.tier.pick(16, 16 * 150, 16 * 2400);
    let flat = ctx.tier.pick(8, 16 * 40, 16 * 600);
    let mut nested_cfg = WriteCfg::standard();
    nested_cfg.props.lzo = false;
    nested_cfg.gen_cfg.keep_unsupported = (0, 1);
    let mut flat_cfg = nested_cfg.clone();
    flat_cfg.gen_cfg = GenCfg::flat_long();
    let plan: Vec<(&str, u64, WriteCfg)> = vec![("nested", nested, nested_cfg), ("flat", flat, flat_cfg)];
    let lists: Vec<Vec<u64>> = plan.iter().map(|(s, n, _)| ctx.cases(s, *n)).collect();
    let mut idx = vec![0usize; plan.len()];
    let per_round = [4usize, 1];
    'outer: loop {
        let mut progressed = false;
        for (k, (section, _, cfg)) in plan.iter().enumerate() {
            for _ in 0..per_round[k] {
                if idx[k] >= lists[k].len() {
                    break;
                }
                if ctx.out_of_time() {
                    break 'outer;
                }
                let i = lists[k][idx[k]];
                idx[k] += 1;
                progressed = true;
                let mut rng = ctx.begin(section, i);
                let t0 = std::time::Instant::now();
                one_file(ctx, &mut rng, cfg, &mut agg, brk);
                if t0.elapsed().as_secs_f64() > 5.0 {
                    ctx.count("cases_slower_than_5s", 1);
                }
            }
        }
        if !progressed {
            break;
        }
    }
    ctx.count("distinct_push_schedules_observed", agg.push_schedules.len() as u64);
    ctx.count("distinct_async_schedules_observed", agg.async_schedules.len() as u64);
    ctx.count("distinct_push_schedule_classes", agg.push_classes.len() as u64);
    ctx.count("distinct_async_schedule_classes", agg.async_classes.len() as u64);
}

// ------------------------------------------------------------------------------------------
// hand-written minimal reproducers of the findings on the unchanged tree
// (`vrun C15 --section repro --case 0`; prints to stderr, asserts nothing)
// ------------------------------------------------------------------------------------------

struct ReadyReader(Bytes);

impl AsyncFileReader for ReadyReader {
    fn get_bytes(&mut self, range: Range<u64>) -> BoxFuture<'_, PqResult<Bytes>> {
        futures::future::ready(Ok(self.0.slice(range.start as usize..range.end as usize))).boxed()
    }
    fn get_metadata<'a>(&'a mut self, options: Option<&'a ArrowReaderOptions>) -> BoxFuture<'a, PqResult<Arc<ParquetMetaData>>> {
        let len = self.0.len() as u64;
        async move { Ok(Arc::new(ParquetMetaDataReader::new().with_arrow_reader_options(options).load_and_finish(self, len).await?)) }.boxed()
    }
}

impl MetadataSuffixFetch for &mut ReadyReader {
    fn fetch_suffix(&mut self, suffix: usize) -> BoxFuture<'_, PqResult<Bytes>> {
        let n = suffix.min(self.0.len());
        futures::future::ready(Ok(self.0.slice(self.0.len() - n..))).boxed()
    }
}

fn repros() {
    use arrow_array::{ArrayRef, Int32Array, ListViewArray, StructArray};
    use arrow_buffer::ScalarBuffer;
    use arrow_schema::{DataType, Field, Fields};
    use parquet::arrow::ArrowWriter;
    use parquet::file::properties::WriterProperties;
    let write = |batch: &RecordBatch, props: WriterProperties| -> Bytes {
        let mut buf = Vec::new();
        let mut w = ArrowWriter::try_new(&mut buf, batch.schema(), Some(props)).unwrap();
        w.write(batch).unwrap();
        w.close().unwrap();
        Bytes::from(buf)
    };
    let ints: ArrayRef = Arc::new(Int32Array::from((0..100).collect::<Vec<i32>>()));
    let flat = RecordBatch::try_from_iter([("a", ints.clone())]).unwrap();

    // R1: metadata via suffix fetch with a prefetch hint that covers the footer metadata but not the page index
    {
        let file = write(&flat, WriterProperties::builder().build());
        let len = file.len();
        for hint in [None, Some(len), Some(len - 20)] {
            let mut r = ReadyReader(file.clone());
            let res = futures::executor::block_on(ParquetMetaDataReader::new().with_page_index_policy(PageIndexPolicy::Optional).with_prefetch_hint(hint).load_via_suffix_and_finish(&mut r));
            eprintln!("R1 suffix fetch, file {len} bytes, prefetch hint {hint:?}: {}", match res {
                Ok(m) => format!("ok, offset index loaded: {}", m.page_index().map(|p| p.has_offset_indexes()).unwrap_or(false)),
                Err(e) => format!("Err({e})"),
            });
        }
    }
    // R2: ParquetRecordBatchStream::schema() with a projection over a schema containing a multi-leaf list-view column
    {
        let st = StructArray::from(vec![(Arc::new(Field::new("x", DataType::Int32, false)), ints.clone()), (Arc::new(Field::new("y", DataType::Int32, false)), ints.clone())]);
        let item = Arc::new(Field::new("item", DataType::Struct(Fields::from(vec![Field::new("x", DataType::Int32, false), Field::new("y", DataType::Int32, false)])), false));
        let lv = ListViewArray::try_new(item, ScalarBuffer::from((0..100).collect::<Vec<i32>>()), ScalarBuffer::from(vec![1i32; 100]), Arc::new(st), None).unwrap();
        let batch = RecordBatch::try_from_iter([("lv", Arc::new(lv) as ArrayRef), ("b", ints.clone())]).unwrap();
        let file = write(&batch, WriterProperties::builder().build());
        let sync = ParquetRecordBatchReaderBuilder::try_new(file.clone()).unwrap();
        let mask = ProjectionMask::leaves(sync.parquet_schema(), [2]);
        let sync = sync.with_projection(mask.clone()).build().unwrap();
        let b = futures::executor::block_on(ParquetRecordBatchStreamBuilder::new(ReadyReader(file.clone()))).unwrap();
        let mut stream = b.with_projection(mask).build().unwrap();
        let declared = stream.schema().clone();
        let first = futures::executor::block_on(stream.next()).unwrap().unwrap();
        eprintln!("R2 projection leaves [2] of {{lv: ListView<Struct<x,y>>, b: Int32}}:\n   sync reader schema   {}\n   stream.schema()      {}\n   stream batch schema  {}", pq::schema_string(&sync.schema()), pq::schema_string(&declared), pq::schema_string(&first.schema()));
    }
    // R3: file without offset index, page index policy Optional, any row selection (here: a limit)
    {
        let file = write(&flat, WriterProperties::builder().set_offset_index_disabled(true).build());
        let opts = ArrowReaderOptions::new().with_page_index_policy(PageIndexPolicy::Optional);
        let sync_rows: usize = ParquetRecordBatchReaderBuilder::try_new_with_options(file.clone(), opts.clone()).unwrap().with_limit(10).build().unwrap().map(|b| b.unwrap().num_rows()).sum();
        let md = ArrowReaderMetadata::load(&file, opts.clone()).unwrap();
        eprintln!("R3 page index present: {}, offset index entries of row group 0: {:?}", md.metadata().page_index().is_some(), md.metadata().page_index().and_then(|p| p.offset_indexes_for_rowgroup(0)).map(|s| s.iter().map(|o| o.is_some()).collect::<Vec<_>>()));
        let mut dec = ParquetPushDecoderBuilder::new_with_metadata(md).with_limit(10).build().unwrap();
        let mut got = 0usize;
        let res = loop {
            match dec.try_decode() {
                Ok(DecodeResult::NeedsData(r)) => {
                    let d = r.iter().map(|r| file.slice(r.start as usize..r.end as usize)).collect();
                    dec.push_ranges(r, d).unwrap();
                }
                Ok(DecodeResult::Data(b)) => got += b.num_rows(),
                Ok(DecodeResult::Finished) => break format!("ok, {got} rows"),
                Err(e) => break format!("Err({e})"),
            }
        };
        eprintln!("R3 with_limit(10): sync reader {sync_rows} rows; push decoder (exact supply): {res}");
    }
    // R4: a file with zero-row data pages (content-defined chunking writes them), offset index loaded, a row selection:
    // search a small family of selections for one where the push decoder fails
    {
        use parquet::file::properties::CdcOptions;
        let mut x = 12345u32;
        let mut next = move || {
            x = x.wrapping_mul(1664525).wrapping_add(1013904223);
            x >> 8
        };
        let vals: Vec<i32> = (0..145).map(|_| next() as i32).collect();
        let col: ArrayRef = Arc::new(Int32Array::from(vals));
        let batch = RecordBatch::try_from_iter([("a", col)]).unwrap();
        'files: for (page_rows, write_batch) in [(3usize, 8usize)] {
            let props = WriterProperties::builder()
                .set_content_defined_chunking(Some(CdcOptions { min_chunk_size: 7, max_chunk_size: 267, norm_level: 0 }))
                .set_data_page_row_count_limit(page_rows)
                .set_write_batch_size(write_batch)
                .set_dictionary_enabled(false)
                .build();
            let file = write(&batch, props);
            let opts = ArrowReaderOptions::new().with_page_index_policy(PageIndexPolicy::Optional);
            let md = ArrowReaderMetadata::load(&file, opts.clone()).unwrap();
            let firsts: Vec<i64> = md.metadata().page_index().and_then(|p| p.offset_index(0, 0)).map(|oi| oi.page_locations().iter().map(|p| p.first_row_index).collect()).unwrap_or_default();
            let empty_pages: Vec<i64> = firsts.windows(2).filter(|w| w[0] == w[1]).map(|w| w[0]).collect();
            eprintln!("R4 page_rows={page_rows} write_batch={write_batch}: first_row_index of the pages {firsts:?}\n   zero-row pages start at rows {empty_pages:?}");
            let norm = |shape: &[(bool, usize)]| -> Vec<(bool, usize)> {
                let mut out: Vec<(bool, usize)> = Vec::new();
                for (k, n) in shape {
                    match out.last_mut() {
                        Some(l) if l.0 == *k => l.1 += n,
                        _ => out.push((*k, *n)),
                    }
                }
                out
            };
            let run = |shape: &[(bool, usize)], policy: RowSelectionPolicy| -> (usize, Result<usize, String>) {
                let sel = || RowSelection::from(shape.iter().map(|(skip, n)| if *skip { RowSelector::skip(*n) } else { RowSelector::select(*n) }).collect::<Vec<_>>());
                let sync_rows: usize = ParquetRecordBatchReaderBuilder::try_new_with_options(file.clone(), opts.clone()).unwrap().with_row_selection(sel()).build().unwrap().map(|b| b.unwrap().num_rows()).sum();
                let mut dec = ParquetPushDecoderBuilder::new_with_metadata(md.clone()).with_row_selection(sel()).with_row_selection_policy(policy).build().unwrap();
                let mut got = 0usize;
                let res = loop {
                    match dec.try_decode() {
                        Ok(DecodeResult::NeedsData(r)) => {
                            let d = r.iter().map(|r| file.slice(r.start as usize..r.end as usize)).collect();
                            dec.push_ranges(r, d).unwrap();
                        }
                        Ok(DecodeResult::Data(b)) => got += b.num_rows(),
                        Ok(DecodeResult::Finished) => break Ok(got),
                        Err(e) => break Err(e.to_string()),
                    }
                };
                (sync_rows, res)
            };
            for _ in 0..400 {
                let mut shape: Vec<(bool, usize)> = Vec::new();
                let mut left = 145usize;
                let mut skip = next() % 2 == 0;
                while left > 0 {
                    let n = (1 + next() as usize % 4).min(left);
                    shape.push((skip, n));
                    left -= n;
                    skip = !skip;
                }
                for policy in [RowSelectionPolicy::Mask, RowSelectionPolicy::Selectors] {
                    let (sync_rows, res) = run(&shape, policy);
                    if res != Ok(sync_rows) {
                        // greedy simplification: flip single runs (which merges them into their neighbours) while it still fails
                        let mut shape = shape.clone();
                        loop {
                            let mut improved = false;
                            for i in 0..shape.len() {
                                let mut c = shape.clone();
                                c[i].0 = !c[i].0;
                                let c = norm(&c);
                                let (s, r) = run(&c, policy);
                                if r != Ok(s) && c.len() < shape.len() {
                                    shape = c;
                                    improved = true;
                                    break;
                                }
                            }
                            if !improved {
                                break;
                            }
                        }
                        let (s, r) = run(&shape, policy);
                        eprintln!("R4 selection (skip?, rows) {shape:?}, {policy:?}: sync reader {s} rows; push decoder (exact supply): {r:?}");
                        eprintln!("R4   same selection, the other policy: {:?}", run(&shape, if policy == RowSelectionPolicy::Mask { RowSelectionPolicy::Selectors } else { RowSelectionPolicy::Mask }).1);
                        continue 'files;
                    }
                }
            }
            eprintln!("R4 no failing selection among 400");
        }
    }
}
