//! C17 / JSON: writer -> reader round trip; serde_json differential in both directions.
//!
//! not asserted:
//!   * non-finite floats (written as `null`): generated columns hold finite floats only
//!   * map entries with null values when nulls are implicit (the entry would be dropped):
//!     `explicit_nulls` is forced for such data
//!   * spelling of temporal values and of numbers (only decoded values are compared); hex case
//!   * duplicate keys inside one JSON object other than for Map columns (struct field names
//!     are generated distinct); for maps serde_json keeps the last duplicate, the own parser all
//!   * json-doc: coercions (number -> string, fractional number -> integer column, number
//!     literals outside the finite range of the column type), duplicate keys, lone surrogates,
//!     arrow-specific encodings (hex binary, decimal, temporal strings)

use super::*;
use arrow_json::writer::{JsonArray, LineDelimited};
use arrow_json::{ReaderBuilder, StructMode, WriterBuilder};
use num_bigint::BigInt;
use std::io::Cursor;
use vcore::mon::{Outcome, is_rejection_msg, run_op};
use vcore::validate::check_batch;

// ------------------------------------------------------------------ own RFC 8259 parser

/// JSON value with number literals kept as text and object members kept in order
/// (duplicates included).
#[derive(Clone, Debug, PartialEq)]
pub enum J {
    Null,
    Bool(bool),
    Num(String),
    Str(String),
    Arr(Vec<J>),
    Obj(Vec<(String, J)>),
}

struct P<'a> {
    b: &'a [u8],
    i: usize,
    depth: u32,
}

impl<'a> P<'a> {
    fn ws(&mut self) {
        while self.i < self.b.len() && matches!(self.b[self.i], b' ' | b'\t' | b'\n' | b'\r') {
            self.i += 1;
        }
    }
    fn err<T>(&self, m: &str) -> Result<T, String> {
        Err(format!("{m} at byte {}", self.i))
    }
    fn value(&mut self) -> Result<J, String> {
        self.ws();
        if self.i >= self.b.len() {
            return self.err("unexpected end");
        }
        self.depth += 1;
        if self.depth > 200 {
            return self.err("too deep");
        }
        let r = match self.b[self.i] {
            b'n' => self.lit(b"null", J::Null),
            b't' => self.lit(b"true", J::Bool(true)),
            b'f' => self.lit(b"false", J::Bool(false)),
            b'"' => self.string().map(J::Str),
            b'[' => {
                self.i += 1;
                let mut xs = Vec::new();
                self.ws();
                if self.i < self.b.len() && self.b[self.i] == b']' {
                    self.i += 1;
                } else {
                    loop {
                        xs.push(self.value()?);
                        self.ws();
                        match self.b.get(self.i) {
                            Some(b',') => self.i += 1,
                            Some(b']') => {
                                self.i += 1;
                                break;
                            }
                            _ => return self.err("expected , or ]"),
                        }
                    }
                }
                Ok(J::Arr(xs))
            }
            b'{' => {
                self.i += 1;
                let mut xs = Vec::new();
                self.ws();
                if self.i < self.b.len() && self.b[self.i] == b'}' {
                    self.i += 1;
                } else {
                    loop {
                        self.ws();
                        if self.b.get(self.i) != Some(&b'"') {
                            return self.err("expected member name");
                        }
                        let k = self.string()?;
                        self.ws();
                        if self.b.get(self.i) != Some(&b':') {
                            return self.err("expected :");
                        }
                        self.i += 1;
                        let v = self.value()?;
                        xs.push((k, v));
                        self.ws();
                        match self.b.get(self.i) {
                            Some(b',') => self.i += 1,
                            Some(b'}') => {
                                self.i += 1;
                                break;
                            }
                            _ => return self.err("expected , or }"),
                        }
                    }
                }
                Ok(J::Obj(xs))
            }
            b'-' | b'0'..=b'9' => self.number(),
            _ => self.err("unexpected byte"),
        };
        self.depth -= 1;
        r
    }
    fn lit(&mut self, w: &[u8], v: J) -> Result<J, String> {
        if self.b[self.i..].starts_with(w) {
            self.i += w.len();
            Ok(v)
        } else {
            self.err("bad literal")
        }
    }
    fn number(&mut self) -> Result<J, String> {
        let s = self.i;
        let b = self.b;
        let mut i = self.i;
        if b.get(i) == Some(&b'-') {
            i += 1;
        }
        match b.get(i) {
            Some(b'0') => i += 1,
            Some(b'1'..=b'9') => {
                while matches!(b.get(i), Some(b'0'..=b'9')) {
                    i += 1;
                }
            }
            _ => {
                self.i = i;
                return self.err("bad number");
            }
        }
        if b.get(i) == Some(&b'.') {
            i += 1;
            if !matches!(b.get(i), Some(b'0'..=b'9')) {
                self.i = i;
                return self.err("bad fraction");
            }
            while matches!(b.get(i), Some(b'0'..=b'9')) {
                i += 1;
            }
        }
        if matches!(b.get(i), Some(b'e' | b'E')) {
            i += 1;
            if matches!(b.get(i), Some(b'+' | b'-')) {
                i += 1;
            }
            if !matches!(b.get(i), Some(b'0'..=b'9')) {
                self.i = i;
                return self.err("bad exponent");
            }
            while matches!(b.get(i), Some(b'0'..=b'9')) {
                i += 1;
            }
        }
        self.i = i;
        Ok(J::Num(String::from_utf8_lossy(&b[s..i]).into_owned()))
    }
    fn hex4(&mut self) -> Result<u32, String> {
        if self.i + 4 > self.b.len() {
            return self.err("short \\u");
        }
        let mut v = 0u32;
        for k in 0..4 {
            let c = self.b[self.i + k];
            let d = match c {
                b'0'..=b'9' => c - b'0',
                b'a'..=b'f' => c - b'a' + 10,
                b'A'..=b'F' => c - b'A' + 10,
                _ => return self.err("bad hex"),
            };
            v = v * 16 + d as u32;
        }
        self.i += 4;
        Ok(v)
    }
    fn string(&mut self) -> Result<String, String> {
        self.i += 1; // opening quote
        let mut out: Vec<u8> = Vec::new();
        loop {
            let Some(&c) = self.b.get(self.i) else { return self.err("unterminated string") };
            match c {
                b'"' => {
                    self.i += 1;
                    break;
                }
                b'\\' => {
                    self.i += 1;
                    let Some(&e) = self.b.get(self.i) else { return self.err("unterminated escape") };
                    self.i += 1;
                    match e {
                        b'"' => out.push(b'"'),
                        b'\\' => out.push(b'\\'),
                        b'/' => out.push(b'/'),
                        b'b' => out.push(8),
                        b'f' => out.push(12),
                        b'n' => out.push(b'\n'),
                        b'r' => out.push(b'\r'),
                        b't' => out.push(b'\t'),
                        b'u' => {
                            let hi = self.hex4()?;
                            let cp = if (0xD800..0xDC00).contains(&hi) {
                                if self.b.get(self.i) == Some(&b'\\') && self.b.get(self.i + 1) == Some(&b'u') {
                                    self.i += 2;
                                    let lo = self.hex4()?;
                                    if !(0xDC00..0xE000).contains(&lo) {
                                        return self.err("bad low surrogate");
                                    }
                                    0x10000 + ((hi - 0xD800) << 10) + (lo - 0xDC00)
                                } else {
                                    return self.err("lone surrogate");
                                }
                            } else if (0xDC00..0xE000).contains(&hi) {
                                return self.err("lone low surrogate");
                            } else {
                                hi
                            };
                            let ch = char::from_u32(cp).ok_or_else(|| "bad code point".to_string())?;
                            let mut buf = [0u8; 4];
                            out.extend_from_slice(ch.encode_utf8(&mut buf).as_bytes());
                        }
                        _ => return self.err("bad escape"),
                    }
                }
                0..=0x1f => return self.err("raw control character in string"),
                _ => {
                    out.push(c);
                    self.i += 1;
                }
            }
        }
        String::from_utf8(out).map_err(|_| format!("invalid utf-8 in string before byte {}", self.i))
    }
}

/// Parse a whitespace-separated sequence of RFC 8259 texts.
pub fn parse_stream(bytes: &[u8]) -> Result<Vec<J>, String> {
    let mut p = P { b: bytes, i: 0, depth: 0 };
    let mut out = Vec::new();
    loop {
        p.ws();
        if p.i >= bytes.len() {
            break;
        }
        p.depth = 0;
        out.push(p.value()?);
    }
    Ok(out)
}

fn ulp_close(a: f64, b: f64) -> bool {
    if a == b {
        return true;
    }
    let (x, y) = (a.to_bits() as i64, b.to_bits() as i64);
    (a.is_sign_negative() == b.is_sign_negative()) && (x - y).abs() <= 8
}

/// Does serde_json's view of a text agree with the own parser's? (numbers within a few ulps:
/// serde_json is built without `float_roundtrip`; duplicate keys: serde keeps the last)
pub fn agrees(j: &J, v: &serde_json::Value) -> bool {
    use serde_json::Value as V;
    match (j, v) {
        (J::Null, V::Null) => true,
        (J::Bool(a), V::Bool(b)) => a == b,
        (J::Str(a), V::String(b)) => a == b,
        (J::Num(l), V::Number(n)) => {
            if let Ok(i) = l.parse::<i64>() {
                if n.as_i64() == Some(i) {
                    return true;
                }
            }
            if let Ok(u) = l.parse::<u64>() {
                if n.as_u64() == Some(u) {
                    return true;
                }
            }
            match (l.parse::<f64>(), n.as_f64()) {
                (Ok(a), Some(b)) => ulp_close(a, b),
                _ => false,
            }
        }
        (J::Arr(a), V::Array(b)) => a.len() == b.len() && a.iter().zip(b).all(|(x, y)| agrees(x, y)),
        (J::Obj(a), V::Object(b)) => {
            let mut last: std::collections::BTreeMap<&str, &J> = Default::default();
            for (k, x) in a {
                last.insert(k.as_str(), x);
            }
            last.len() == b.len() && last.iter().all(|(k, x)| b.get(*k).map(|y| agrees(x, y)).unwrap_or(false))
        }
        _ => false,
    }
}

// ------------------------------------------------------------------ json-rt: generation

#[derive(Clone, Debug)]
pub struct JsonOpts {
    pub explicit_nulls: bool,
    pub list_mode: bool,
    pub array: bool,
    pub batch_size: usize,
    pub strict: bool,
}

impl JsonOpts {
    pub fn struct_mode(&self) -> StructMode {
        if self.list_mode { StructMode::ListOnly } else { StructMode::ObjectOnly }
    }
    pub fn class(&self) -> String {
        format!(
            "{}{}{}",
            if self.explicit_nulls { "E" } else { "i" },
            if self.list_mode { "L" } else { "O" },
            if self.array { "arr" } else { "nd" }
        )
    }
}

pub struct JsonCase {
    pub case: Case,
    pub opts: JsonOpts,
}

pub fn json_profile(rng: &mut Rng) -> Profile {
    use DataType::*;
    let cfg = value_cfg();
    let mut prims = vec![
        Boolean, Int8, Int16, Int32, Int32, Int64, Int64, UInt8, UInt16, UInt32, UInt64, Float16, Float32,
        Float64, Float64, Utf8, Utf8, Utf8, LargeUtf8, Utf8View, Binary, LargeBinary, BinaryView, Date32,
        Date64, Null,
    ];
    prims.push(FixedSizeBinary(*rng.pick(&[0, 1, 2, 3, 16])));
    prims.push(Time32(*rng.pick(&[TimeUnit::Second, TimeUnit::Millisecond])));
    prims.push(Time64(*rng.pick(&[TimeUnit::Microsecond, TimeUnit::Nanosecond])));
    for _ in 0..3 {
        let tz: Option<Arc<str>> = match rng.below(6) {
            0..=2 => None,
            3 => Some("+00:00".into()),
            4 => Some("+05:30".into()),
            _ => Some("-08:00".into()),
        };
        prims.push(Timestamp(*rng.pick(&gens::TIME_UNITS), tz));
    }
    for _ in 0..3 {
        let mut c = cfg.clone();
        c.neg_scale = rng.chance(1, 3);
        prims.push(gens::gen_decimal_type(rng, &c));
    }
    if rng.chance(1, 6) {
        prims.push(Duration(*rng.pick(&gens::TIME_UNITS)));
    }
    if rng.chance(1, 8) {
        prims.push(Interval(*rng.pick(&interval_units())));
    }
    Profile {
        prims,
        enc_vals: vec![
            Utf8, Utf8, Int32, Int64, Float64, Boolean, Utf8View, LargeUtf8, Binary, Date32, Decimal128(10, 2),
            Timestamp(TimeUnit::Millisecond, None), UInt8,
        ],
        dict_keys: vec![Int8, Int16, Int32, Int64, UInt8, UInt16, UInt32, UInt64],
        map_keys: if rng.chance(1, 15) { vec![Utf8, Int32] } else { vec![Utf8, Utf8, LargeUtf8, Utf8View] },
        list: true,
        large: true,
        list_view: true,
        fsl: true,
        strukt: true,
        map: true,
        dict: true,
        ree: true,
        union: rng.chance(1, 15),
        non_nullable: true,
        max_depth: 3,
    }
}

fn has_null_map_value(dt: &DataType, v: &Val) -> bool {
    use DataType::*;
    match (dt, v) {
        (_, Val::Null) => false,
        (Map(e, _), Val::List(xs)) => {
            let Struct(kv) = e.data_type() else { return false };
            xs.iter().any(|x| match x {
                Val::Struct(p) => p[1].is_null() || has_null_map_value(kv[1].data_type(), &p[1]),
                _ => false,
            })
        }
        (List(f) | LargeList(f) | ListView(f) | LargeListView(f) | FixedSizeList(f, _), Val::List(xs)) => {
            xs.iter().any(|x| has_null_map_value(f.data_type(), x))
        }
        (Struct(fs), Val::Struct(xs)) => fs.iter().zip(xs).any(|(f, x)| has_null_map_value(f.data_type(), x)),
        (Dictionary(_, vt), x) => has_null_map_value(vt, x),
        (RunEndEncoded(_, vf), x) => has_null_map_value(vf.data_type(), x),
        _ => false,
    }
}

/// Generate schema, data and writer/reader options.
pub fn gen_case(rng: &mut Rng) -> JsonCase {
    let p = json_profile(rng);
    let ncols = 1 + rng.below(4);
    let plain = rng.chance(2, 3);
    let names = gen_names(rng, ncols, plain);
    let wild = rng.chance(1, 12);
    let far = !wild && rng.chance(1, 8);
    let n = rng.len_biased(24);
    let cfg = value_cfg();
    let mut fields = Vec::new();
    let mut cols: Vec<Vec<Val>> = Vec::new();
    for nm in &names {
        let depth = *rng.pick(&[0u32, 0, 1, 1, 2, 3]);
        let dt = gen_ty(rng, &p, depth.min(p.max_depth), false);
        let must_null = matches!(
            dt,
            DataType::Null | DataType::Dictionary(_, _) | DataType::RunEndEncoded(_, _) | DataType::Union(_, _)
        );
        let nullable = must_null || !rng.chance(1, 5);
        let mut col = gens::gen_column(rng, &dt, n, nullable, &cfg);
        let mut r2 = rng.fork();
        // negative-scale decimals: half of the cases avoid zero and keep the digits within the
        // precision, so that the text is valid and parseable and the values are compared
        let nz = r2.bool();
        walk_col(&dt, &mut col, &mut |l, v| {
            if nz {
                if let (DataType::Decimal32(p, s) | DataType::Decimal64(p, s) | DataType::Decimal128(p, s), Val::Int(x)) = (l, &*v) {
                    if *s < 0 {
                        let room = (*p as i32 + *s as i32).max(1) as u32;
                        let m = gens::pow10_i128(room.min(30));
                        let y = x % m;
                        *v = Val::Int(if y == 0 { 1 } else { y });
                    }
                }
            }
            tame_finite(&mut r2, l, v);
            if !wild {
                tame_temporal(&mut r2, l, v);
                if far {
                    far_future(l, v);
                }
            }
        });
        fields.push(Field::new(nm, dt, nullable));
        cols.push(col);
    }
    let schema: SchemaRef = Arc::new(Schema::new(fields));
    let batches = make_batches(rng, &schema, &cols);
    let mut explicit = rng.bool();
    let null_map_values = schema
        .fields()
        .iter()
        .zip(&cols)
        .any(|(f, c)| c.iter().any(|v| has_null_map_value(f.data_type(), v)));
    if null_map_values {
        explicit = true;
    }
    let opts = JsonOpts {
        explicit_nulls: explicit,
        list_mode: rng.chance(1, 3),
        array: rng.chance(2, 5),
        batch_size: *rng.pick(&[1usize, 2, 3, 8, 1024]),
        strict: rng.bool(),
    };
    JsonCase { case: Case { schema, cols, batches }, opts }
}

/// Serialize all batches of the case with its options.
pub fn write_json(c: &JsonCase) -> Result<Vec<u8>, String> {
    let wb = WriterBuilder::new()
        .with_explicit_nulls(c.opts.explicit_nulls)
        .with_struct_mode(c.opts.struct_mode());
    let mut out = Vec::new();
    if c.opts.array {
        let mut w = wb.build::<_, JsonArray>(&mut out);
        for b in &c.case.batches {
            w.write(b).map_err(|e| e.to_string())?;
        }
        w.finish().map_err(|e| e.to_string())?;
    } else {
        let mut w = wb.build::<_, LineDelimited>(&mut out);
        for b in &c.case.batches {
            w.write(b).map_err(|e| e.to_string())?;
        }
        w.finish().map_err(|e| e.to_string())?;
    }
    Ok(out)
}

/// The reader configuration matching the case's writer options.
pub fn reader_builder(c: &JsonCase) -> ReaderBuilder {
    ReaderBuilder::new(c.case.schema.clone())
        .with_struct_mode(c.opts.struct_mode())
        .with_flatten(c.opts.array)
        .with_batch_size(c.opts.batch_size)
        .with_strict_mode(c.opts.strict)
}

/// Expected logical columns after a round trip (identity for JSON).
pub fn expected(c: &JsonCase) -> Vec<Vec<Val>> {
    c.case.cols.clone()
}

/// Read everything back, stopping at the first error (the reader's iterator keeps
/// returning the same error forever).
pub fn read_all(rb: ReaderBuilder, bytes: Vec<u8>) -> Result<Vec<RecordBatch>, String> {
    let r = rb.build(Cursor::new(bytes)).map_err(|e| e.to_string())?;
    let mut out = Vec::new();
    for b in r {
        out.push(b.map_err(|e| e.to_string())?);
    }
    Ok(out)
}

// ------------------------------------------------------------------ json-rt: text vs values

fn pow10(n: u32) -> BigInt {
    let mut r = BigInt::from(1);
    for _ in 0..n {
        r *= 10;
    }
    r
}

/// exact decimal value of a JSON number literal as (unscaled, scale>=0 or <0)
fn literal_decimal(l: &str) -> Option<(BigInt, i64)> {
    let (mant, exp) = match l.find(['e', 'E']) {
        Some(p) => (&l[..p], l[p + 1..].parse::<i64>().ok()?),
        None => (l, 0),
    };
    let (neg, mant) = match mant.strip_prefix('-') {
        Some(m) => (true, m),
        None => (false, mant),
    };
    let (ip, fp) = match mant.split_once('.') {
        Some((a, b)) => (a, b),
        None => (mant, ""),
    };
    let digits = format!("{ip}{fp}");
    let mut v: BigInt = digits.parse().ok()?;
    if neg {
        v = -v;
    }
    Some((v, fp.len() as i64 - exp))
}

fn decimal_equal(l: &str, unscaled: &BigInt, scale: i64) -> bool {
    let Some((lv, ls)) = literal_decimal(l) else { return false };
    // lv * 10^-ls == unscaled * 10^-scale
    let m = ls.max(scale);
    if m - ls > 400 || m - scale > 400 {
        return false;
    }
    lv * pow10((m - ls) as u32) == unscaled.clone() * pow10((m - scale) as u32)
}

fn i256_to_big(v: arrow_buffer::i256) -> BigInt {
    v.to_string().parse().expect("model: i256 digits")
}

fn is_int_literal(l: &str) -> bool {
    let d = l.strip_prefix('-').unwrap_or(l);
    !d.is_empty() && d.bytes().all(|b| b.is_ascii_digit())
}

/// Coarse type name for signatures: containers by kind, encodings by kind, leaves by class.
pub fn sig_class(dt: &DataType) -> String {
    use DataType::*;
    match dt {
        Dictionary(_, _) => "Dict".into(),
        RunEndEncoded(_, _) => "REE".into(),
        List(_) | LargeList(_) | ListView(_) | LargeListView(_) | FixedSizeList(_, _) => "List".into(),
        Struct(_) => "Struct".into(),
        Map(_, _) => "Map".into(),
        Union(_, _) => "Union".into(),
        other => family(other),
    }
}

/// Some dictionary array in the batches carries nulls in its *values* (a valid key pointing
/// at a null dictionary entry): the layout behind one family of findings.
pub fn has_dict_value_nulls(batches: &[RecordBatch]) -> bool {
    fn walk(d: &arrow_data::ArrayData) -> bool {
        if let DataType::Dictionary(_, _) = d.data_type() {
            if d.child_data().first().map(|c| c.null_count() > 0).unwrap_or(false) {
                return true;
            }
        }
        d.child_data().iter().any(walk)
    }
    batches.iter().any(|b| b.columns().iter().any(|c| walk(&c.to_data())))
}

/// Which part of the data makes the written text invalid JSON: write the column alone, then
/// its children alone, ... and name the family of the innermost array that is still invalid
/// on its own.
pub fn isolate_invalid(arr: &ArrayRef, o: &JsonOpts) -> Option<String> {
    use arrow_array::cast::AsArray;
    let dt = arr.data_type().clone();
    let schema: SchemaRef = Arc::new(Schema::new(vec![Field::new("c", dt.clone(), true)]));
    let batch = RecordBatch::try_new(schema, vec![arr.clone()]).ok()?;
    let written = vcore::guard(|| {
        let wb = WriterBuilder::new().with_explicit_nulls(o.explicit_nulls).with_struct_mode(o.struct_mode());
        let mut out = Vec::new();
        let mut w = wb.build::<_, LineDelimited>(&mut out);
        let r = w.write(&batch).and_then(|_| w.finish());
        drop(w);
        r.map(|_| out)
    });
    let bytes = match written {
        Ok(Ok(b)) => b,
        _ => return None,
    };
    let valid = serde_json::Deserializer::from_slice(&bytes)
        .into_iter::<serde_json::Value>()
        .all(|r| r.is_ok());
    if valid {
        return None;
    }
    let children: Vec<ArrayRef> = match &dt {
        DataType::Struct(_) => arr.as_struct().columns().to_vec(),
        DataType::List(_) => vec![arr.as_list::<i32>().values().clone()],
        DataType::LargeList(_) => vec![arr.as_list::<i64>().values().clone()],
        DataType::ListView(_) => vec![arr.as_list_view::<i32>().values().clone()],
        DataType::LargeListView(_) => vec![arr.as_list_view::<i64>().values().clone()],
        DataType::FixedSizeList(_, _) => vec![arr.as_fixed_size_list().values().clone()],
        DataType::Map(_, _) => vec![arr.as_map().values().clone()],
        DataType::Dictionary(_, _) => vec![arr.as_any_dictionary().values().clone()],
        _ => vec![],
    };
    for c in &children {
        if let Some(f) = isolate_invalid(c, o) {
            return Some(f);
        }
    }
    Some(sig_class(&dt))
}

/// "whilst decoding field '_': " prefixes repeat per nesting level
fn norm_json_err(e: &str) -> String {
    // "failed to parse "<text>" as <type>[: cause]": the text may itself contain quotes
    if let Some(p) = e.find("failed to parse ") {
        if let Some(q) = e[p..].rfind("\" as ") {
            let ty = &e[p + q + 5..];
            let ty = ty.split(':').next().unwrap_or("");
            let ty = ty.split('(').next().unwrap_or("");
            return format!("failed to parse _ as {}", strip_digits(ty));
        }
    }
    let mut m = norm_msg(e);
    let pre = "whilst decoding field '_': ";
    while m.contains(&format!("{pre}{pre}")) {
        m = m.replace(&format!("{pre}{pre}"), pre);
    }
    m
}

/// Check one written JSON value against the logical value it was written from.
pub fn check_written(dt: &DataType, v: &Val, j: &J, o: &JsonOpts) -> Result<(), (String, &'static str, String)> {
    use DataType::*;
    if v.is_null() {
        return if *j == J::Null {
            Ok(())
        } else {
            Err((sig_class(dt), "null-as-value", format!("{dt}: null written as {j:?}")))
        };
    }
    let bad = || Err((sig_class(dt), "value", format!("{dt}: value {v:?} written as {j:?}")));
    match dt {
        Null => bad(),
        Boolean => match (v, j) {
            (Val::Bool(a), J::Bool(b)) if a == b => Ok(()),
            _ => bad(),
        },
        Int8 | Int16 | Int32 | Int64 | UInt8 | UInt16 | UInt32 | UInt64 => match (v, j) {
            (Val::Int(a), J::Num(l)) if is_int_literal(l) && l.parse::<i128>().ok() == Some(*a) => Ok(()),
            _ => bad(),
        },
        Float64 => match (v, j) {
            (Val::F64(a), J::Num(l)) if l.parse::<f64>().map(|x| x.to_bits()).ok() == Some(*a) => Ok(()),
            _ => bad(),
        },
        Float32 => match (v, j) {
            (Val::F32(a), J::Num(l)) if l.parse::<f32>().map(|x| x.to_bits()).ok() == Some(*a) => Ok(()),
            _ => bad(),
        },
        Float16 => match (v, j) {
            (Val::F16(a), J::Num(l))
                if l.parse::<f32>().map(|x| half::f16::from_f32(x).to_bits()).ok() == Some(*a) =>
            {
                Ok(())
            }
            _ => bad(),
        },
        Utf8 | LargeUtf8 | Utf8View => match (v, j) {
            (Val::Str(a), J::Str(b)) if a == b => Ok(()),
            _ => bad(),
        },
        Binary | LargeBinary | BinaryView | FixedSizeBinary(_) => match (v, j) {
            (Val::Bytes(a), J::Str(h)) => {
                let hex: String = a.iter().map(|b| format!("{b:02x}")).collect();
                if hex.eq_ignore_ascii_case(h) { Ok(()) } else { bad() }
            }
            _ => bad(),
        },
        Decimal32(_, s) | Decimal64(_, s) | Decimal128(_, s) | Decimal256(_, s) => {
            let unscaled = match v {
                Val::Int(a) => BigInt::from(*a),
                Val::Big(a) => i256_to_big(*a),
                _ => return bad(),
            };
            match j {
                J::Num(l) if decimal_equal(l, &unscaled, *s as i64) => Ok(()),
                _ => bad(),
            }
        }
        // spelling not asserted: must be a JSON string
        Date32 | Date64 | Time32(_) | Time64(_) | Timestamp(_, _) | Duration(_) | Interval(_) => match j {
            J::Str(_) => Ok(()),
            _ => bad(),
        },
        List(f) | LargeList(f) | ListView(f) | LargeListView(f) | FixedSizeList(f, _) => match (v, j) {
            (Val::List(a), J::Arr(b)) if a.len() == b.len() => {
                for (x, y) in a.iter().zip(b) {
                    check_written(f.data_type(), x, y, o)?;
                }
                Ok(())
            }
            _ => bad(),
        },
        Struct(fs) => match (v, j) {
            (Val::Struct(a), J::Arr(b)) if o.list_mode => {
                if a.len() != b.len() {
                    return bad();
                }
                for ((x, y), f) in a.iter().zip(b).zip(fs.iter()) {
                    check_written(f.data_type(), x, y, o)?;
                }
                Ok(())
            }
            (Val::Struct(a), J::Obj(b)) if !o.list_mode => {
                let mut it = b.iter();
                for (x, f) in a.iter().zip(fs.iter()) {
                    if x.is_null() && !o.explicit_nulls {
                        // a member that is present although the value is null: the child's null
                        // was written as a value
                        if let Some((k, y)) = it.clone().next() {
                            if k == f.name() && *y != J::Null {
                                return Err((
                                    sig_class(f.data_type()),
                                    "null-as-value",
                                    format!("{}: null member {:?} written as {y:?}", f.data_type(), f.name()),
                                ));
                            }
                        }
                        continue;
                    }
                    match it.next() {
                        Some((k, y)) if k == f.name() => check_written(f.data_type(), x, y, o)?,
                        other => {
                            return Err((sig_class(dt), "member", format!("struct member {:?} expected, found {other:?}", f.name())));
                        }
                    }
                }
                if let Some(extra) = it.next() {
                    return Err((sig_class(dt), "member", format!("unexpected struct member {extra:?}")));
                }
                Ok(())
            }
            _ => bad(),
        },
        Map(e, _) => {
            let Struct(kv) = e.data_type() else { return bad() };
            match (v, j) {
                (Val::List(a), J::Obj(b)) => {
                    let mut it = b.iter();
                    for x in a {
                        let Val::Struct(p) = x else { return bad() };
                        if p[1].is_null() && !o.explicit_nulls {
                            continue;
                        }
                        match it.next() {
                            Some((k, y)) if Some(k.as_str()) == p[0].as_str() => {
                                check_written(kv[1].data_type(), &p[1], y, o)?
                            }
                            other => {
                                return Err((sig_class(dt), "member", format!("map entry {:?} expected, found {other:?}", p[0])));
                            }
                        }
                    }
                    if let Some(extra) = it.next() {
                        return Err((sig_class(dt), "member", format!("unexpected map entry {extra:?}")));
                    }
                    Ok(())
                }
                _ => bad(),
            }
        }
        Dictionary(_, vt) => check_written(vt, v, j, o),
        RunEndEncoded(_, vf) => check_written(vf.data_type(), v, j, o),
        Union(_, _) => bad(),
    }
}

pub fn run_rt(ctx: &mut Ctx, k: u64) {
    let total = ctx.tier.pick(48, 16_000, 400_000);
    for i in chunk_cases(ctx, "json-rt", total, k) {
        if ctx.out_of_time() {
            break;
        }
        let mut rng = ctx.begin("json-rt", i);
        let c = match vcore::guard(|| gen_case(&mut rng)) {
            Ok(c) => c,
            Err(p) => {
                ctx.inconclusive(&format!("generator: {} @ {}", p.msg, p.loc));
                continue;
            }
        };
        rt_case(ctx, &c);
    }
}

fn col_classes(s: &Schema) -> String {
    s.fields().iter().map(|f| gens::type_class(f.data_type())).collect::<Vec<_>>().join(",")
}

fn rt_case(ctx: &mut Ctx, c: &JsonCase) {
    let o = &c.opts;
    let detail =
        |extra: &str, bytes: &[u8]| format!("opts {:?}\n{}text {}\n{extra}", c.opts, c.case.dump(), short_bytes(bytes));
    let bytes = match run_op(|| write_json(c)) {
        Outcome::Ok(b) => b,
        Outcome::Err(_) => {
            ctx.reject();
            ctx.count("json.write_err", 1);
            return;
        }
        Outcome::Panic(p) => {
            ctx.reject();
            ctx.count("json.write_panic", 1);
            if ctx.verbose {
                eprintln!("writer panic: {} @ {}", p.msg, p.loc);
            }
            return;
        }
    };
    let rows = c.case.rows();
    let row_dt = DataType::Struct(c.case.schema.fields().clone());
    // observed input layout: a valid key pointing at a null dictionary value. What the writer
    // makes of it varies with the surrounding types, so that family gets one signature.
    let dict_nulls = has_dict_value_nulls(&c.case.batches);
    let dict_sig = |sig: String| if dict_nulls { "C17|json|write|failed|Dict(value-nulls)".to_string() } else { sig };

    // ---- independent decoders on the written text
    let serde_vals: Result<Vec<serde_json::Value>, String> = serde_json::Deserializer::from_slice(&bytes)
        .into_iter::<serde_json::Value>()
        .collect::<Result<Vec<_>, _>>()
        .map_err(|e| e.to_string());
    let own = parse_stream(&bytes);
    let docs = match (serde_vals, own) {
        (Err(e), _) => {
            ctx.eval();
            // which leaf types are in play (the offending token is usually a number)
            ctx.violation(
                &dict_sig(format!(
                    "C17|json|write|invalid-json|{}",
                    c.case
                        .batches
                        .iter()
                        .flat_map(|b| b.columns().iter())
                        .find_map(|a| isolate_invalid(a, o))
                        .unwrap_or_else(|| "?".to_string())
                )),
                detail(&format!("serde_json rejects the writer's output: {e}"), &bytes),
            );
            return;
        }
        (Ok(_), Err(e)) => {
            ctx.inconclusive(&format!("own JSON parser rejects text serde_json accepts: {e}"));
            return;
        }
        (Ok(s), Ok(own)) => {
            if s.len() != own.len() || !own.iter().zip(&s).all(|(a, b)| agrees(a, b)) {
                if ctx.verbose {
                    for (a, b) in own.iter().zip(&s) {
                        if !agrees(a, b) {
                            eprintln!("own {a:?}\nserde {b:?}");
                            break;
                        }
                    }
                }
                ctx.inconclusive("own JSON parser and serde_json decode the writer's output differently");
                return;
            }
            own
        }
    };
    // framing
    let row_docs: Vec<J> = if o.array {
        match docs.as_slice() {
            [J::Arr(xs)] => xs.clone(),
            [] if rows == 0 => vec![],
            _ => {
                ctx.violation("C17|json|write|array-framing", detail("output is not a single JSON array", &bytes));
                return;
            }
        }
    } else {
        let lines = bytes.split(|b| *b == b'\n').filter(|l| !l.is_empty()).count();
        if lines != docs.len() || (!bytes.is_empty() && bytes.last() != Some(&b'\n')) {
            ctx.violation(
                "C17|json|write|line-framing",
                detail(&format!("{} JSON texts on {lines} lines", docs.len()), &bytes),
            );
            return;
        }
        docs
    };
    if row_docs.len() != rows {
        ctx.violation(
            "C17|json|write|row-count",
            detail(&format!("{} rows written for {rows} input rows", row_docs.len()), &bytes),
        );
        return;
    }
    let mut in_cols = c.case.cols.clone();
    selftest_mutate("json-serde", &mut in_cols);
    for (r, j) in row_docs.iter().enumerate() {
        let rv = Val::Struct(in_cols.iter().map(|col| col[r].clone()).collect());
        if let Err((class, kind, e)) = check_written(&row_dt, &rv, j, o) {
            ctx.eval();
            ctx.violation(
                &dict_sig(format!("C17|json|write|{kind}|{class}")),
                detail(&format!("row {r}: {e}"), &bytes),
            );
            return;
        }
    }
    ctx.count("json.serde_rows", rows as u64);

    // ---- read back
    let mut exp = expected(c);
    selftest_mutate("json-rt", &mut exp);
    let rb = reader_builder(c);
    let b2 = bytes.clone();
    let batches = match vcore::guard(move || read_all(rb, b2)) {
        Err(p) => {
            if p.is_rejection() {
                ctx.reject();
                return;
            }
            ctx.eval();
            ctx.violation(
                &format!("C17|json|read|panic|{}|{}", p.file(), err_family(&p.msg)),
                detail(&format!("reader panic: {} @ {}", p.msg, p.loc), &bytes),
            );
            return;
        }
        Ok(Err(e)) => {
            if is_rejection_msg(&e) {
                ctx.reject();
                ctx.count("json.read_unsupported", 1);
                return;
            }
            ctx.eval();
            ctx.violation(
                &format!("C17|json|read|err|{}", err_family(&e)),
                detail(&format!("reader error: {e}"), &bytes),
            );
            return;
        }
        Ok(Ok(b)) => b,
    };
    ctx.eval();
    ctx.count("json.bytes", bytes.len() as u64);
    for b in &batches {
        if b.num_rows() > o.batch_size {
            ctx.violation("C17|json|read|batch-size", detail(&format!("batch of {} rows", b.num_rows()), &bytes));
            return;
        }
        if !same_fields(&b.schema(), &c.case.schema) {
            ctx.violation("C17|json|read|schema", detail(&format!("reader schema {:?}", b.schema()), &bytes));
            return;
        }
        if let Err(e) = check_batch(b) {
            ctx.violation(&format!("C17|json|read|invalid-batch|{}", err_family(&e)), detail(&e, &bytes));
            return;
        }
    }
    let got = extract_batches(&batches, exp.len());
    for (ci, ((f, e), g)) in c.case.schema.fields().iter().zip(&exp).zip(&got).enumerate() {
        if let Some((row, leaf, kind)) = diff_col(f.data_type(), e, g) {
            ctx.violation(
                &format!("C17|json|roundtrip|{kind}|{leaf}"),
                detail(
                    &format!("column {ci} ({}) row {row}: expected {:?} got {:?}", f.data_type(), e.get(row), g.get(row)),
                    &bytes,
                ),
            );
            return;
        }
    }
    if rows > 0 {
        ctx.class(format!("json-rt|{}|{}|ok", col_classes(&c.case.schema), o.class()));
        ctx.sample(|| format!("json-rt {:?}\n{}{}", c.opts, c.case.dump(), short_bytes(&bytes)));
    }
}

// ------------------------------------------------------------------ json-doc: RFC 8259 grammar

fn ws(rng: &mut Rng, out: &mut String, level: u32) {
    if level == 0 {
        return;
    }
    let n = if rng.chance(1, 2) { 0 } else { rng.below(1 + level as usize) };
    for _ in 0..n {
        out.push(*rng.pick(&[' ', ' ', '\t', '\n', '\r']));
    }
}

/// Append an RFC 8259 string literal denoting `s`, using every escape form.
pub fn encode_string(rng: &mut Rng, s: &str, out: &mut String) {
    out.push('"');
    let esc_bias = *rng.pick(&[0u32, 1, 3, 8]);
    for ch in s.chars() {
        let cp = ch as u32;
        let short = match ch {
            '"' => Some("\\\""),
            '\\' => Some("\\\\"),
            '/' => Some("\\/"),
            '\u{8}' => Some("\\b"),
            '\u{c}' => Some("\\f"),
            '\n' => Some("\\n"),
            '\r' => Some("\\r"),
            '\t' => Some("\\t"),
            _ => None,
        };
        let must = cp < 0x20 || ch == '"' || ch == '\\';
        let escape = must || rng.chance(esc_bias, 8);
        if !escape {
            out.push(ch);
            continue;
        }
        if let Some(sh) = short {
            if rng.chance(3, 4) {
                out.push_str(sh);
                continue;
            }
        }
        let upper = rng.bool();
        let u = |x: u32, out: &mut String| {
            if upper {
                out.push_str(&format!("\\u{x:04X}"));
            } else {
                out.push_str(&format!("\\u{x:04x}"));
            }
        };
        if cp >= 0x10000 {
            let v = cp - 0x10000;
            u(0xD800 + (v >> 10), out);
            u(0xDC00 + (v & 0x3FF), out);
        } else {
            u(cp, out);
        }
    }
    out.push('"');
}

const DOC_CHARS: [&str; 30] = [
    "a", "Z", "0", " ", "\t", "\n", "\r", "\"", "\\", "/", "\u{8}", "\u{c}", "\0", "\u{1}", "\u{1f}", "\u{7f}",
    "é", "ß", "\u{301}", "€", "中", "\u{FFFF}", "\u{D7FF}", "\u{E000}", "😀", "\u{10000}", "\u{10FFFF}", "u", "{", "]",
];

fn gen_doc_string(rng: &mut Rng) -> String {
    if rng.chance(1, 3) {
        return gens::gen_string(rng);
    }
    let n = *rng.pick(&[0usize, 1, 2, 3, 5, 12, 13, 30]);
    (0..n).map(|_| *rng.pick(&DOC_CHARS)).collect()
}

/// A random RFC 8259 number literal (any form the grammar allows).
pub fn gen_number_literal(rng: &mut Rng) -> String {
    let mut s = String::new();
    if rng.chance(1, 3) {
        s.push('-');
    }
    match rng.below(4) {
        0 => s.push('0'),
        _ => {
            let n = *rng.pick(&[1usize, 1, 2, 3, 7, 16, 17, 19, 20, 25, 40]);
            s.push((b'1' + rng.below(9) as u8) as char);
            for _ in 1..n {
                s.push((b'0' + rng.below(10) as u8) as char);
            }
        }
    }
    if rng.chance(1, 2) {
        s.push('.');
        let n = *rng.pick(&[1usize, 1, 2, 3, 9, 17, 25, 40]);
        for _ in 0..n {
            s.push((b'0' + rng.below(10) as u8) as char);
        }
    }
    if rng.chance(1, 3) {
        s.push(if rng.bool() { 'e' } else { 'E' });
        match rng.below(3) {
            0 => s.push('+'),
            1 => s.push('-'),
            _ => {}
        }
        let e = match rng.below(4) {
            0 => rng.below(4),
            1 => rng.below(40),
            2 => rng.below(330),
            _ => rng.below(400),
        };
        if rng.chance(1, 5) {
            s.push('0');
        }
        s.push_str(&e.to_string());
    }
    s
}

/// a number literal whose value is finite as f64 (serde_json rejects the others)
fn finite_number_literal(rng: &mut Rng) -> String {
    for _ in 0..50 {
        let l = gen_number_literal(rng);
        if l.parse::<f64>().map(|x| x.is_finite()).unwrap_or(false) {
            return l;
        }
    }
    "0".to_string()
}

fn float_literal_for(rng: &mut Rng, dt: &DataType) -> (String, Val) {
    for _ in 0..200 {
        let l = match rng.below(5) {
            _ if matches!(dt, DataType::Float16) && rng.chance(2, 3) => {
                let x = half::f16::from_bits(gens::gen_f16_bits(rng));
                if !x.is_finite() {
                    continue;
                }
                format!("{:?}", x.to_f32())
            }
            0 => {
                let x = f64::from_bits(gens::gen_f64_bits(rng));
                if !x.is_finite() {
                    continue;
                }
                if rng.bool() { format!("{x:?}") } else { format!("{x:e}") }
            }
            1 => {
                let x = f32::from_bits(gens::gen_f32_bits(rng));
                if !x.is_finite() {
                    continue;
                }
                format!("{x:?}")
            }
            _ => gen_number_literal(rng),
        };
        let Ok(d) = l.parse::<f64>() else { continue };
        if !d.is_finite() {
            continue;
        }
        match dt {
            DataType::Float64 => return (l, Val::F64(d.to_bits())),
            DataType::Float32 => {
                let Ok(f) = l.parse::<f32>() else { continue };
                if !f.is_finite() {
                    continue;
                }
                return (l, Val::F32(f.to_bits()));
            }
            _ => {
                let Ok(f) = l.parse::<f32>() else { continue };
                let a = half::f16::from_f32(f);
                let b = half::f16::from_f64(d);
                if !a.is_finite() || a.to_bits() != b.to_bits() {
                    continue;
                }
                return (l, Val::F16(a.to_bits()));
            }
        }
    }
    ("0".to_string(), match dt {
        DataType::Float64 => Val::F64(0),
        DataType::Float32 => Val::F32(0),
        _ => Val::F16(0),
    })
}

fn int_range(dt: &DataType) -> (i128, i128) {
    use DataType::*;
    match dt {
        Int8 => (i8::MIN as i128, i8::MAX as i128),
        Int16 => (i16::MIN as i128, i16::MAX as i128),
        Int32 => (i32::MIN as i128, i32::MAX as i128),
        Int64 => (i64::MIN as i128, i64::MAX as i128),
        UInt8 => (0, u8::MAX as i128),
        UInt16 => (0, u16::MAX as i128),
        UInt32 => (0, u32::MAX as i128),
        _ => (0, u64::MAX as i128),
    }
}

/// An integer-valued RFC 8259 number literal: plain, with a zero fraction, or with an exponent.
fn int_literal_for(rng: &mut Rng, dt: &DataType) -> (String, Val) {
    let (lo, hi) = int_range(dt);
    let k = gens::gen_int(rng, lo, hi);
    let exact = k.abs() <= (1i128 << 53);
    let form = if exact { rng.below(7) } else { 0 };
    let l = match form {
        1 => format!("{k}.0"),
        2 => format!("{k}.{}", "0".repeat(1 + rng.below(5))),
        3 => {
            // m e s  with k = m * 10^s
            let mut m = k;
            let mut s = 0;
            while m != 0 && m % 10 == 0 && s < 4 {
                m /= 10;
                s += 1;
            }
            format!("{m}{}{}{s}", if rng.bool() { 'e' } else { 'E' }, *rng.pick(&["", "+"]))
        }
        4 => {
            // digits shifted right: k*10^s e-s
            let s = 1 + rng.below(3);
            if k == 0 { format!("0e-{s}") } else { format!("{k}{}e-{s}", "0".repeat(s)) }
        }
        5 if k != 0 => {
            // d.ddd e n
            let neg = k < 0;
            let ds = k.abs().to_string();
            let (h, t) = ds.split_at(1);
            let t = t.trim_end_matches('0');
            let frac = if t.is_empty() { String::new() } else { format!(".{t}") };
            format!("{}{h}{frac}e{}", if neg { "-" } else { "" }, ds.len() - 1)
        }
        6 if k == 0 => (*rng.pick(&["-0", "0e0", "0.0", "-0.0", "0E-5"])).to_string(),
        _ => k.to_string(),
    };
    (l, Val::Int(k))
}

/// Arbitrary JSON value for members the schema does not know.
fn gen_any_json(rng: &mut Rng, depth: u32, level: u32, out: &mut String) {
    match if depth == 0 { rng.below(5) } else { rng.below(8) } {
        0 => out.push_str("null"),
        1 => out.push_str(if rng.bool() { "true" } else { "false" }),
        2 | 3 => out.push_str(&finite_number_literal(rng)),
        4 => {
            let s = gen_doc_string(rng);
            encode_string(rng, &s, out)
        }
        5 | 6 => {
            out.push('[');
            let n = rng.below(4);
            for i in 0..n {
                if i > 0 {
                    out.push(',');
                }
                ws(rng, out, level);
                gen_any_json(rng, depth - 1, level, out);
                ws(rng, out, level);
            }
            if n == 0 {
                ws(rng, out, level);
            }
            out.push(']');
        }
        _ => {
            out.push('{');
            let n = rng.below(4);
            for i in 0..n {
                if i > 0 {
                    out.push(',');
                }
                ws(rng, out, level);
                let k = format!("k{i}{}", gen_doc_string(rng));
                encode_string(rng, &k, out);
                ws(rng, out, level);
                out.push(':');
                ws(rng, out, level);
                gen_any_json(rng, depth - 1, level, out);
                ws(rng, out, level);
            }
            if n == 0 {
                ws(rng, out, level);
            }
            out.push('}');
        }
    }
}

struct DocCfg {
    level: u32,
    list_mode: bool,
    extras: bool,
}

/// Append a JSON text for a value of `dt` and return the value it denotes.
fn gen_doc_val(rng: &mut Rng, dt: &DataType, nullable: bool, cfg: &DocCfg, out: &mut String) -> Val {
    use DataType::*;
    if matches!(dt, Null) || (nullable && rng.chance(1, 6)) {
        out.push_str("null");
        return Val::Null;
    }
    match dt {
        Boolean => {
            let b = rng.bool();
            out.push_str(if b { "true" } else { "false" });
            Val::Bool(b)
        }
        Int8 | Int16 | Int32 | Int64 | UInt8 | UInt16 | UInt32 | UInt64 => {
            let (l, v) = int_literal_for(rng, dt);
            out.push_str(&l);
            v
        }
        Float16 | Float32 | Float64 => {
            let (l, v) = float_literal_for(rng, dt);
            out.push_str(&l);
            v
        }
        Utf8 | LargeUtf8 | Utf8View => {
            let s = gen_doc_string(rng);
            encode_string(rng, &s, out);
            Val::Str(s)
        }
        List(f) | LargeList(f) | ListView(f) | LargeListView(f) | FixedSizeList(f, _) => {
            let n = match dt {
                FixedSizeList(_, n) => *n as usize,
                _ => *rng.pick(&[0usize, 0, 1, 2, 3, 6]),
            };
            out.push('[');
            let mut xs = Vec::new();
            for i in 0..n {
                if i > 0 {
                    out.push(',');
                }
                ws(rng, out, cfg.level);
                xs.push(gen_doc_val(rng, f.data_type(), f.is_nullable(), cfg, out));
                ws(rng, out, cfg.level);
            }
            if n == 0 {
                ws(rng, out, cfg.level);
            }
            out.push(']');
            Val::List(xs)
        }
        Struct(fs) => Val::Struct(gen_doc_struct(rng, fs, cfg, out)),
        Map(e, _) => {
            let Struct(kv) = e.data_type() else { panic!("model: map entries") };
            let n = *rng.pick(&[0usize, 0, 1, 2, 4]);
            out.push('{');
            let mut xs = Vec::new();
            let mut keys: Vec<String> = Vec::new();
            for i in 0..n {
                if i > 0 {
                    out.push(',');
                }
                ws(rng, out, cfg.level);
                let mut k = gen_doc_string(rng);
                if keys.contains(&k) {
                    k = format!("{k}#{i}");
                }
                keys.push(k.clone());
                encode_string(rng, &k, out);
                ws(rng, out, cfg.level);
                out.push(':');
                ws(rng, out, cfg.level);
                let v = gen_doc_val(rng, kv[1].data_type(), kv[1].is_nullable(), cfg, out);
                ws(rng, out, cfg.level);
                xs.push(Val::Struct(vec![Val::Str(k), v]));
            }
            if n == 0 {
                ws(rng, out, cfg.level);
            }
            out.push('}');
            Val::List(xs)
        }
        other => panic!("model: json-doc type {other}"),
    }
}

fn gen_doc_struct(rng: &mut Rng, fs: &Fields, cfg: &DocCfg, out: &mut String) -> Vec<Val> {
    let n = fs.len();
    let mut vals: Vec<Val> = vec![Val::Null; n];
    if cfg.list_mode {
        out.push('[');
        for (i, f) in fs.iter().enumerate() {
            if i > 0 {
                out.push(',');
            }
            ws(rng, out, cfg.level);
            vals[i] = gen_doc_val(rng, f.data_type(), f.is_nullable(), cfg, out);
            ws(rng, out, cfg.level);
        }
        out.push(']');
        return vals;
    }
    // object: members in random order, nullable members may be absent, unknown members mixed in
    let mut order: Vec<usize> = (0..n).collect();
    if rng.bool() {
        rng.shuffle(&mut order);
    }
    out.push('{');
    let mut first = true;
    let mut extra_id = 0;
    let sep = |rng: &mut Rng, out: &mut String, first: &mut bool| {
        if !*first {
            out.push(',');
        }
        *first = false;
        ws(rng, out, cfg.level);
    };
    for i in order {
        let f = &fs[i];
        if cfg.extras && rng.chance(1, 6) {
            sep(rng, out, &mut first);
            let name = loop {
                let c = format!("?{extra_id}{}", gen_doc_string(rng));
                extra_id += 1;
                if !fs.iter().any(|f| f.name() == &c) {
                    break c;
                }
            };
            encode_string(rng, &name, out);
            ws(rng, out, cfg.level);
            out.push(':');
            ws(rng, out, cfg.level);
            gen_any_json(rng, 3, cfg.level, out);
            ws(rng, out, cfg.level);
        }
        if f.is_nullable() && rng.chance(1, 6) {
            continue; // absent member: null
        }
        sep(rng, out, &mut first);
        encode_string(rng, f.name(), out);
        ws(rng, out, cfg.level);
        out.push(':');
        ws(rng, out, cfg.level);
        vals[i] = gen_doc_val(rng, f.data_type(), f.is_nullable(), cfg, out);
        ws(rng, out, cfg.level);
    }
    if first {
        ws(rng, out, cfg.level);
    }
    out.push('}');
    vals
}

/// serde_json's decoding of a document agrees with the expected logical value
fn serde_matches(dt: &DataType, v: &Val, s: &serde_json::Value, list_mode: bool) -> bool {
    use DataType::*;
    use serde_json::Value as V;
    match (dt, v, s) {
        (_, Val::Null, V::Null) => true,
        (_, Val::Null, _) => false,
        (Boolean, Val::Bool(a), V::Bool(b)) => a == b,
        (Int8 | Int16 | Int32 | Int64 | UInt8 | UInt16 | UInt32 | UInt64, Val::Int(a), V::Number(n)) => {
            if let Some(i) = n.as_i64() {
                return i as i128 == *a;
            }
            if let Some(u) = n.as_u64() {
                return u as i128 == *a;
            }
            // serde_json is built without `float_roundtrip`: one ulp of slack
            n.as_f64().map(|f| ulp_close(f, *a as f64)).unwrap_or(false)
        }
        (Float64, Val::F64(a), V::Number(n)) => n.as_f64().map(|f| ulp_close(f, f64::from_bits(*a))).unwrap_or(false),
        (Float32, Val::F32(a), V::Number(n)) => {
            let x = f32::from_bits(*a);
            n.as_f64()
                .map(|f| {
                    let y = f as f32;
                    y == x || (y.to_bits() as i64 - x.to_bits() as i64).abs() <= 1
                })
                .unwrap_or(false)
        }
        (Float16, Val::F16(a), V::Number(n)) => {
            let x = half::f16::from_bits(*a);
            n.as_f64()
                .map(|f| {
                    let y = half::f16::from_f64(f);
                    y == x || (y.to_bits() as i32 - x.to_bits() as i32).abs() <= 1
                })
                .unwrap_or(false)
        }
        (Utf8 | LargeUtf8 | Utf8View, Val::Str(a), V::String(b)) => a == b,
        (List(f) | LargeList(f) | ListView(f) | LargeListView(f) | FixedSizeList(f, _), Val::List(a), V::Array(b)) => {
            a.len() == b.len() && a.iter().zip(b).all(|(x, y)| serde_matches(f.data_type(), x, y, list_mode))
        }
        (Struct(fs), Val::Struct(a), V::Array(b)) if list_mode => {
            a.len() == b.len() && fs.iter().zip(a.iter().zip(b)).all(|(f, (x, y))| serde_matches(f.data_type(), x, y, list_mode))
        }
        (Struct(fs), Val::Struct(a), V::Object(b)) if !list_mode => fs.iter().zip(a).all(|(f, x)| match b.get(f.name()) {
            Some(y) => serde_matches(f.data_type(), x, y, list_mode),
            None => x.is_null(),
        }),
        (Map(e, _), Val::List(a), V::Object(b)) => {
            let Struct(kv) = e.data_type() else { return false };
            a.len() == b.len()
                && a.iter().all(|x| match x {
                    Val::Struct(p) => match (p[0].as_str(), &p[1]) {
                        (Some(k), pv) => b.get(k).map(|y| serde_matches(kv[1].data_type(), pv, y, list_mode)).unwrap_or(false),
                        _ => false,
                    },
                    _ => false,
                })
        }
        _ => false,
    }
}

pub fn doc_profile() -> Profile {
    use DataType::*;
    Profile {
        prims: vec![
            Boolean, Int8, Int16, Int32, Int64, Int64, UInt8, UInt16, UInt32, UInt64, Float16, Float32, Float64,
            Float64, Float64, Utf8, Utf8, Utf8, LargeUtf8, Utf8View, Null,
        ],
        enc_vals: vec![Utf8],
        dict_keys: vec![Int32],
        map_keys: vec![Utf8, Utf8, LargeUtf8, Utf8View],
        list: true,
        large: true,
        list_view: true,
        fsl: true,
        strukt: true,
        map: true,
        dict: false,
        ree: false,
        union: false,
        non_nullable: true,
        max_depth: 3,
    }
}

/// A document generated from the RFC 8259 grammar for a schema, the values it denotes,
/// and the reader configuration it is meant for.
pub struct JsonDoc {
    pub schema: SchemaRef,
    pub text: String,
    /// byte ranges of the individual texts (one per row, or the single array)
    pub pieces: Vec<(usize, usize)>,
    pub cols: Vec<Vec<Val>>,
    pub array: bool,
    pub list_mode: bool,
    pub strict: bool,
    pub batch_size: usize,
}

pub fn gen_doc(rng: &mut Rng) -> JsonDoc {
    let p = doc_profile();
    let ncols = 1 + rng.below(4);
    let plain = rng.chance(1, 2);
    let names = gen_names(rng, ncols, plain);
    let fields: Vec<Field> = names
        .iter()
        .map(|nm| {
            let depth = *rng.pick(&[0u32, 0, 1, 2, 3]);
            let dt = gen_ty(rng, &p, depth, false);
            let nullable = matches!(dt, DataType::Null) || !rng.chance(1, 5);
            Field::new(nm, dt, nullable)
        })
        .collect();
    let schema: SchemaRef = Arc::new(Schema::new(fields));
    let rows = *rng.pick(&[0usize, 1, 1, 2, 3, 5, 9, 17]);
    let array = rng.chance(1, 2);
    let list_mode = rng.chance(1, 4);
    let strict = list_mode || rng.chance(1, 3);
    let cfg = DocCfg { level: *rng.pick(&[0u32, 1, 1, 3]), list_mode, extras: !strict };
    let mut text = String::new();
    let mut pieces = Vec::new();
    let mut cols: Vec<Vec<Val>> = vec![Vec::new(); ncols];
    if array {
        ws(rng, &mut text, cfg.level);
        let start = text.len();
        text.push('[');
        for r in 0..rows {
            if r > 0 {
                text.push(',');
            }
            ws(rng, &mut text, cfg.level);
            let vals = gen_doc_struct(rng, schema.fields(), &cfg, &mut text);
            for (c, v) in vals.into_iter().enumerate() {
                cols[c].push(v);
            }
            ws(rng, &mut text, cfg.level);
        }
        if rows == 0 {
            ws(rng, &mut text, cfg.level);
        }
        text.push(']');
        pieces.push((start, text.len()));
        ws(rng, &mut text, cfg.level);
    } else {
        for _ in 0..rows {
            ws(rng, &mut text, cfg.level);
            let start = text.len();
            let vals = gen_doc_struct(rng, schema.fields(), &cfg, &mut text);
            for (c, v) in vals.into_iter().enumerate() {
                cols[c].push(v);
            }
            pieces.push((start, text.len()));
            // RFC 8259 describes one text; a sequence needs a separator between texts
            text.push(*rng.pick(&['\n', '\n', ' ', '\t', '\r']));
        }
    }
    JsonDoc { schema, text, pieces, cols, array, list_mode, strict, batch_size: *rng.pick(&[1usize, 2, 4, 1024]) }
}

pub fn doc_reader_builder(d: &JsonDoc) -> ReaderBuilder {
    ReaderBuilder::new(d.schema.clone())
        .with_struct_mode(if d.list_mode { StructMode::ListOnly } else { StructMode::ObjectOnly })
        .with_flatten(d.array)
        .with_batch_size(d.batch_size)
        .with_strict_mode(d.strict)
}

pub fn run_doc(ctx: &mut Ctx, k: u64) {
    let total = ctx.tier.pick(48, 16_000, 400_000);
    for i in chunk_cases(ctx, "json-doc", total, k) {
        if ctx.out_of_time() {
            break;
        }
        let mut rng = ctx.begin("json-doc", i);
        let d = match vcore::guard(|| gen_doc(&mut rng)) {
            Ok(d) => d,
            Err(p) => {
                ctx.inconclusive(&format!("generator: {} @ {}", p.msg, p.loc));
                continue;
            }
        };
        let rows = d.cols.first().map(|c| c.len()).unwrap_or(0);
        let row_dt = DataType::Struct(d.schema.fields().clone());
        let dump = |extra: String| {
            let mut s = format!("array={} list_mode={} strict={} batch_size={}\n", d.array, d.list_mode, d.strict, d.batch_size);
            for (f, c) in d.schema.fields().iter().zip(&d.cols) {
                s.push_str(&format!("  {:?}: {}{} = {}\n", f.name(), f.data_type(), if f.is_nullable() { "" } else { " NOT NULL" }, vcore::val::dump_vals(c)));
            }
            s.push_str(&format!("text {}\n{extra}", short_bytes(d.text.as_bytes())));
            s
        };
        // the independent parser must accept every text and decode the same values
        let mut arbiter_ok = true;
        let mut row_vals: Vec<serde_json::Value> = Vec::new();
        for (a, b) in &d.pieces {
            match serde_json::from_str::<serde_json::Value>(&d.text[*a..*b]) {
                Ok(v) => {
                    if d.array {
                        match v {
                            serde_json::Value::Array(xs) => row_vals.extend(xs),
                            _ => arbiter_ok = false,
                        }
                    } else {
                        row_vals.push(v)
                    }
                }
                Err(e) => {
                    ctx.inconclusive(&format!("serde_json rejects a generated document: {e}"));
                    arbiter_ok = false;
                    break;
                }
            }
        }
        if !arbiter_ok {
            continue;
        }
        if row_vals.len() != rows {
            ctx.inconclusive("serde_json sees a different number of rows than generated");
            continue;
        }
        let mut agree = true;
        for (r, sv) in row_vals.iter().enumerate() {
            let rv = Val::Struct(d.cols.iter().map(|c| c[r].clone()).collect());
            if !serde_matches(&row_dt, &rv, sv, d.list_mode) {
                agree = false;
                if ctx.verbose {
                    eprintln!("serde_json disagrees with the generator on row {r}: {sv:?} vs {rv:?}");
                }
                break;
            }
        }
        if !agree {
            ctx.inconclusive("serde_json decodes a generated document differently from the generator");
            continue;
        }
        ctx.eval();
        let rb = doc_reader_builder(&d);
        let bytes = d.text.clone().into_bytes();
        let batches = match vcore::guard(move || read_all(rb, bytes)) {
            Err(p) => {
                ctx.violation(
                    &format!("C17|json|read|panic|{}|{}", p.file(), err_family(&p.msg)),
                    dump(format!("reader panic {} @ {}", p.msg, p.loc)),
                );
                continue;
            }
            Ok(Err(e)) => {
                ctx.violation(&format!("C17|json|read|err|{}", err_family(&e)), dump(format!("reader error: {e}")));
                continue;
            }
            Ok(Ok(b)) => b,
        };
        let mut bad = false;
        for b in &batches {
            if let Err(e) = check_batch(b) {
                ctx.violation(&format!("C17|json|doc|invalid-batch|{}", err_family(&e)), dump(e));
                bad = true;
                break;
            }
        }
        if bad {
            continue;
        }
        let got = extract_batches(&batches, d.cols.len());
        let mut exp_cols = d.cols.clone();
        selftest_mutate("json-doc", &mut exp_cols);
        for (ci, ((f, e), g)) in d.schema.fields().iter().zip(&exp_cols).zip(&got).enumerate() {
            if let Some((row, leaf, kind)) = diff_col(f.data_type(), e, g) {
                ctx.violation(
                    &format!("C17|json|doc|{kind}|{leaf}"),
                    dump(format!("column {ci} ({}) row {row}: document denotes {:?}, reader returned {:?}", f.data_type(), e.get(row), g.get(row))),
                );
                bad = true;
                break;
            }
        }
        if !bad && rows > 0 {
            ctx.class(format!(
                "json-doc|{}|{}{}{}",
                col_classes(&d.schema),
                if d.array { "arr" } else { "seq" },
                if d.list_mode { "L" } else { "O" },
                if d.strict { "s" } else { "x" }
            ));
            ctx.count("json.doc_bytes", d.text.len() as u64);
            ctx.sample(|| format!("json-doc {}", short_bytes(d.text.as_bytes())));
        }
    }
}
