//! C14, `ParquetMetaDataPushDecoder`: the decoded footer (+ page index) must not depend on how the
//! bytes are delivered: on demand exactly as requested, prefetched (any suffix / the whole file /
//! random ranges / the file in consecutive pieces), as supersets of the requested range, split
//! (=> requested again, `PushBuffers` is documented as non-coalescing), duplicated, shuffled,
//! through `push_range` or `push_ranges`, with redundant `try_decode` calls in between.
//! The one-shot `ParquetMetaDataReader::parse_and_finish` is the pull-based reference.

use super::c14::{Budget, P, brk, bucket, hex, msg_class};
use super::pq_common::{self as pq, FailKind, WriteCfg};
use bytes::Bytes;
use parquet::DecodeResult;
use parquet::file::metadata::{PageIndexPolicy, ParquetMetaData, ParquetMetaDataPushDecoder, ParquetMetaDataReader};
use std::ops::Range;
use vcore::mon::{Ctx, guard};
use vcore::rng::Rng;

#[derive(Clone, Copy, Debug)]
struct Pol {
    column: PageIndexPolicy,
    offset: PageIndexPolicy,
}

const POLS: [PageIndexPolicy; 3] = [PageIndexPolicy::Skip, PageIndexPolicy::Optional, PageIndexPolicy::Required];

enum PqOut {
    Meta(Box<ParquetMetaData>),
    Err(String),
    Panic(String, String),
    /// the decoder asked for bytes that do not exist / kept asking after an exact delivery
    Protocol(String),
}

impl PqOut {
    fn class(&self) -> String {
        match self {
            PqOut::Meta(_) => "meta".into(),
            PqOut::Err(_) => "err".into(),
            PqOut::Panic(f, _) => format!("panic:{f}"),
            PqOut::Protocol(m) => format!("protocol:{m}"),
        }
    }
    fn text(&self) -> String {
        match self {
            PqOut::Meta(m) => format!("metadata: {} row groups, {} rows, page index: column={} offset={}", m.num_row_groups(), m.file_metadata().num_rows(), m.page_index().is_some_and(|p| p.has_column_indexes()), m.page_index().is_some_and(|p| p.has_offset_indexes())),
            PqOut::Err(e) => format!("Err({e})"),
            PqOut::Panic(f, m) => format!("panic in {f}: {m}"),
            PqOut::Protocol(m) => format!("protocol failure: {m}"),
        }
    }
}

fn slice(file: &Bytes, r: &Range<u64>) -> Option<Bytes> {
    if r.start > r.end || r.end > file.len() as u64 {
        return None;
    }
    Some(file.slice(r.start as usize..r.end as usize))
}

/// One delivery schedule, all decisions from `Rng::new(aux)`; `aux == 0` is the documented minimal
/// protocol (deliver exactly what is asked for). Returns the outcome and a trace.
fn run_push(file: &Bytes, pol: Pol, aux: u64, trace: &mut Vec<String>) -> PqOut {
    let flen = file.len() as u64;
    let r = guard(|| -> Result<PqOut, String> {
        let mut rng = Rng::new(aux);
        let mut dec = ParquetMetaDataPushDecoder::try_new(flen).map_err(|e| format!("try_new: {e}"))?.with_column_index_policy(pol.column).with_offset_index_policy(pol.offset);
        let push = |dec: &mut ParquetMetaDataPushDecoder, rng: &mut Rng, mut ranges: Vec<Range<u64>>, trace: &mut Vec<String>| -> Result<(), String> {
            if rng.bool() {
                rng.shuffle(&mut ranges);
            }
            let bufs: Vec<Bytes> = ranges.iter().map(|r| slice(file, r).expect("model: range inside the file")).collect();
            trace.push(format!("push {ranges:?}"));
            if rng.bool() {
                dec.push_ranges(ranges, bufs).map_err(|e| format!("push_ranges: {e}"))
            } else {
                for (r, b) in ranges.into_iter().zip(bufs) {
                    dec.push_range(r, b).map_err(|e| format!("push_range: {e}"))?;
                }
                Ok(())
            }
        };
        // ---- prefetch
        if aux != 0 {
            let pre: Vec<Range<u64>> = match rng.below(8) {
                0 => vec![],
                1 => vec![0..flen],
                2 => vec![flen - 8..flen],
                3 => vec![flen - (1 + rng.below(flen as usize) as u64)..flen],
                4 => {
                    // the file in consecutive pieces (never coalesced by the decoder)
                    let k = 2 + rng.below(5);
                    let mut cuts: Vec<u64> = (0..k - 1).map(|_| rng.below(flen as usize + 1) as u64).collect();
                    cuts.push(0);
                    cuts.push(flen);
                    cuts.sort_unstable();
                    cuts.dedup();
                    cuts.windows(2).map(|w| w[0]..w[1]).collect()
                }
                5 => (0..1 + rng.below(4))
                    .map(|_| {
                        let a = rng.below(flen as usize) as u64;
                        a..a + rng.below((flen - a) as usize + 1) as u64
                    })
                    .collect(),
                6 => vec![flen.saturating_sub(64 + rng.below(4096) as u64)..flen],
                _ => vec![flen / 2..flen, 0..flen / 2],
            };
            if !pre.is_empty() {
                push(&mut dec, &mut rng, pre, trace)?;
            }
        }
        let mut rounds = 0;
        let mut exact_given: Option<Vec<Range<u64>>> = None;
        loop {
            rounds += 1;
            if rounds > 60 {
                return Ok(PqOut::Protocol("no-termination".into()));
            }
            let res = dec.try_decode().map_err(|e| e.to_string())?;
            match res {
                DecodeResult::Data(m) => {
                    trace.push("Data".into());
                    // after the result: `Finished`, however often it is asked (the single call of the
                    // minimal protocol included), and pushing is refused
                    let asks = if aux == 0 { 1 } else { 1 + rng.below(3) };
                    let push_first = aux != 0 && rng.bool();
                    if push_first && dec.push_range(0..1, file.slice(0..1)).is_ok() {
                        return Ok(PqOut::Protocol("push-accepted-after-data".into()));
                    }
                    for k in 0..asks {
                        match dec.try_decode() {
                            Ok(DecodeResult::Finished) => {}
                            other => return Ok(PqOut::Protocol(format!("try_decode-{}-after-data:{}", k + 1, msg_class(&format!("{other:?}"))))),
                        }
                    }
                    if aux != 0 && !push_first && rng.bool() && dec.push_range(0..1, file.slice(0..1)).is_ok() {
                        return Ok(PqOut::Protocol("push-accepted-after-finished".into()));
                    }
                    return Ok(PqOut::Meta(Box::new(m)));
                }
                DecodeResult::Finished => return Ok(PqOut::Protocol("finished-without-data".into())),
                DecodeResult::NeedsData(need) => {
                    trace.push(format!("NeedsData {need:?}"));
                    if need.is_empty() || need.iter().any(|r| slice(file, r).is_none() || r.start == r.end) {
                        return Ok(PqOut::Protocol("needs-range-outside-file".into()));
                    }
                    if let Some(prev) = &exact_given {
                        if prev == &need {
                            return Ok(PqOut::Protocol("same-range-requested-after-exact-delivery".into()));
                        }
                    }
                    // asking again without pushing must repeat the request
                    if aux != 0 && rng.chance(1, 4) {
                        match dec.try_decode().map_err(|e| e.to_string())? {
                            DecodeResult::NeedsData(again) if again == need => {}
                            other => return Ok(PqOut::Protocol(format!("request-changed-without-push:{}", msg_class(&format!("{other:?}"))))),
                        }
                    }
                    let how = if aux == 0 { 0 } else { rng.below(6) };
                    exact_given = None;
                    match how {
                        0 => {
                            exact_given = Some(need.clone());
                            push(&mut dec, &mut rng, need, trace)?;
                        }
                        1 => {
                            // superset
                            let sup: Vec<Range<u64>> = need.iter().map(|r| r.start - rng.below(r.start as usize + 1).min(100) as u64..(r.end + rng.below((flen - r.end) as usize + 1).min(100) as u64)).collect();
                            exact_given = Some(need.clone());
                            push(&mut dec, &mut rng, sup, trace)?;
                        }
                        2 => {
                            // in pieces: must be requested again (non-coalescing), then delivered whole
                            let mut pieces = Vec::new();
                            for r in &need {
                                if r.end - r.start >= 2 {
                                    let m = r.start + 1 + rng.below((r.end - r.start - 1) as usize) as u64;
                                    pieces.push(r.start..m);
                                    pieces.push(m..r.end);
                                } else {
                                    pieces.push(r.clone());
                                }
                            }
                            let splittable = need.iter().any(|r| r.end - r.start >= 2);
                            push(&mut dec, &mut rng, pieces, trace)?;
                            if splittable {
                                match dec.try_decode().map_err(|e| e.to_string())? {
                                    DecodeResult::NeedsData(again) if again == need => {}
                                    other => return Ok(PqOut::Protocol(format!("split-delivery-not-rerequested:{}", msg_class(&format!("{other:?}"))))),
                                }
                                exact_given = Some(need.clone());
                                push(&mut dec, &mut rng, need, trace)?;
                            } else {
                                exact_given = Some(need.clone());
                            }
                        }
                        3 => {
                            // twice
                            let mut v = need.clone();
                            v.extend(need.clone());
                            exact_given = Some(need.clone());
                            push(&mut dec, &mut rng, v, trace)?;
                        }
                        4 => {
                            // with unrelated ranges around it
                            let mut v = need.clone();
                            for _ in 0..1 + rng.below(3) {
                                let a = rng.below(flen as usize) as u64;
                                v.push(a..a + rng.below((flen - a) as usize + 1).min(50) as u64);
                            }
                            exact_given = Some(need.clone());
                            push(&mut dec, &mut rng, v, trace)?;
                        }
                        _ => {
                            // everything from the request to the end of the file
                            let lo = need.iter().map(|r| r.start).min().unwrap();
                            exact_given = Some(need.clone());
                            push(&mut dec, &mut rng, vec![lo..flen], trace)?;
                        }
                    }
                    if aux != 0 && rng.chance(1, 10) {
                        // dropping all staged ranges only costs another round
                        dec.clear_all_ranges();
                        exact_given = None;
                        trace.push("clear_all_ranges".into());
                    }
                }
            }
        }
    });
    match r {
        Ok(Ok(o)) => o,
        Ok(Err(e)) => PqOut::Err(e),
        Err(p) => {
            if p.msg.starts_with("model:") || p.loc.contains("/harness/") {
                PqOut::Protocol(format!("model: {}", p.msg))
            } else {
                PqOut::Panic(p.file(), format!("{} @ {}", p.msg, p.loc))
            }
        }
    }
}

fn run_pull(file: &Bytes, pol: Pol) -> PqOut {
    match guard(|| ParquetMetaDataReader::new().with_column_index_policy(pol.column).with_offset_index_policy(pol.offset).parse_and_finish(file)) {
        Ok(Ok(m)) => PqOut::Meta(Box::new(m)),
        Ok(Err(e)) => PqOut::Err(e.to_string()),
        Err(p) => PqOut::Panic(p.file(), format!("{} @ {}", p.msg, p.loc)),
    }
}

fn same(a: &PqOut, b: &PqOut) -> Option<String> {
    match (a, b) {
        (PqOut::Meta(x), PqOut::Meta(y)) => {
            // `PartialEq` is not reflexive when a (corrupted) statistic holds a NaN: fall back to the
            // `Debug` rendering before calling two footers different
            if x == y || format!("{x:?}") == format!("{y:?}") {
                None
            } else if x.file_metadata() != y.file_metadata() {
                Some("file-metadata".into())
            } else if x.row_groups() != y.row_groups() {
                Some("row-groups".into())
            } else if x.page_index() != y.page_index() {
                Some("page-index".into())
            } else {
                Some("metadata".into())
            }
        }
        (PqOut::Err(_), PqOut::Err(_)) => None,
        _ if a.class() == b.class() => None,
        _ => Some(format!("outcome|{}->{}", a.class(), b.class())),
    }
}

fn check_file(ctx: &mut Ctx, rng: &mut Rng, file: &Bytes, pol: Pol, validity: &str, desc: &str, nsched: usize) {
    let mut t0 = Vec::new();
    let base = run_push(file, pol, 0, &mut t0);
    if let PqOut::Protocol(m) = &base {
        if m.starts_with("model:") {
            ctx.inconclusive(&format!("pq-meta: {m}"));
            return;
        }
    }
    ctx.count("pq-meta:inputs", 1);
    ctx.count(&format!("pq-meta:base-{}", base.class().split(':').next().unwrap_or("")), 1);
    let witness = |aux: u64, trace: &[String]| {
        let tail = &file[file.len().saturating_sub(48)..];
        format!(
            "{desc}\npolicies: column_index={:?} offset_index={:?}; file length {}; last bytes {}\ndelivery schedule aux={aux}:\n  {}",
            pol.column,
            pol.offset,
            file.len(),
            hex(tail),
            trace.iter().take(40).cloned().collect::<Vec<_>>().join("\n  ")
        )
    };
    // pull reader
    let pull = run_pull(file, pol);
    if let Some(what) = same(&base, &pull) {
        if validity == "valid" {
            ctx.violation(&format!("{P}|pq-meta|valid|reader-differs|{what}"), format!("{}\npush decoder (on demand): {}\nParquetMetaDataReader: {}", witness(0, &t0), base.text(), pull.text()));
        } else {
            ctx.count(&format!("pq-meta:reader-differs-on-invalid:{what}"), 1);
        }
    }
    if validity == "valid" && !matches!(base, PqOut::Meta(_)) {
        super::c14::side(ctx, "pq-meta", &format!("model-outcome-{}", base.class().split(':').next().unwrap_or("")), &format!("{}\nthe footer of a file written by ArrowWriter was not decoded: {}", witness(0, &t0), base.text()));
    }
    let broken = brk("pq-meta");
    let mut ran = 0u64;
    for k in 0..nsched {
        let aux = 1 + rng.u64() % 1_000_000_000;
        let mut tr = Vec::new();
        let mut got = run_push(file, pol, aux, &mut tr);
        ran += 1;
        if let PqOut::Protocol(m) = &got {
            if m.starts_with("model:") {
                ctx.inconclusive(&format!("pq-meta: {m}"));
                continue;
            }
        }
        if broken.is_some() && k % 7 == 3 {
            got = PqOut::Err("broken".into());
        }
        if let Some(what) = same(&base, &got) {
            // one root cause: `try_decode` in state `Finished` leaves the decoder in its internal
            // `Intermediate` state (next `try_decode` => Err, `push_range` accepted again)
            let sig = if what.contains("after-data") || what.contains("after-finished") { format!("{P}|pq-meta|state-lost-after-finished") } else { format!("{P}|pq-meta|{validity}|{what}") };
            ctx.violation(&sig, format!("{}\non demand delivery: {}\nthis schedule: {}\n--- on demand trace ---\n  {}", witness(aux, &tr), base.text(), got.text(), t0.join("\n  ")));
        }
    }
    ctx.evals_n(ran);
    ctx.count("schedules", ran);
    ctx.count("pq-meta:schedules", ran);
    let rg = match &base {
        PqOut::Meta(m) => m.num_row_groups(),
        _ => 0,
    };
    ctx.class(format!("pq-meta|{validity}|{:?}/{:?}|{}|rg{}", pol.column, pol.offset, base.class().split(':').next().unwrap_or(""), bucket(rg)));
    ctx.sample(|| format!("{}\n=> {}", witness(0, &t0), base.text()));
}

/// Deterministic part: one small file per case, valid policies, every shard-independent run sees it.
pub fn run_edge(ctx: &mut Ctx) {
    let mut wc = WriteCfg::standard();
    wc.gen_cfg.max_rows = 40;
    for i in ctx.cases("pq-edge", 3) {
        let mut rng = ctx.begin("pq-edge", i);
        // retry until the writer accepts a table
        for _ in 0..20 {
            let Ok(w) = pq::write_file(&mut rng, &wc) else { continue };
            let pol = Pol { column: PageIndexPolicy::Optional, offset: [PageIndexPolicy::Optional, PageIndexPolicy::Skip, PageIndexPolicy::Optional][i as usize % 3] };
            if !matches!(run_pull(&w.bytes, pol), PqOut::Meta(_)) {
                continue;
            }
            let desc: String = format!("origin: file from ArrowWriter; {}", w.desc.chars().take(700).collect::<String>());
            check_file(ctx, &mut rng, &w.bytes, pol, "valid", &desc, ctx.tier.pick(10, 40, 120));
            break;
        }
    }
}

pub fn run(ctx: &mut Ctx) {
    let total = ctx.tier.pick(4, 8_000, 300_000);
    let budget = Budget::new(ctx, 2.0, 5.0, 90.0);
    let mut wc = WriteCfg::standard();
    wc.gen_cfg.max_rows = 120;
    for i in super::c14::cases_from(ctx, "pq-meta", total) {
        if budget.over(ctx) {
            break;
        }
        let mut rng = ctx.begin("pq-meta", i);
        super::c14::case_done("pq-meta");
        let w = match pq::write_file(&mut rng, &wc) {
            Ok(w) => w,
            Err(f) => {
                match f.kind {
                    FailKind::Model => ctx.inconclusive(&format!("pq generator: {}", f.msg)),
                    _ => ctx.reject(),
                }
                continue;
            }
        };
        let file = w.bytes.clone();
        // not this property's subject: a footer the one-shot reader cannot decode
        if !matches!(run_pull(&file, Pol { column: PageIndexPolicy::Optional, offset: PageIndexPolicy::Optional }), PqOut::Meta(_)) {
            ctx.reject();
            ctx.count("pq-meta:pull-reader-failed-on-written-file", 1);
            continue;
        }
        let pol = Pol { column: *rng.pick(&POLS), offset: *rng.pick(&POLS) };
        let desc: String = format!("origin: file from ArrowWriter; {}", w.desc.chars().take(700).collect::<String>());
        let nsched = ctx.tier.pick(10, 60, 200);
        // `Required` on a file written without page index is an Err for every schedule alike
        let validity = if matches!(run_pull(&file, pol), PqOut::Meta(_)) { "valid" } else { "policy-unsatisfied" };
        check_file(ctx, &mut rng, &file, pol, validity, &desc, nsched);
        for _ in 0..ctx.tier.pick(1, 2, 3) {
            let mut bad = file.to_vec();
            let n = bad.len();
            let how = match rng.below(6) {
                0 => {
                    bad.truncate(n - 1 - rng.below(n.saturating_sub(9).max(1)).min(n - 9));
                    "truncate"
                }
                1 => {
                    // the metadata length field
                    let k = n - 8 + rng.below(4);
                    bad[k] = rng.u8();
                    "footer-length"
                }
                2 => {
                    let k = n - 4 + rng.below(4);
                    bad[k] ^= 1 << rng.below(8);
                    "magic"
                }
                3 => {
                    // inside the thrift footer
                    let mlen = u32::from_le_bytes(bad[n - 8..n - 4].try_into().unwrap()) as usize;
                    let lo = n.saturating_sub(8 + mlen);
                    let k = lo + rng.below((n - 8 - lo).max(1));
                    bad[k] ^= 1 << rng.below(8);
                    "footer-bitflip"
                }
                4 => {
                    // somewhere before the footer (page index / data)
                    let mlen = u32::from_le_bytes(bad[n - 8..n - 4].try_into().unwrap()) as usize;
                    let hi = n.saturating_sub(8 + mlen).max(1);
                    let k = hi - 1 - rng.below(hi.min(400));
                    bad[k] ^= 1 << rng.below(8);
                    "index-region-bitflip"
                }
                _ => {
                    let extra = 1 + rng.below(9);
                    bad.extend(rng.bytes(extra));
                    "append"
                }
            };
            if bad.len() < 8 {
                continue;
            }
            ctx.count(&format!("pq-meta:mutation-{how}"), 1);
            check_file(ctx, &mut rng, &Bytes::from(bad), pol, "mutated", &format!("{desc}\nvariant: {how}"), nsched / 2);
        }
    }
}
