//! C17: CSV, JSON and Avro writers and readers round-trip; three independent-decoder
//! differentials (serde_json both directions, an own RFC 4180 splitter, apache-avro both
//! directions).
//!
//! Sections (each case is replayable with `--section S --case N`):
//!   csv-rt      arrow-csv Writer -> own splitter (independent check of the text) -> arrow-csv Reader
//!   csv-split   RFC 4180 documents from a grammar -> arrow-csv Reader vs the generating fields
//!   json-rt     arrow-json Writer -> own parser + serde_json (vs input values) -> arrow-json Reader
//!   json-doc    RFC 8259 documents from a grammar -> serde_json (arbiter) -> arrow-json Reader
//!   avro-rt     arrow-avro Writer (OCF x codec / SOE x fingerprint strategy / Encoder rows)
//!               -> apache-avro Reader (independent) and arrow-avro Reader
//!   avro-ext    apache-avro Writer (own Avro schema generator: unions in both null orders,
//!               enums, fixed, decimals, logical types, nested named types) -> arrow-avro Reader
//!
//! Reusable entry points for later workloads (chunking, faults, corruption):
//!   csv::gen_case / csv::write_csv / csv::reader_builder / csv::expected
//!   json::gen_case / json::write_json / json::reader_builder / json::expected
//!   avro::gen_case / avro::write_avro / avro::read_avro / avro::expected
//!
//! not asserted (legitimate freedom, excluded by construction, see the per-format files):
//!   * formatting of the text (number/date spelling, quoting style chosen by the writer)
//!   * NaN sign/payload through text formats
//!   * CSV with a null sentinel equal to a value's text; JSON non-finite floats and
//!     implicit-null map entries; documented lossy Avro mappings (narrow ints widen,
//!     second -> millisecond, Time64(ns) -> micros, view/large/fixed-size layouts)
//!   * writer `Err` (and writer panics) are rejections: the property is conditional on the
//!     writer accepting its input. Reader `Err`/panic on writer-produced bytes is a violation
//!     unless the message says "not supported / not implemented".

use arrow_array::{Array, ArrayRef, RecordBatch, RecordBatchOptions};
use arrow_schema::{DataType, Field, Fields, IntervalUnit, Schema, SchemaRef, TimeUnit, UnionFields, UnionMode};
use std::sync::Arc;
use vcore::build::{build, realise};
use vcore::extract::extract;
use vcore::gens::{self, TypeCfg};
use vcore::mon::{Ctx, strip_digits};
use vcore::rng::Rng;
use vcore::val::Val;

#[path = "c17_csv.rs"]
pub mod csv;
#[path = "c17_json.rs"]
pub mod json;
#[path = "c17_avro.rs"]
pub mod avro;

/// The sections are interleaved in `CHUNKS` slices of their index ranges so that a deadline
/// cuts all of them proportionally instead of starving the last ones.
pub const CHUNKS: u64 = 8;

pub fn run(ctx: &mut Ctx) {
    for k in 0..CHUNKS {
        csv::run_rt(ctx, k);
        csv::run_split(ctx, k);
        json::run_rt(ctx, k);
        json::run_doc(ctx, k);
        avro::run_rt(ctx, k);
        avro::run_ext(ctx, k);
    }
}

/// This shard's case indices of `section` that fall into slice `k` (a replay runs once).
pub fn chunk_cases(ctx: &Ctx, section: &str, total: u64, k: u64) -> Vec<u64> {
    if ctx.only_case.is_some() {
        return if k == 0 { ctx.cases(section, total) } else { vec![] };
    }
    let lo = total * k / CHUNKS;
    let hi = total * (k + 1) / CHUNKS;
    ctx.cases(section, total).into_iter().filter(|i| *i >= lo && *i < hi).collect()
}

// ------------------------------------------------------------------ shared: cases

/// A generated (schema, logical columns, record batches) triple. `cols[c]` is the
/// whole logical column; `batches` cut it at `cuts` (row offsets) with a random
/// physical realisation per chunk.
#[derive(Clone)]
pub struct Case {
    pub schema: SchemaRef,
    pub cols: Vec<Vec<Val>>,
    pub batches: Vec<RecordBatch>,
}

impl Case {
    pub fn rows(&self) -> usize {
        self.cols.first().map(|c| c.len()).unwrap_or(0)
    }
    pub fn dump(&self) -> String {
        let mut s = String::new();
        for (f, c) in self.schema.fields().iter().zip(&self.cols) {
            s.push_str(&format!(
                "  {:?}: {}{} = {}\n",
                f.name(),
                f.data_type(),
                if f.is_nullable() { "" } else { " NOT NULL" },
                vcore::val::dump_vals(c)
            ));
        }
        s.push_str(&format!(
            "  batches: {:?}\n",
            self.batches.iter().map(|b| b.num_rows()).collect::<Vec<_>>()
        ));
        // physical layout of the input arrays (replay aid): C17_DUMP_DATA=<column index>
        if let Some(ci) = std::env::var("C17_DUMP_DATA").ok().and_then(|v| v.parse::<usize>().ok()) {
            for b in &self.batches {
                if let Some(c) = b.columns().get(ci) {
                    let d: String = format!("{:?}", c.to_data()).chars().take(6000).collect();
                    s.push_str(&format!("  data[{ci}]: {d}\n"));
                }
            }
        }
        s
    }
}

/// Cut the logical columns into 1..=3 record batches (empty batches allowed) and
/// realise each chunk with a random physical layout.
pub fn make_batches(rng: &mut Rng, schema: &SchemaRef, cols: &[Vec<Val>]) -> Vec<RecordBatch> {
    let n = cols.first().map(|c| c.len()).unwrap_or(0);
    let nb = *rng.pick(&[1usize, 1, 1, 2, 2, 3]);
    let mut cuts: Vec<usize> = (0..nb - 1).map(|_| rng.below(n + 1)).collect();
    cuts.sort();
    cuts.insert(0, 0);
    cuts.push(n);
    let mut out = Vec::new();
    for w in cuts.windows(2) {
        let (a, b) = (w[0], w[1]);
        let arrays: Vec<ArrayRef> = schema
            .fields()
            .iter()
            .zip(cols)
            .map(|(f, c)| {
                if rng.chance(3, 4) {
                    realise(rng, f.data_type(), &c[a..b])
                } else {
                    build(f.data_type(), &c[a..b])
                }
            })
            .collect();
        let rb = RecordBatch::try_new_with_options(
            schema.clone(),
            arrays,
            &RecordBatchOptions::new().with_row_count(Some(b - a)),
        );
        match rb {
            Ok(rb) => out.push(rb),
            Err(e) => panic!("model: RecordBatch::try_new: {e}"),
        }
    }
    out
}

/// Concatenate the logical content of read-back batches, column-wise.
pub fn extract_batches(batches: &[RecordBatch], ncols: usize) -> Vec<Vec<Val>> {
    let mut cols: Vec<Vec<Val>> = vec![Vec::new(); ncols];
    for b in batches {
        for (i, c) in b.columns().iter().enumerate() {
            if i < ncols {
                cols[i].extend(extract(c.as_ref()));
            }
        }
    }
    cols
}

// ------------------------------------------------------------------ shared: type generator

/// Which types a format's workload draws from.
pub struct Profile {
    /// flat leaf types (weights by repetition)
    pub prims: Vec<DataType>,
    /// value types under Dictionary / RunEndEncoded
    pub enc_vals: Vec<DataType>,
    pub dict_keys: Vec<DataType>,
    pub map_keys: Vec<DataType>,
    pub list: bool,
    pub large: bool,
    pub list_view: bool,
    pub fsl: bool,
    pub strukt: bool,
    pub map: bool,
    pub dict: bool,
    pub ree: bool,
    pub union: bool,
    pub non_nullable: bool,
    pub max_depth: u32,
}

const NAMES: [&str; 14] = [
    "a", "b", "c", "x", "id", "value", "key", "A", "a b", "é", "q\"t", "n\\l", "k,1", "",
];

/// `n` distinct field names; `plain` restricts to `[A-Za-z_][A-Za-z0-9_]*`.
pub fn gen_names(rng: &mut Rng, n: usize, plain: bool) -> Vec<String> {
    let mut out: Vec<String> = Vec::new();
    while out.len() < n {
        let i = out.len();
        let cand = if plain || rng.chance(3, 5) {
            format!("{}{}", *rng.pick(&["f", "c", "col_", "X"]), i)
        } else {
            let b = *rng.pick(&NAMES);
            if rng.bool() { b.to_string() } else { format!("{b}{i}") }
        };
        if !out.contains(&cand) {
            out.push(cand);
        }
    }
    out
}

fn nested_field(rng: &mut Rng, name: &str, dt: DataType, p: &Profile) -> Field {
    let must = matches!(
        dt,
        DataType::Null | DataType::Union(_, _) | DataType::Dictionary(_, _) | DataType::RunEndEncoded(_, _)
    );
    let nullable = must || !(p.non_nullable && rng.chance(1, 5));
    Field::new(name, dt, nullable)
}

pub fn gen_ty(rng: &mut Rng, p: &Profile, depth: u32, plain_names: bool) -> DataType {
    use DataType::*;
    if depth == 0 || rng.chance(2, 5) {
        let k = rng.below(12);
        if k == 0 && p.dict {
            let key = rng.pick(&p.dict_keys).clone();
            // 8-bit keys only at top level (bounded distinct count there)
            let key = if depth < p.max_depth && matches!(key, Int8 | UInt8) { Int32 } else { key };
            return Dictionary(Box::new(key), Box::new(rng.pick(&p.enc_vals).clone()));
        }
        if k == 1 && p.ree {
            let re = rng.pick(&[Int16, Int32, Int64]).clone();
            return RunEndEncoded(
                Arc::new(Field::new("run_ends", re, false)),
                Arc::new(Field::new("values", rng.pick(&p.enc_vals).clone(), true)),
            );
        }
        return rng.pick(&p.prims).clone();
    }
    loop {
        match rng.below(10) {
            0 | 1 if p.list => {
                let c = gen_ty(rng, p, depth - 1, plain_names);
                let f = Arc::new(nested_field(rng, "item", c, p));
                return if p.large && rng.chance(1, 4) { LargeList(f) } else { List(f) };
            }
            2 if p.list_view => {
                let c = gen_ty(rng, p, depth - 1, plain_names);
                let f = Arc::new(nested_field(rng, "item", c, p));
                return if p.large && rng.chance(1, 3) { LargeListView(f) } else { ListView(f) };
            }
            3 if p.fsl => {
                let c = gen_ty(rng, p, depth - 1, plain_names);
                let n = *rng.pick(&[0, 1, 2, 3]);
                return FixedSizeList(Arc::new(nested_field(rng, "item", c, p)), n);
            }
            4 | 5 if p.strukt => {
                let n = 1 + rng.below(3);
                let names = gen_names(rng, n, plain_names);
                let fs: Vec<Field> = names
                    .iter()
                    .map(|nm| {
                        let c = gen_ty(rng, p, depth - 1, plain_names);
                        nested_field(rng, nm, c, p)
                    })
                    .collect();
                return Struct(Fields::from(fs));
            }
            6 | 7 if p.map => {
                let kt = rng.pick(&p.map_keys).clone();
                let vt = gen_ty(rng, p, depth - 1, plain_names);
                let vf = nested_field(rng, "value", vt, p);
                let entries = Struct(Fields::from(vec![Field::new("key", kt, false), vf]));
                return Map(Arc::new(Field::new("entries", entries, false)), false);
            }
            8 if p.union => {
                // dense union of distinct flat branch types
                let n = 1 + rng.below(3);
                let mut bts: Vec<DataType> = Vec::new();
                let mut guard = 0;
                while bts.len() < n && guard < 50 {
                    guard += 1;
                    let t = if rng.chance(1, 4) && depth > 1 {
                        gen_ty(rng, p, depth - 1, plain_names)
                    } else {
                        rng.pick(&p.prims).clone()
                    };
                    if matches!(t, Union(_, _) | Null) {
                        continue;
                    }
                    if !bts.iter().any(|b| std::mem::discriminant(b) == std::mem::discriminant(&t)) {
                        bts.push(t);
                    }
                }
                let ids: Vec<i8> = if rng.chance(1, 3) {
                    let mut v: Vec<i8> = Vec::new();
                    while v.len() < bts.len() {
                        let c = rng.below(100) as i8;
                        if !v.contains(&c) {
                            v.push(c);
                        }
                    }
                    v
                } else {
                    (0..bts.len() as i8).collect()
                };
                let fs: Vec<Field> = bts
                    .into_iter()
                    .enumerate()
                    .map(|(i, t)| Field::new(format!("u{i}"), t, true))
                    .collect();
                let mode = if rng.chance(1, 6) { UnionMode::Sparse } else { UnionMode::Dense };
                return Union(UnionFields::try_new(ids, fs).unwrap(), mode);
            }
            9 => return gen_ty(rng, p, 0, plain_names),
            _ => continue,
        }
    }
}

pub fn value_cfg() -> TypeCfg {
    let mut c = TypeCfg::all();
    c.wild_temporal = false;
    c.wild_decimal = false;
    c
}

// ------------------------------------------------------------------ shared: value walking

/// Visit every non-null leaf value with its leaf data type (encodings removed).
pub fn walk_leaves(dt: &DataType, v: &mut Val, f: &mut dyn FnMut(&DataType, &mut Val)) {
    use DataType::*;
    if v.is_null() {
        return;
    }
    match (dt, v) {
        (List(fl) | LargeList(fl) | ListView(fl) | LargeListView(fl) | FixedSizeList(fl, _), Val::List(xs)) => {
            for x in xs.iter_mut() {
                walk_leaves(fl.data_type(), x, f);
            }
        }
        (Map(e, _), Val::List(xs)) => {
            let Struct(kv) = e.data_type() else { panic!("model: map entries") };
            for x in xs.iter_mut() {
                if let Val::Struct(p) = x {
                    walk_leaves(kv[0].data_type(), &mut p[0], f);
                    walk_leaves(kv[1].data_type(), &mut p[1], f);
                }
            }
        }
        (Struct(fs), Val::Struct(xs)) => {
            for (fl, x) in fs.iter().zip(xs.iter_mut()) {
                walk_leaves(fl.data_type(), x, f);
            }
        }
        (Union(ufs, _), Val::Union(t, x)) => {
            if let Some((_, fl)) = ufs.iter().find(|(id, _)| id == t) {
                walk_leaves(fl.data_type(), x, f);
            }
        }
        (Dictionary(_, vt), x) => walk_leaves(vt, x, f),
        (RunEndEncoded(_, vf), x) => walk_leaves(vf.data_type(), x, f),
        (leaf, x) => f(leaf, x),
    }
}

pub fn walk_col(dt: &DataType, col: &mut [Val], f: &mut dyn FnMut(&DataType, &mut Val)) {
    for v in col.iter_mut() {
        walk_leaves(dt, v, f);
    }
}

/// true if any type node satisfies the predicate
pub fn type_any(dt: &DataType, p: &dyn Fn(&DataType) -> bool) -> bool {
    use DataType::*;
    if p(dt) {
        return true;
    }
    match dt {
        List(f) | LargeList(f) | ListView(f) | LargeListView(f) | FixedSizeList(f, _) | Map(f, _) => {
            type_any(f.data_type(), p)
        }
        Struct(fs) => fs.iter().any(|f| type_any(f.data_type(), p)),
        Union(ufs, _) => ufs.iter().any(|(_, f)| type_any(f.data_type(), p)),
        Dictionary(_, v) => type_any(v, p),
        RunEndEncoded(_, v) => type_any(v.data_type(), p),
        _ => false,
    }
}

/// Keep temporal values inside years 0001..=9999 (what every text parser accepts)
/// unless the case explores the wild range.
pub fn tame_temporal(rng: &mut Rng, dt: &DataType, v: &mut Val) {
    match (dt, &*v) {
        (DataType::Date32, Val::Int(x)) => {
            if *x < -719_162 || *x > 2_932_896 {
                *v = Val::Int(gens::gen_int(rng, -719_162, 2_932_896));
            }
        }
        (DataType::Date64, Val::Int(x)) => {
            let d = x.div_euclid(86_400_000);
            if !(-719_162..=2_932_896).contains(&d) {
                *v = Val::Int(gens::gen_int(rng, -719_162, 2_932_896) * 86_400_000);
            }
        }
        (DataType::Timestamp(u, _), Val::Int(x)) => {
            let per: i128 = match u {
                TimeUnit::Second => 1,
                TimeUnit::Millisecond => 1_000,
                TimeUnit::Microsecond => 1_000_000,
                TimeUnit::Nanosecond => 1_000_000_000,
            };
            let s = x.div_euclid(per);
            // keep a day of slack at both ends for time-zone shifted spellings
            if !(-62_135_510_400..=253_402_214_400).contains(&s) {
                let ns = gens::gen_int(rng, -62_135_510_400, 253_402_214_400);
                let nv = ns * per + rng.below(per as usize) as i128;
                if nv >= i64::MIN as i128 && nv <= i64::MAX as i128 {
                    *v = Val::Int(nv);
                } else {
                    *v = Val::Int(gens::gen_int(rng, -1_000_000_000, 4_000_000_000) * per / 1);
                    if let Val::Int(q) = v {
                        if *q < i64::MIN as i128 || *q > i64::MAX as i128 {
                            *v = Val::Int(0);
                        }
                    }
                }
            }
        }
        _ => {}
    }
}

/// Move a (tamed) timestamp 9000 years ahead: five-digit years that chrono still formats.
pub fn far_future(dt: &DataType, v: &mut Val) {
    if let (DataType::Timestamp(u, _), Val::Int(x)) = (dt, &*v) {
        let per: i128 = match u {
            TimeUnit::Second => 1,
            TimeUnit::Millisecond => 1_000,
            TimeUnit::Microsecond => 1_000_000,
            TimeUnit::Nanosecond => return,
        };
        let nv = *x + 9000 * 31_556_952 * per;
        if nv <= i64::MAX as i128 {
            *v = Val::Int(nv);
        }
    }
}

pub fn tame_finite(rng: &mut Rng, dt: &DataType, v: &mut Val) {
    match (dt, &*v) {
        (DataType::Float64, Val::F64(b)) if !f64::from_bits(*b).is_finite() => {
            *v = Val::F64((rng.range(-1000, 1000) as f64 / 16.0).to_bits());
        }
        (DataType::Float32, Val::F32(b)) if !f32::from_bits(*b).is_finite() => {
            *v = Val::F32((rng.range(-1000, 1000) as f32 / 16.0).to_bits());
        }
        (DataType::Float16, Val::F16(b)) if !half::f16::from_bits(*b).is_finite() => {
            *v = Val::F16(half::f16::from_f32(rng.range(-100, 100) as f32 / 4.0).to_bits());
        }
        _ => {}
    }
}

// ------------------------------------------------------------------ shared: watchdog

/// Run `f` (under the panic monitor) on its own thread and give up after `secs` seconds:
/// `None` means it did not return. Wall-clock is not a verdict: callers count a timeout as
/// *inconclusive*. The abandoned thread keeps running until the process exits.
pub fn with_watchdog<T: Send + 'static>(
    secs: u64,
    f: impl FnOnce() -> T + Send + 'static,
) -> Option<Result<T, vcore::mon::PanicInfo>> {
    let (tx, rx) = std::sync::mpsc::channel();
    let h = std::thread::Builder::new().name("c17-reader".into()).spawn(move || {
        let r = vcore::guard(f);
        let _ = tx.send(r);
    });
    if h.is_err() {
        return None;
    }
    rx.recv_timeout(std::time::Duration::from_secs(secs)).ok()
}

// ------------------------------------------------------------------ shared: oracle self-test

fn mutate_val(v: &mut Val) -> bool {
    match v {
        Val::Null => false,
        Val::Bool(b) => {
            *b = !*b;
            true
        }
        Val::Int(i) => {
            *i = if *i > 0 { *i - 1 } else { *i + 1 };
            true
        }
        Val::Big(b) => {
            *b = b.wrapping_add(arrow_buffer::i256::ONE);
            true
        }
        Val::F16(b) => {
            *b = if *b == 0x3C00 { 0x4000 } else { 0x3C00 };
            true
        }
        Val::F32(b) => {
            *b = if *b == 0x3F80_0000 { 0x4000_0000 } else { 0x3F80_0000 };
            true
        }
        Val::F64(b) => {
            *b = if *b == 0x3FF0_0000_0000_0000 { 0x4000_0000_0000_0000 } else { 0x3FF0_0000_0000_0000 };
            true
        }
        Val::Bytes(b) => {
            if let Some(x) = b.first_mut() {
                *x ^= 1;
                true
            } else {
                false
            }
        }
        Val::Str(s) => {
            s.push('x');
            true
        }
        Val::IntervalDT(d, _) => {
            *d ^= 1;
            true
        }
        Val::IntervalMDN(m, _, _) => {
            *m ^= 1;
            true
        }
        Val::List(xs) | Val::Struct(xs) => xs.iter_mut().any(mutate_val),
        Val::Union(_, x) => mutate_val(x),
    }
}

/// Oracle self-test: with `C17_MUTATE=<section>` the *expectation* of that section is
/// falsified in one cell (the first one that can be changed), so every case with data must
/// be reported. Never set in normal runs.
pub fn selftest_mutate(section: &str, cols: &mut [Vec<Val>]) {
    if std::env::var("C17_MUTATE").ok().as_deref() != Some(section) {
        return;
    }
    for c in cols.iter_mut() {
        for v in c.iter_mut() {
            if mutate_val(v) {
                return;
            }
        }
    }
}

// ------------------------------------------------------------------ shared: comparison

/// NaNs are compared as a class (sign/payload are not asserted through text formats).
pub fn canon(v: &Val) -> Val {
    match v {
        Val::F16(b) if half::f16::from_bits(*b).is_nan() => Val::F16(0x7E00),
        Val::F32(b) if f32::from_bits(*b).is_nan() => Val::F32(0x7FC0_0000),
        Val::F64(b) if f64::from_bits(*b).is_nan() => Val::F64(0x7FF8_0000_0000_0000),
        Val::List(xs) => Val::List(xs.iter().map(canon).collect()),
        Val::Struct(xs) => Val::Struct(xs.iter().map(canon).collect()),
        Val::Union(t, x) => Val::Union(*t, Box::new(canon(x))),
        other => other.clone(),
    }
}

/// First difference between an expected and an observed value, descending through
/// nested types: (leaf type class, kind) with kind in {null, value, len, shape}.
pub fn diff_val(dt: &DataType, exp: &Val, got: &Val) -> Option<(String, &'static str)> {
    use DataType::*;
    if canon(exp) == canon(got) {
        return None;
    }
    let here = |k: &'static str| Some((family(dt), k));
    match (exp, got) {
        (Val::Null, _) | (_, Val::Null) => here("null"),
        (Val::List(a), Val::List(b)) => {
            if a.len() != b.len() {
                return here("len");
            }
            let child: Option<DataType> = match dt {
                List(f) | LargeList(f) | ListView(f) | LargeListView(f) | FixedSizeList(f, _) => {
                    Some(f.data_type().clone())
                }
                Map(e, _) => Some(e.data_type().clone()),
                Dictionary(_, v) => return diff_val(v, exp, got),
                RunEndEncoded(_, v) => return diff_val(v.data_type(), exp, got),
                _ => None,
            };
            let Some(child) = child else { return here("shape") };
            for (x, y) in a.iter().zip(b) {
                if let Some(d) = diff_val(&child, x, y) {
                    return Some(d);
                }
            }
            here("value")
        }
        (Val::Struct(a), Val::Struct(b)) => {
            let fs = match dt {
                Struct(fs) => fs.clone(),
                Dictionary(_, v) => return diff_val(v, exp, got),
                RunEndEncoded(_, v) => return diff_val(v.data_type(), exp, got),
                _ => return here("shape"),
            };
            if a.len() != b.len() || a.len() != fs.len() {
                return here("shape");
            }
            for ((x, y), f) in a.iter().zip(b).zip(fs.iter()) {
                if let Some(d) = diff_val(f.data_type(), x, y) {
                    return Some(d);
                }
            }
            here("value")
        }
        (Val::Union(ta, a), Val::Union(tb, b)) => {
            if ta != tb {
                return here("type-id");
            }
            if let Union(ufs, _) = dt {
                if let Some((_, f)) = ufs.iter().find(|(id, _)| id == ta) {
                    return diff_val(f.data_type(), a, b);
                }
            }
            here("value")
        }
        _ => here("value"),
    }
}

/// Compare two logical columns; `Some((row, leaf class, kind))` at the first difference.
pub fn diff_col(dt: &DataType, exp: &[Val], got: &[Val]) -> Option<(usize, String, &'static str)> {
    if exp.len() != got.len() {
        return Some((exp.len().min(got.len()), family(dt), "row-count"));
    }
    for (i, (e, g)) in exp.iter().zip(got).enumerate() {
        if let Some((c, k)) = diff_val(dt, e, g) {
            return Some((i, c, k));
        }
    }
    None
}

/// Type *family* used in signatures: no widths, units, precisions, key types or field names.
/// Encodings and containers are named by kind; the two degenerate shapes that behave
/// differently in the formats (negative decimal scale, zero-width fixed binary) are kept apart.
pub fn family(dt: &DataType) -> String {
    use DataType::*;
    match dt {
        Null => "Null",
        Boolean => "Boolean",
        Int8 | Int16 | Int32 | Int64 | UInt8 | UInt16 | UInt32 | UInt64 => "Int",
        Float16 | Float32 | Float64 => "Float",
        Utf8 | LargeUtf8 | Utf8View => "String",
        Binary | LargeBinary | BinaryView => "Binary",
        FixedSizeBinary(0) => "FixedSizeBinary(0)",
        FixedSizeBinary(_) => "FixedSizeBinary",
        Date32 | Date64 => "Date",
        Time32(_) | Time64(_) => "Time",
        Timestamp(_, _) => "Timestamp",
        Duration(_) => "Duration",
        Interval(_) => "Interval",
        Decimal32(_, s) | Decimal64(_, s) | Decimal128(_, s) | Decimal256(_, s) => {
            if *s < 0 { "Decimal(neg-scale)" } else { "Decimal" }
        }
        List(_) | LargeList(_) | ListView(_) | LargeListView(_) | FixedSizeList(_, _) => "List",
        Struct(_) => "Struct",
        Map(_, _) => "Map",
        Union(_, _) => "Union",
        Dictionary(_, _) => "Dict",
        RunEndEncoded(_, _) => "REE",
    }
    .to_string()
}

/// The family of an error message: wrapper prefixes ("Parser error: ", "whilst decoding field
/// 'x': ", "Error parsing column 3 at line 7: " ...), quoted text, parenthesised payloads and
/// digits are removed; what remains is the first sentence that says what went wrong. A reader
/// choking on text that starts with a word of three or more letters (e.g. an error message that
/// was written as data) keeps that word.
pub fn err_family(m: &str) -> String {
    // `failed to parse "<text>" as <type>[(params)][: cause]` -- the text may contain quotes
    if let Some(p) = m.find("failed to parse \"") {
        let rest = &m[p + 17..];
        if let Some(q) = rest.rfind("\" as ") {
            let text = rest[..q].trim_start_matches(['+', '-']);
            let word: String = text.chars().take_while(|c| c.is_ascii_alphabetic()).collect();
            let word = if word.len() >= 3 { word } else { String::new() };
            let ty = &rest[q + 5..];
            let ty = ty.split([':', '(']).next().unwrap_or("");
            return format!("failed to parse {word}_ as {}", strip_digits(ty.trim()));
        }
    }
    // quoted text -> _, (payload) -> removed
    let mut out = String::new();
    let mut q: Option<char> = None;
    let mut depth = 0;
    for c in m.chars() {
        match q {
            Some(qc) => {
                if c == qc {
                    q = None;
                }
            }
            None => match c {
                '\'' | '"' => {
                    q = Some(c);
                    out.push('_');
                }
                '(' => depth += 1,
                ')' if depth > 0 => depth -= 1,
                _ if depth > 0 => {}
                _ => out.push(c),
            },
        }
    }
    let out = strip_digits(&out);
    const WRAPPERS: [&str; 16] = [
        "parser error", "avro error", "arrow", "invalid argument error", "invalid argument", "json error",
        "csv error", "schema error", "external error", "io error", "compute error", "cast error", "parse error",
        "general error", "external format error", "not yet implemented",
    ];
    for seg in out.split(": ") {
        let s = seg.trim().trim_end_matches('.');
        let l = s.to_ascii_lowercase();
        if s.is_empty()
            || WRAPPERS.contains(&l.as_str())
            || l.starts_with("whilst decoding field")
            || l.starts_with("error parsing column")
            || l.starts_with("error processing row")
        {
            continue;
        }
        let s: String = s.split(". ").next().unwrap_or(s).chars().take(90).collect();
        // "expected [ got null" / "expected { got null": one family
        let s = s.replace("expected [ got", "expected container got").replace("expected { got", "expected container got");
        return s.trim().to_string();
    }
    out.chars().take(90).collect()
}

/// Stable part of an error message: quoted substrings and digits removed.
pub fn norm_msg(m: &str) -> String {
    let mut out = String::new();
    let mut q: Option<char> = None;
    for c in m.chars() {
        match q {
            Some(qc) => {
                if c == qc {
                    q = None;
                    out.push(c);
                }
            }
            None => {
                if c == '\'' || c == '"' {
                    q = Some(c);
                    out.push(c);
                    out.push('_');
                } else {
                    out.push(c);
                }
            }
        }
    }
    strip_digits(&out).chars().take(110).collect()
}

pub fn short_bytes(b: &[u8]) -> String {
    let s = String::from_utf8_lossy(b);
    let s: String = s.chars().take(1500).collect();
    format!("{s:?}")
}

pub fn all_time_units() -> [TimeUnit; 4] {
    gens::TIME_UNITS
}

pub fn interval_units() -> [IntervalUnit; 3] {
    [IntervalUnit::YearMonth, IntervalUnit::DayTime, IntervalUnit::MonthDayNano]
}

/// schema equality that ignores metadata
pub fn same_fields(a: &Schema, b: &Schema) -> bool {
    a.fields().len() == b.fields().len()
        && a.fields().iter().zip(b.fields().iter()).all(|(x, y)| {
            x.name() == y.name() && x.data_type() == y.data_type() && x.is_nullable() == y.is_nullable()
        })
}

pub fn arr_len(a: &dyn Array) -> usize {
    a.len()
}
