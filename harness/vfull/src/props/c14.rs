//! C14: incremental (push style) decoders are independent of how the input is chunked.
//!
//! Events: for one byte string (or message sequence) and one decoder configuration, the schema,
//! the concatenated rows, the batch sizes and the final outcome (`Ok` / `Err(msg)` / panic) observed
//! when the real decoder is driven under a *chunk schedule*: a sequence of chunk lengths (zeros
//! included where the protocol allows them) plus the optional protocol decisions (where to
//! `flush`, whether to re-offer unconsumed bytes, how the `Buffer`s / `Bytes` are laid out).
//!
//! Oracle (per input, per configuration): every schedule yields the same schema, the same rows in
//! the same order and the same outcome as the single-chunk run; no batch exceeds the batch size;
//! for valid inputs the single-chunk run equals the one-shot pull reader and (for the inputs this
//! file generates from a value model) the model rows. For invalid inputs: same outcome class and
//! prefix-compatible rows.
//!
//! Sections (decoder x input family). Phase 1 (identical for every seed, run first):
//! * `csv-exh`, `json-exh`, `avro-exh` – hand-built edge inputs (CRLF / quotes / escapes at a cut,
//!   split UTF-8 and surrogate pairs, exponents, literals, wide varints, prefixes, schema switches,
//!   invalid inputs) x batch sizes 1, 2, 3, 1024: all 2^(n-1) partitions of the input (n <= 14) or of
//!   12 byte windows over a longer input, each under the minimal and the eager flush protocol
//! * `ipc-edge`, `pq-edge` – fixed streams (empty, EOS only, EOS twice, dense union column, zero-row
//!   batch at the end without EOS marker) and three small Parquet files
//! Phase 2 (generated; two passes of 20 % + 80 % of the budget so that a starved shard still visits
//! every decoder):
//! * `csv`, `json`        – generated tables -> text (own writer with random quoting / escapes /
//!   terminators / comments / whitespace / unicode escapes / unknown keys, and the arrow-csv /
//!   arrow-json writers), corrupted variants; every single split point (inputs <= 2000 bytes, else a
//!   sample), bytewise, fixed sizes, random multi-splits (with empty chunks for JSON); the same
//!   slices through `BufReader` / `Reader` over a `BufRead` (`csv-bufread`, `json-bufread`)
//! * `avro-soe`           – `arrow_avro::reader::Decoder` with single-object (Rabin), Confluent (Id)
//!   and Id64 framing, 1-3 writer schemas switching mid stream, hand-encoded bodies (14 field
//!   kinds, multi-block arrays / maps with negative counts); rolling buffer protocol
//! * `avro-ocf`           – `arrow_avro::reader::Reader` over a `BufRead` whose `fill_buf` returns
//!   arbitrary slices (hand-encoded container files: several header map blocks, zero-row blocks;
//!   files re-written by `AvroWriter` with every codec), `read_header_info`
//! * `ipc`                – `StreamDecoder` over `StreamWriter` / `StreamEncoder` output (c04gen),
//!   EOS-less, truncated, trailing-garbage and corrupted variants; chunks in own allocations or as
//!   zero-copy slices of an aligned / odd / shifted buffer; 12 byte windows over message prefixes
//! * `pq-meta`            – `ParquetMetaDataPushDecoder`: on-demand ranges, prefetch of any suffix /
//!   the whole file / pieces, supersets, split deliveries (re-requested), duplicates, shuffled
//!   order, redundant `try_decode`, `clear_all_ranges`; all 3x3 index policies; corrupted footers
//! * `flight`             – `FlightRecordBatchStream` over a `FlightData` stream with arbitrary
//!   `Pending` schedule (all 0/1 patterns for <= 10 messages), body placement (64-aligned / odd
//!   address), wake-up discipline, fused end, error items and protocol violations
//!
//! Counters: `schedules` (distinct chunk schedules run, also per decoder), `exhaustive-partition-sets`
//! / `exhaustive-window-sets` (completely enumerated partition spaces), `side:*` (chunk independent
//! deviations of the single chunk output from the value model: observed, not judged).
//!
//! not asserted:
//! * batch *boundaries* (only every batch size <= limit, row order and content);
//! * CSV: an empty slice passed to `Decoder::decode` is the documented end-of-input marker
//!   ("the decoder needs to be called with an empty array to delimit the final record"), so empty
//!   chunks are only fed at the end of the input; `flush` only after `decode` returned 0 or
//!   `capacity() == 0` (what `BufReader` does);
//! * JSON: `flush` only when `!has_partial_record()`;
//! * Avro `Decoder`: unconsumed bytes are re-offered together with the next chunk (documented
//!   rolling buffer); bytes still unconsumed at the end of the input are part of the outcome class
//!   (`leftover`), their number is not compared for invalid inputs;
//! * IPC `with_require_alignment(true)`: alignment errors depend on the memory address of the
//!   caller's buffers, not on the byte sequence; schedules whose outcome is an alignment error are
//!   only counted;
//! * Parquet push decoder: `PushBuffers` is documented as non-coalescing, a requested range that is
//!   delivered in pieces is requested again (asserted: it *is* requested again, never an error);
//! * error *messages* are compared after digit stripping for the text decoders and only as
//!   `Ok/Err/panic` class for IPC / Avro / Parquet / Flight (messages embed offsets that
//!   legitimately depend on what was buffered);
//! * equality with the pull reader for *invalid* inputs (readers differ legitimately in what
//!   they tolerate at EOF); it is only counted (`reader-differs-on-invalid:*`);
//! * chunk independent panics on corrupt input (C08's subject): outcome class `panic` must merely
//!   be the same for every schedule.

use arrow_array::RecordBatch;
use arrow_schema::SchemaRef;
use std::collections::HashSet;
use vcore::extract::extract;
use vcore::mon::{Ctx, PanicInfo, strip_digits};
use vcore::rng::Rng;
use vcore::val::{Val, dump_vals};

pub const P: &str = "C14";

// ------------------------------------------------------------------ schedules

/// A chunk schedule: consecutive chunk lengths (sum = input length; zeros allowed) and `aux`,
/// the seed of the optional protocol decisions (0 = minimal protocol, 1 = every optional action,
/// anything else = random per decision).
#[derive(Clone, Debug, PartialEq, Eq, Hash)]
pub struct Sched {
    pub lens: Vec<usize>,
    pub aux: u64,
    pub kind: &'static str,
}

impl Sched {
    pub fn whole(n: usize) -> Sched {
        Sched { lens: vec![n], aux: 0, kind: "whole" }
    }
    pub fn describe(&self) -> String {
        let mut s = format!("{} aux={} chunks={} [", self.kind, self.aux, self.lens.len());
        for (i, l) in self.lens.iter().enumerate() {
            if i > 0 {
                s.push(',');
            }
            if s.len() > 400 {
                s.push_str("..");
                break;
            }
            s.push_str(&l.to_string());
        }
        s.push(']');
        s
    }
    /// cut positions (cumulative sums, without the end)
    pub fn chunks<'a>(&self, data: &'a [u8]) -> Vec<&'a [u8]> {
        let mut out = Vec::with_capacity(self.lens.len());
        let mut p = 0;
        for l in &self.lens {
            let e = (p + l).min(data.len());
            out.push(&data[p..e]);
            p = e;
        }
        if p < data.len() {
            out.push(&data[p..]);
        }
        out
    }
}

/// Optional protocol decisions of one run.
pub struct Decide {
    mode: u64,
    rng: Rng,
}

impl Decide {
    pub fn new(aux: u64) -> Decide {
        Decide { mode: aux, rng: Rng::new(aux) }
    }
    /// take an optional action?
    pub fn opt(&mut self) -> bool {
        match self.mode {
            0 => false,
            1 => true,
            _ => self.rng.chance(1, 3),
        }
    }
    pub fn below(&mut self, n: usize) -> usize {
        match self.mode {
            0 => 0,
            1 => n.saturating_sub(1),
            _ => self.rng.below(n),
        }
    }
}

#[derive(Clone, Debug)]
pub struct Plan {
    /// every single split point if the input is at most this long, else a sample of this many
    pub singles_max: usize,
    /// extra split points that are always taken (message boundaries ...)
    pub points: Vec<usize>,
    pub bytewise: bool,
    pub fixed: Vec<usize>,
    pub random: usize,
    /// allow zero-length chunks
    pub empties: bool,
    /// aux values used for the deterministic schedule kinds
    pub auxes: Vec<u64>,
    /// windows (start, width<=13) whose partitions are enumerated completely
    pub windows: Vec<(usize, usize)>,
}

impl Plan {
    pub fn standard(singles_max: usize, random: usize, empties: bool) -> Plan {
        Plan { singles_max, points: vec![], bytewise: true, fixed: vec![2, 3, 5, 7, 8, 16, 64], random, empties, auxes: vec![0, 1], windows: vec![] }
    }
}

/// all 2^(w-1) partitions of `w` bytes as chunk length lists
pub fn partitions(w: usize, mut f: impl FnMut(&[usize])) {
    if w == 0 {
        f(&[]);
        return;
    }
    let mut lens: Vec<usize> = Vec::with_capacity(w);
    for mask in 0u32..(1u32 << (w - 1)) {
        lens.clear();
        let mut cur = 1;
        for b in 0..w - 1 {
            if mask >> b & 1 == 1 {
                lens.push(cur);
                cur = 1;
            } else {
                cur += 1;
            }
        }
        lens.push(cur);
        f(&lens);
    }
}

pub fn random_lens(rng: &mut Rng, n: usize, empties: bool) -> Vec<usize> {
    let mut lens = Vec::new();
    let mut left = n;
    // style: tiny chunks, geometric, few big ones
    let style = rng.below(4);
    let cap = match style {
        0 => 3,
        1 => 9,
        2 => 1 + n / 3,
        _ => 1 + n,
    };
    while left > 0 {
        if empties && rng.chance(1, 6) {
            lens.push(0);
            continue;
        }
        let l = (1 + rng.below(cap)).min(left);
        lens.push(l);
        left -= l;
    }
    if empties {
        if rng.chance(1, 4) {
            lens.insert(0, 0);
        }
        if rng.chance(1, 4) {
            lens.push(0);
        }
    }
    if lens.is_empty() {
        lens.push(0);
    }
    lens
}

/// The schedule set of one input (deduplicated; the single-chunk schedule is not included).
pub fn schedules(rng: &mut Rng, n: usize, plan: &Plan) -> Vec<Sched> {
    let mut seen: HashSet<Sched> = HashSet::new();
    let mut out = Vec::new();
    let mut push = |s: Sched, out: &mut Vec<Sched>| {
        if s.lens.len() == 1 && s.aux == 0 {
            return;
        }
        if seen.insert(s.clone()) {
            out.push(s);
        }
    };
    let auxes = if plan.auxes.is_empty() { vec![0] } else { plan.auxes.clone() };
    if n >= 2 {
        let mut pts: Vec<usize> = if n - 1 <= plan.singles_max {
            (1..n).collect()
        } else {
            let mut v: Vec<usize> = (0..plan.singles_max).map(|_| 1 + rng.below(n - 1)).collect();
            for k in 1..=8.min(n - 1) {
                v.push(k);
                v.push(n - k);
            }
            v
        };
        for p in &plan.points {
            for d in 0..3usize {
                for q in [p.wrapping_sub(d), p + d] {
                    if q >= 1 && q < n {
                        pts.push(q);
                    }
                }
            }
        }
        pts.sort_unstable();
        pts.dedup();
        for (i, k) in pts.iter().enumerate() {
            let aux = auxes[i % auxes.len()];
            push(Sched { lens: vec![*k, n - k], aux, kind: "single" }, &mut out);
        }
    }
    for a in &auxes {
        push(Sched { lens: vec![n], aux: *a, kind: "whole" }, &mut out);
        if plan.bytewise && n >= 1 {
            push(Sched { lens: vec![1; n], aux: *a, kind: "bytewise" }, &mut out);
        }
    }
    for (i, k) in plan.fixed.iter().enumerate() {
        if *k < n {
            let mut lens = vec![*k; n / k];
            if n % k != 0 {
                lens.push(n % k);
            }
            push(Sched { lens, aux: auxes[i % auxes.len()], kind: "fixed" }, &mut out);
            // shifted by a short first chunk
            let first = 1 + rng.below(*k);
            if first < n {
                let rest = n - first;
                let mut lens = vec![first];
                lens.extend(std::iter::repeat(*k).take(rest / k));
                if rest % k != 0 {
                    lens.push(rest % k);
                }
                push(Sched { lens, aux: 2 + rng.u64() % 1000, kind: "fixed" }, &mut out);
            }
        }
    }
    for (start, w) in &plan.windows {
        let (start, w) = (*start.min(&n), *w);
        let w = w.min(n - start).min(13);
        if w < 2 {
            continue;
        }
        let rest = n - start - w;
        partitions(w, |p| {
            let mut lens = Vec::with_capacity(p.len() + 2);
            if start > 0 {
                lens.push(start);
            }
            lens.extend_from_slice(p);
            if rest > 0 {
                lens.push(rest);
            }
            push(Sched { lens, aux: 0, kind: "window" }, &mut out);
        });
    }
    for _ in 0..plan.random {
        let lens = random_lens(rng, n, plan.empties);
        let aux = match rng.below(4) {
            0 => 0,
            1 => 1,
            _ => 2 + rng.u64() % 1_000_000,
        };
        push(Sched { lens, aux, kind: "random" }, &mut out);
    }
    out
}

/// all partitions of the whole input (n <= 13) under each aux
pub fn exhaustive_schedules(n: usize, auxes: &[u64]) -> Vec<Sched> {
    let mut out = Vec::new();
    for a in auxes {
        partitions(n, |p| out.push(Sched { lens: p.to_vec(), aux: *a, kind: "partition" }));
    }
    out
}

// ------------------------------------------------------------------ observations

#[derive(Clone, Debug)]
pub enum Out {
    Ok,
    Err(String),
    Panic(PanicInfo),
}

impl Out {
    pub fn class(&self) -> &'static str {
        match self {
            Out::Ok => "ok",
            Out::Err(_) => "err",
            Out::Panic(_) => "panic",
        }
    }
    pub fn text(&self) -> String {
        match self {
            Out::Ok => "Ok".into(),
            Out::Err(m) => format!("Err({m})"),
            Out::Panic(p) => format!("panic({} @ {})", p.msg, p.loc),
        }
    }
    pub fn is_harness(&self) -> bool {
        match self {
            Out::Panic(p) => p.msg.starts_with("model:") || p.loc.contains("/harness/"),
            _ => false,
        }
    }
}

/// short stable class of a message (no values, no numbers)
pub fn msg_class(m: &str) -> String {
    // errors surfacing in `flush` report whatever inconsistent state was built up: one class
    if m.starts_with("flush:") {
        return "flush".into();
    }
    let m = strip_digits(m);
    let m = m.split(['"', '\'', '`']).next().unwrap_or("");
    m.chars().take(56).collect::<String>().trim().to_string()
}

/// What one run of a decoder produced.
#[derive(Clone, Debug)]
pub struct Obs {
    /// runs of batches with one schema: (schema, concatenated column values)
    pub segs: Vec<(SchemaRef, Vec<Vec<Val>>)>,
    pub batch_rows: Vec<usize>,
    /// schema reported by the decoder itself (if it has such an accessor)
    pub decl: Option<SchemaRef>,
    pub out: Out,
    /// additional outcome facts that must be chunk independent ("leftover", "truncated-rows=2")
    pub tail: String,
    /// facts that are only counted
    pub notes: Vec<String>,
}

impl Obs {
    pub fn new() -> Obs {
        Obs { segs: vec![], batch_rows: vec![], decl: None, out: Out::Ok, tail: String::new(), notes: vec![] }
    }
    pub fn push(&mut self, b: &RecordBatch) {
        self.batch_rows.push(b.num_rows());
        let cols: Vec<Vec<Val>> = b.columns().iter().map(|c| extract(c.as_ref())).collect();
        match self.segs.last_mut() {
            // zero-column batches only count through `batch_rows`
            Some((s, acc)) if **s == *b.schema() => {
                for (a, c) in acc.iter_mut().zip(cols) {
                    a.extend(c);
                }
            }
            _ => self.segs.push((b.schema(), cols)),
        }
    }
    pub fn rows(&self) -> usize {
        self.batch_rows.iter().sum()
    }
    pub fn max_batch(&self) -> usize {
        self.batch_rows.iter().copied().max().unwrap_or(0)
    }
    pub fn dump(&self) -> String {
        let mut s = format!("outcome {} tail [{}] batches {:?}\n", self.out.text(), self.tail, &self.batch_rows[..self.batch_rows.len().min(40)]);
        for (i, (sc, cols)) in self.segs.iter().enumerate() {
            s.push_str(&format!(" seg{i} schema {}\n", schema_short(sc)));
            for (j, c) in cols.iter().enumerate() {
                s.push_str(&format!("  col{j} ({} rows) {}\n", c.len(), dump_vals(c)));
                if s.len() > 2500 {
                    s.push_str("  ..\n");
                    return s;
                }
            }
        }
        s
    }
}

pub fn schema_short(s: &SchemaRef) -> String {
    let f: Vec<String> = s.fields().iter().map(|f| format!("{}:{}{}", f.name(), f.data_type(), if f.is_nullable() { "?" } else { "" })).collect();
    let mut t = f.join(", ");
    if !s.metadata().is_empty() {
        t.push_str(&format!(" md#{}", s.metadata().len()));
    }
    t.chars().take(400).collect()
}

/// not asserted: how many fields a too long CSV record is reported to have ("got 3" / "got more than
/// 2": depends on how much scratch space the decoder had reserved when it noticed)
pub fn norm_msg(m: &str) -> String {
    match (m.find("incorrect number of fields"), m.find(", expected ")) {
        (Some(_), Some(k)) => {
            let rest = &m[k..];
            let keep = rest.find(" got ").map(|g| k + g).unwrap_or(m.len());
            m[..keep].to_string()
        }
        _ => m.to_string(),
    }
}

#[derive(Clone, Copy)]
pub struct Cmp {
    /// batch size limit (None: the decoder has no such notion)
    pub limit: Option<usize>,
    /// compare error messages instead of only the outcome class; 1 = only for schedules without
    /// optional protocol actions (aux 0), 2 = for every schedule
    pub strict_msg: u8,
    /// the input is valid: rows must be identical (not merely prefix compatible)
    pub valid: bool,
}

/// `Some((what, detail))` when `got` contradicts `base`.
pub fn compare(base: &Obs, got: &Obs, c: &Cmp) -> Option<(String, String)> {
    if let Some(l) = c.limit {
        if got.max_batch() > l {
            return Some(("batch-size".into(), format!("a batch of {} rows exceeds the batch size {l}", got.max_batch())));
        }
    }
    let (bc, gc) = (base.out.class(), got.out.class());
    if bc != gc {
        // the error text (class) names the defect: part of the signature
        let cls = |o: &Out| match o {
            Out::Ok => "ok".to_string(),
            Out::Err(m) => format!("err:{}", msg_class(m)),
            Out::Panic(p) => format!("panic:{}", p.file()),
        };
        return Some((format!("outcome|{}->{}", cls(&base.out), cls(&got.out)), format!("single chunk: {}\nthis schedule: {}", base.out.text(), got.out.text())));
    }
    match (&base.out, &got.out) {
        (Out::Err(a), Out::Err(b)) if c.strict_msg > 0 && strip_digits(&norm_msg(a)) != strip_digits(&norm_msg(b)) => {
            return Some((format!("message|{}", msg_class(a)), format!("single chunk: Err({a})\nthis schedule: Err({b})")));
        }
        (Out::Err(a), Out::Err(b)) if c.strict_msg > 0 && norm_msg(a) != norm_msg(b) => {
            return Some((format!("message-numbers|{}", msg_class(a)), format!("single chunk: Err({a})\nthis schedule: Err({b})")));
        }
        (Out::Panic(a), Out::Panic(b)) if a.file() != b.file() => {
            return Some(("panic-site".into(), format!("single chunk: {}\nthis schedule: {}", base.out.text(), got.out.text())));
        }
        _ => {}
    }
    if base.tail != got.tail {
        return Some(("tail".into(), format!("single chunk: [{}]\nthis schedule: [{}]", base.tail, got.tail)));
    }
    if let (Some(a), Some(b)) = (&base.decl, &got.decl) {
        if a != b {
            return Some(("decl-schema".into(), format!("single chunk: {a:?}\nthis schedule: {b:?}")));
        }
    }
    if base.decl.is_some() != got.decl.is_some() && matches!(base.out, Out::Ok) {
        return Some(("decl-schema-presence".into(), format!("single chunk: {:?}\nthis schedule: {:?}", base.decl.is_some(), got.decl.is_some())));
    }
    let exact = matches!(base.out, Out::Ok) || c.valid;
    // segments
    let n = base.segs.len().min(got.segs.len());
    for i in 0..n {
        let (bs, bcols) = &base.segs[i];
        let (gs, gcols) = &got.segs[i];
        if bs != gs {
            return Some(("schema".into(), format!("segment {i}: single chunk schema {bs:?}\nthis schedule {gs:?}")));
        }
        let last = i + 1 == n;
        for (j, (bcol, gcol)) in bcols.iter().zip(gcols.iter()).enumerate() {
            let m = bcol.len().min(gcol.len());
            if let Some(r) = (0..m).find(|r| bcol[*r] != gcol[*r]) {
                return Some((
                    "rows".into(),
                    format!("segment {i} column {j} row {r}: single chunk {:?}, this schedule {:?}\nsingle chunk: {}\nthis schedule: {}", bcol[r], gcol[r], dump_vals(bcol), dump_vals(gcol)),
                ));
            }
            if bcol.len() != gcol.len() && (exact || !last) {
                return Some(("row-count".into(), format!("segment {i} column {j}: single chunk {} rows, this schedule {} rows\nsingle chunk: {}\nthis schedule: {}", bcol.len(), gcol.len(), dump_vals(bcol), dump_vals(gcol))));
            }
        }
    }
    if exact && (base.segs.len() != got.segs.len() || base.rows() != got.rows()) {
        return Some(("row-count".into(), format!("single chunk: {} rows in {} schema runs; this schedule: {} rows in {} schema runs", base.rows(), base.segs.len(), got.rows(), got.segs.len())));
    }
    if !exact && n > 0 {
        // prefix compatible: whoever stopped earlier inside the last common schema run has no further runs
        let rows_of = |o: &Obs, i: usize| o.segs[i].1.first().map(|c| c.len());
        if let (Some(bl), Some(gl)) = (rows_of(base, n - 1), rows_of(got, n - 1)) {
            if (bl < gl && base.segs.len() > n) || (gl < bl && got.segs.len() > n) {
                return Some(("row-prefix".into(), format!("outputs are not prefix compatible: schema run {} has {bl} vs {gl} rows but the shorter output continues", n - 1)));
            }
        }
    }
    None
}

/// Model comparison: the concatenated rows of a (single segment) observation against expected columns.
pub fn compare_model(got: &Obs, expected: &[Vec<Val>]) -> Option<String> {
    let nrows = expected.first().map(|c| c.len()).unwrap_or(0);
    if got.segs.is_empty() {
        if nrows == 0 {
            return None;
        }
        return Some(format!("expected {nrows} rows, decoder produced none"));
    }
    if got.segs.len() != 1 {
        return Some(format!("expected one schema run, got {}", got.segs.len()));
    }
    let cols = &got.segs[0].1;
    if cols.len() != expected.len() {
        return Some(format!("expected {} columns, got {}", expected.len(), cols.len()));
    }
    for (j, (e, g)) in expected.iter().zip(cols.iter()).enumerate() {
        if e.len() != g.len() {
            return Some(format!("column {j}: expected {} rows, got {}\nexpected {}\ngot      {}", e.len(), g.len(), dump_vals(e), dump_vals(g)));
        }
        if let Some(r) = (0..e.len()).find(|r| e[*r] != g[*r]) {
            return Some(format!("column {j} row {r}: expected {:?} got {:?}\nexpected {}\ngot      {}", e[r], g[r], dump_vals(e), dump_vals(g)));
        }
    }
    None
}

// ------------------------------------------------------------------ BufRead with arbitrary fill_buf slices

/// A `BufRead` whose `fill_buf` hands out the input in the slices of a schedule (zero lengths are
/// skipped: an empty slice means end of input in the `BufRead` contract). A partially consumed slice
/// is offered again before the next one.
pub struct ChunkRead<'a> {
    data: &'a [u8],
    lens: Vec<usize>,
    k: usize,
    pos: usize,
    end: usize,
    pub fills: usize,
}

impl<'a> ChunkRead<'a> {
    pub fn new(data: &'a [u8], s: &Sched) -> Self {
        ChunkRead { data, lens: s.lens.clone(), k: 0, pos: 0, end: 0, fills: 0 }
    }
}

impl std::io::BufRead for ChunkRead<'_> {
    fn fill_buf(&mut self) -> std::io::Result<&[u8]> {
        if self.pos == self.end {
            while self.k < self.lens.len() && self.lens[self.k] == 0 {
                self.k += 1;
            }
            if self.k < self.lens.len() {
                self.end = (self.pos + self.lens[self.k]).min(self.data.len());
                self.k += 1;
            } else {
                self.end = self.data.len();
            }
        }
        self.fills += 1;
        Ok(&self.data[self.pos..self.end])
    }
    fn consume(&mut self, n: usize) {
        assert!(self.pos + n <= self.end, "model: consume beyond the offered slice");
        self.pos += n;
    }
}

impl std::io::Read for ChunkRead<'_> {
    fn read(&mut self, buf: &mut [u8]) -> std::io::Result<usize> {
        use std::io::BufRead;
        let b = self.fill_buf()?;
        let n = b.len().min(buf.len());
        buf[..n].copy_from_slice(&b[..n]);
        self.consume(n);
        Ok(n)
    }
}

/// The not yet visited cases of a section owned by this shard (the sections are run in two passes).
pub fn cases_from(ctx: &Ctx, section: &'static str, total: u64) -> Vec<u64> {
    let all = ctx.cases(section, total);
    let d = DONE.with(|m| *m.borrow().get(section).unwrap_or(&0));
    if ctx.only_case.is_some() {
        return if d == 0 { all } else { vec![] };
    }
    all.into_iter().skip(d).collect()
}

pub fn case_done(section: &'static str) {
    DONE.with(|m| *m.borrow_mut().entry(section).or_insert(0) += 1);
}

/// Wall-clock budget of one section (bounds exploration only).
pub struct Budget {
    start: std::time::Instant,
    secs: f64,
}

thread_local! {
    /// fraction of a section's budget granted to the current pass (see `run`)
    static PASS_FRAC: std::cell::Cell<f64> = const { std::cell::Cell::new(1.0) };
    /// cases already visited per section (the second pass resumes behind them)
    static DONE: std::cell::RefCell<std::collections::HashMap<&'static str, usize>> = std::cell::RefCell::new(Default::default());
    /// end of the running section's budget (None in replays): `check_input` stops scheduling past it
    static SECTION_END: std::cell::Cell<Option<std::time::Instant>> = const { std::cell::Cell::new(None) };
}

fn past_section_end() -> bool {
    SECTION_END.with(|e| e.get().is_some_and(|t| std::time::Instant::now() > t))
}

impl Budget {
    pub fn new(ctx: &Ctx, tiny: f64, quick: f64, thorough: f64) -> Budget {
        let secs = ctx.tier.pick(tiny, quick, thorough) * PASS_FRAC.with(|f| f.get());
        let start = std::time::Instant::now();
        SECTION_END.with(|e| e.set(if ctx.only_case.is_some() { None } else { Some(start + std::time::Duration::from_secs_f64(secs * 1.15)) }));
        Budget { start, secs }
    }
    pub fn over(&self, ctx: &Ctx) -> bool {
        ctx.only_case.is_none() && (ctx.out_of_time() || self.start.elapsed().as_secs_f64() > self.secs)
    }
}

// ------------------------------------------------------------------ the per-input loop

/// printable rendering of an input for witnesses
pub fn show_bytes(b: &[u8]) -> String {
    let mut s = String::new();
    for &c in b.iter().take(700) {
        match c {
            b'\n' => s.push_str("\\n"),
            b'\r' => s.push_str("\\r"),
            b'\t' => s.push_str("\\t"),
            b'\\' => s.push_str("\\\\"),
            0x20..=0x7e => s.push(c as char),
            _ => s.push_str(&format!("\\x{c:02x}")),
        }
    }
    if b.len() > 700 {
        s.push_str(&format!("..({} bytes)", b.len()));
    }
    s
}

pub fn hex(b: &[u8]) -> String {
    let mut s = String::new();
    for c in b.iter().take(600) {
        s.push_str(&format!("{c:02x}"));
    }
    if b.len() > 600 {
        s.push_str(&format!("..({} bytes)", b.len()));
    }
    s
}

/// Signature of a divergence. Symptom families that were traced to one root cause on the unchanged
/// tree get one defect-level signature (independent of the input family, so that the set of
/// signatures is the same for every seed); every other divergence keeps the generic, fully
/// qualified form `C14|<decoder>|<input family>|<what differs>` and is therefore still reported as
/// a different violation.
pub fn defect_sig(dec: &str, validity: &str, what: &str, base: &Obs, got: &Obs) -> String {
    let err_has = |o: &Obs, pat: &str| matches!(&o.out, Out::Err(m) if m.contains(pat));
    let panic_has = |o: &Obs, pat: &str| matches!(&o.out, Out::Panic(p) if p.msg.contains(pat));
    match dec {
        "avro-soe" => {
            // (1) a varint cut by the chunk edge is reported as malformed instead of incomplete
            if (err_has(got, "bad varint") && !err_has(base, "bad varint")) || (err_has(base, "bad varint") && !err_has(got, "bad varint")) {
                return format!("{P}|avro-soe|split-varint-is-hard-error");
            }
            // (2) a record cut by the chunk edge is decoded twice: the fields before the cut are
            // appended once per attempt (duplicated / shifted values, columns of different length =>
            // flush errors, rows lost behind the error)
            let flushy = |o: &Obs| err_has(o, "flush:");
            if matches!(what, "rows" | "row-count" | "row-prefix" | "tail") || flushy(base) != flushy(got) {
                return format!("{P}|avro-soe|partial-record-decoded-again");
            }
        }
        "ipc" => {
            // a chunk that starts at an odd stream offset puts a Union's offsets at an unaligned address
            if panic_has(got, "not aligned") != panic_has(base, "not aligned") {
                return format!("{P}|ipc|unaligned-chunk-panics|arrow-buffer/src/buffer/scalar.rs");
            }
        }
        _ => {}
    }
    format!("{P}|{dec}|{validity}|{what}")
}

/// Drive one input through `run` under every schedule and judge. Returns the number of schedules run.
#[allow(clippy::too_many_arguments)]
pub fn check_input(
    ctx: &mut Ctx,
    dec: &str,
    validity: &str,
    cfg_class: &str,
    n: usize,
    scheds: &[Sched],
    cmp: &Cmp,
    witness: &dyn Fn() -> String,
    run: &mut dyn FnMut(&Sched) -> Obs,
) -> Option<Obs> {
    let base = run(&Sched::whole(n));
    if base.out.is_harness() {
        ctx.inconclusive(&format!("{dec}: harness panic in the single chunk run: {}", base.out.text()));
        return None;
    }
    if base.notes.iter().any(|n| n == "skip") {
        ctx.count(&format!("{dec}:inputs-not-asserted"), 1);
        return None;
    }
    ctx.count(&format!("{dec}:inputs"), 1);
    ctx.count(&format!("{dec}:base-{}", base.out.class()), 1);
    if let Out::Panic(p) = &base.out {
        // chunk independent panic: not this property's subject, but keep it visible
        ctx.count(&format!("{dec}:base-panic:{}", p.file()), 1);
    }
    let mut ran = 0u64;
    let mut kinds: std::collections::BTreeMap<&'static str, u64> = Default::default();
    for s in scheds {
        if ran % 4 == 3 && (ctx.out_of_time() || past_section_end()) {
            ctx.count(&format!("{dec}:inputs-cut-short-by-budget"), 1);
            break;
        }
        let got = run(s);
        ran += 1;
        *kinds.entry(s.kind).or_default() += 1;
        if got.out.is_harness() {
            ctx.inconclusive(&format!("{dec}: harness panic: {}", got.out.text()));
            continue;
        }
        for nt in got.notes.iter().filter(|n| *n != "skip") {
            ctx.count(&format!("{dec}:{nt}"), 1);
        }
        if got.notes.iter().any(|n| n == "skip") {
            ctx.count(&format!("{dec}:schedules-not-asserted"), 1);
            continue;
        }
        let c = Cmp { strict_msg: if cmp.strict_msg == 2 || (cmp.strict_msg == 1 && s.aux == 0) { 2 } else { 0 }, ..*cmp };
        if let Some((what, detail)) = compare(&base, &got, &c) {
            let sig = defect_sig(dec, validity, &what, &base, &got);
            ctx.violation(&sig, format!("{}\nschedule: {}\n{detail}\n--- single chunk ---\n{}--- this schedule ---\n{}", witness(), s.describe(), base.dump(), got.dump()));
        }
    }
    ctx.evals_n(ran);
    ctx.count("schedules", ran);
    ctx.count(&format!("{dec}:schedules"), ran);
    for (k, v) in kinds {
        ctx.count(&format!("{dec}:sched-{k}"), v);
    }
    if base.rows() > 0 || !matches!(base.out, Out::Ok) {
        ctx.class(format!("{dec}|{validity}|{cfg_class}|{}|rows{}", base.out.class(), bucket(base.rows())));
    }
    Some(base)
}

pub fn bucket(n: usize) -> &'static str {
    match n {
        0 => "0",
        1 => "1",
        2..=3 => "2-3",
        4..=15 => "4-15",
        16..=127 => "16-127",
        _ => "128+",
    }
}

/// Side observation: the single chunk output of a *valid* generated input differs from the value
/// model it was written from. Chunk independent, hence not this property's subject: counted, the
/// first few witnesses go to stderr with `--verbose` and into the samples.
pub fn side(ctx: &mut Ctx, dec: &str, what: &str, detail: &str) {
    ctx.count(&format!("side:{dec}:{what}"), 1);
    if ctx.verbose {
        eprintln!("SIDE {dec} {what}\n{detail}\n");
    }
}

/// env switch for the oracle self-test (see the report): `C14_BREAK=<decoder>:<how>`
pub fn brk(dec: &str) -> Option<String> {
    let v = std::env::var("C14_BREAK").ok()?;
    let (d, how) = v.split_once(':')?;
    if d == dec { Some(how.to_string()) } else { None }
}

pub fn run(ctx: &mut Ctx) {
    let mut complete = true;
    let mut t = std::time::Instant::now();
    let mut lap = |ctx: &mut Ctx, name: &str| {
        ctx.count(&format!("ms:{name}"), t.elapsed().as_millis() as u64);
        t = std::time::Instant::now();
    };
    // phase 1: hand-built inputs, complete partition enumeration, deterministic edge streams / files
    complete &= super::c14_text::run_exh(ctx);
    lap(ctx, "text-exh");
    complete &= super::c14_avro::run_exh(ctx);
    lap(ctx, "avro-exh");
    super::c14_ipc::run_ipc_edge(ctx);
    super::c14_pq::run_edge(ctx);
    lap(ctx, "ipc+pq-edge");
    // phase 2: generated inputs, every decoder twice: a short pass so that each one is exercised even
    // when the shard is starved of CPU, then the rest of the budget
    for (pass, frac) in [(0, 0.2), (1, 0.8)] {
        PASS_FRAC.with(|f| f.set(frac));
        super::c14_text::run_csv_section(ctx);
        lap(ctx, &format!("csv-pass{pass}"));
        super::c14_text::run_json_section(ctx);
        lap(ctx, &format!("json-pass{pass}"));
        super::c14_avro::run_soe(ctx);
        lap(ctx, &format!("avro-soe-pass{pass}"));
        super::c14_avro::run_ocf(ctx);
        lap(ctx, &format!("avro-ocf-pass{pass}"));
        super::c14_ipc::run_ipc(ctx);
        lap(ctx, &format!("ipc-pass{pass}"));
        super::c14_pq::run(ctx);
        lap(ctx, &format!("pq-meta-pass{pass}"));
        super::c14_ipc::run_flight(ctx);
        lap(ctx, &format!("flight-pass{pass}"));
    }
    PASS_FRAC.with(|f| f.set(1.0));
    // the partition spaces of the hand-built inputs were enumerated completely by this shard
    ctx.exhaustive = complete && ctx.only_case.is_none() && ctx.only_section.is_none();
}
