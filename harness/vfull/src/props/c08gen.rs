//! C08 base inputs for the formats that have no shared generator yet: CSV, JSON, Avro (OCF and
//! single-object framing) and the parquet-variant binary encoding. All of them are produced by
//! the real arrow-rs writers from `vcore::gens` tables, except Variant, which is hand-encoded from
//! `VariantEncoding.md` (every primitive type id, short strings, objects and arrays with 1..4 byte
//! offsets / ids, `is_large`, sorted and unsorted dictionaries) while recording where its header,
//! count, id and offset fields are.

use super::c08mut::{FK, Hints};
use super::pq_common::{self as pq, GenCfg};
use arrow_array::RecordBatch;
use arrow_schema::{DataType, Field, Schema, SchemaRef, TimeUnit};
use std::sync::Arc;
use vcore::gens::{TypeCfg, gen_column};
use vcore::rng::Rng;

pub struct Table {
    pub schema: SchemaRef,
    pub batches: Vec<RecordBatch>,
    pub rows: usize,
}

/// A table over an explicit list of column types (flat text formats).
pub fn table_of(rng: &mut Rng, types: &[DataType], max_rows: usize, chaos: bool) -> Table {
    let rows = rng.len_biased(max_rows);
    let cfg = TypeCfg::flat();
    let mut fields = vec![];
    let mut cols = vec![];
    for (i, dt) in types.iter().enumerate() {
        let nullable = !rng.chance(1, 4) || matches!(dt, DataType::Null);
        cols.push(gen_column(rng, dt, rows, nullable, &cfg));
        fields.push(Field::new(format!("c{i}"), dt.clone(), nullable));
    }
    let l = pq::Logical { schema: Arc::new(Schema::new(fields)), cols, rows };
    let splits = pq::split_rows(rng, rows);
    let batches = pq::make_batches(rng, &l, &splits, chaos);
    Table { schema: l.schema, batches, rows }
}

/// A table from the generic type grid (nested formats).
pub fn table_from_cfg(rng: &mut Rng, types: TypeCfg, max_cols: usize, max_rows: usize, weird_names: (u32, u32)) -> Table {
    let cfg = GenCfg { max_cols, max_rows, types, keep_unsupported: (1, 1), weird_names };
    let l = pq::gen_logical(rng, &cfg);
    let splits = pq::split_rows(rng, l.rows);
    let batches = pq::make_batches(rng, &l, &splits, true);
    Table { schema: l.schema.clone(), batches, rows: l.rows }
}

// ------------------------------------------------------------------ CSV

pub fn csv_types(rng: &mut Rng) -> Vec<DataType> {
    use DataType::*;
    let tz = || Some(Arc::from("+00:00"));
    let pool: Vec<DataType> = vec![
        Boolean,
        Int8,
        Int16,
        Int32,
        Int64,
        UInt8,
        UInt16,
        UInt32,
        UInt64,
        Float16,
        Float32,
        Float64,
        Utf8,
        Utf8,
        Utf8View,
        Date32,
        Date64,
        Time32(TimeUnit::Second),
        Time32(TimeUnit::Millisecond),
        Time64(TimeUnit::Microsecond),
        Time64(TimeUnit::Nanosecond),
        Timestamp(TimeUnit::Second, None),
        Timestamp(TimeUnit::Millisecond, tz()),
        Timestamp(TimeUnit::Microsecond, None),
        Timestamp(TimeUnit::Nanosecond, tz()),
        Decimal32(9, 2),
        Decimal64(18, 0),
        Decimal128(38, 10),
        Decimal128(10, 3),
        Decimal256(76, 6),
        Null,
        Dictionary(Box::new(Int8), Box::new(Utf8)),
        Dictionary(Box::new(UInt32), Box::new(Utf8)),
    ];
    let n = 1 + rng.below(5);
    (0..n).map(|_| rng.pick(&pool).clone()).collect()
}

#[derive(Clone, Debug)]
pub struct CsvFmt {
    pub header: bool,
    pub delimiter: u8,
    pub quote: u8,
    pub escape: Option<u8>,
    pub crlf: bool,
}

pub struct CsvBase {
    pub schema: SchemaRef,
    pub fmt: CsvFmt,
    pub bytes: Vec<u8>,
    pub rows: usize,
}

pub fn csv_base(rng: &mut Rng) -> Result<CsvBase, String> {
    let types = csv_types(rng);
    let t = table_of(rng, &types, 40, true);
    let fmt = CsvFmt {
        header: rng.bool(),
        delimiter: *rng.pick(&[b',', b',', b'\t', b';', b'|']),
        quote: *rng.pick(&[b'"', b'"', b'\'']),
        escape: if rng.chance(1, 4) { Some(b'\\') } else { None },
        crlf: rng.chance(1, 4),
    };
    let mut wb = arrow_csv::WriterBuilder::new().with_header(fmt.header).with_delimiter(fmt.delimiter).with_quote(fmt.quote);
    if let Some(e) = fmt.escape {
        wb = wb.with_escape(e).with_double_quote(false);
    }
    let mut w = wb.build(Vec::new());
    for b in &t.batches {
        w.write(b).map_err(|e| e.to_string())?;
    }
    let mut bytes = w.into_inner();
    if fmt.crlf {
        // only when no field contains a line break itself
        if !bytes.contains(&b'\r') {
            let mut v = Vec::with_capacity(bytes.len() + 64);
            let mut in_q = false;
            for c in &bytes {
                if *c == fmt.quote {
                    in_q = !in_q;
                }
                if *c == b'\n' && !in_q {
                    v.push(b'\r');
                }
                v.push(*c);
            }
            bytes = v;
        }
    }
    Ok(CsvBase { schema: t.schema, fmt, bytes, rows: t.rows })
}

// ------------------------------------------------------------------ JSON

pub fn json_type_cfg() -> TypeCfg {
    let mut c = TypeCfg::all();
    c.max_depth = 2;
    c.union = false;
    c.ree = false;
    c.list_view = false;
    c.interval = false;
    c.fsb0 = false;
    c.empty_struct = false;
    c.dict = false;
    c
}

pub struct JsonBase {
    pub schema: SchemaRef,
    pub bytes: Vec<u8>,
    pub list_mode: bool,
    pub array_format: bool,
    pub rows: usize,
}

pub fn json_base(rng: &mut Rng) -> Result<JsonBase, String> {
    let t = table_from_cfg(rng, json_type_cfg(), 4, 24, (1, 10));
    let list_mode = rng.chance(1, 6);
    let array_format = rng.chance(1, 6);
    let wb = arrow_json::WriterBuilder::new()
        .with_explicit_nulls(rng.bool())
        .with_struct_mode(if list_mode { arrow_json::StructMode::ListOnly } else { arrow_json::StructMode::ObjectOnly });
    let bytes = if array_format {
        let mut w = wb.build::<_, arrow_json::writer::JsonArray>(Vec::new());
        for b in &t.batches {
            w.write(b).map_err(|e| e.to_string())?;
        }
        w.finish().map_err(|e| e.to_string())?;
        w.into_inner()
    } else {
        let mut w = wb.build::<_, arrow_json::writer::LineDelimited>(Vec::new());
        for b in &t.batches {
            w.write(b).map_err(|e| e.to_string())?;
        }
        w.finish().map_err(|e| e.to_string())?;
        w.into_inner()
    };
    Ok(JsonBase { schema: t.schema, bytes, list_mode, array_format, rows: t.rows })
}

// ------------------------------------------------------------------ Avro

pub fn avro_type_cfg() -> TypeCfg {
    let mut c = TypeCfg::all();
    c.max_depth = 2;
    c.fsb0 = false;
    c.empty_struct = false;
    c.neg_scale = false;
    // the Avro writer has no representation for these (they would only produce rejected bases)
    c.dict = false;
    c.union = false;
    c.map = false;
    c.decimal_small = false;
    c
}

pub struct AvroBase {
    pub schema: SchemaRef,
    pub bytes: Vec<u8>,
    pub codec: &'static str,
    /// writer schema JSON (single-object framing needs it in the reader's schema store)
    pub avro_json: Option<String>,
    pub rows: usize,
}

pub fn avro_base(rng: &mut Rng, soe: bool) -> Result<AvroBase, String> {
    use arrow_avro::compression::CompressionCodec as C;
    use arrow_avro::schema::{AvroSchema, FingerprintStrategy, SCHEMA_METADATA_KEY};
    use arrow_avro::writer::WriterBuilder;
    use arrow_avro::writer::format::{AvroOcfFormat, AvroSoeFormat};
    let t = table_from_cfg(rng, avro_type_cfg(), 4, 30, (0, 1));
    let (codec, cname) = *rng.pick(&[
        (None, "none"),
        (None, "none"),
        (Some(C::Deflate), "deflate"),
        (Some(C::Snappy), "snappy"),
        (Some(C::ZStandard), "zstd"),
        (Some(C::Bzip2), "bzip2"),
        (Some(C::Xz), "xz"),
    ]);
    let arrow: Schema = t.schema.as_ref().clone();
    if soe {
        let avro = AvroSchema::try_from(&arrow).map_err(|e| e.to_string())?;
        let mut md = arrow.metadata().clone();
        md.insert(SCHEMA_METADATA_KEY.to_string(), avro.json_string.clone());
        let arrow = arrow.with_metadata(md);
        let mut w = WriterBuilder::new(arrow).with_fingerprint_strategy(FingerprintStrategy::Rabin).build::<_, AvroSoeFormat>(Vec::new()).map_err(|e| e.to_string())?;
        for b in &t.batches {
            w.write(b).map_err(|e| e.to_string())?;
        }
        w.finish().map_err(|e| e.to_string())?;
        Ok(AvroBase { schema: t.schema, bytes: w.into_inner(), codec: "soe", avro_json: Some(avro.json_string), rows: t.rows })
    } else {
        let mut w = WriterBuilder::new(arrow).with_compression(codec).build::<_, AvroOcfFormat>(Vec::new()).map_err(|e| e.to_string())?;
        for b in &t.batches {
            w.write(b).map_err(|e| e.to_string())?;
        }
        w.finish().map_err(|e| e.to_string())?;
        Ok(AvroBase { schema: t.schema, bytes: w.into_inner(), codec: cname, avro_json: None, rows: t.rows })
    }
}

// ------------------------------------------------------------------ Variant (hand encoded)

pub struct VariantBase {
    pub metadata: Vec<u8>,
    pub value: Vec<u8>,
    pub meta_hints: Hints,
    pub value_hints: Hints,
    pub desc: String,
}

fn le(v: u64, w: usize, out: &mut Vec<u8>) {
    for i in 0..w {
        out.push((v >> (8 * i)) as u8);
    }
}

fn width_for(max: usize, rng: &mut Rng) -> usize {
    let min = if max < 1 << 8 {
        1
    } else if max < 1 << 16 {
        2
    } else if max < 1 << 24 {
        3
    } else {
        4
    };
    // sometimes wider than necessary (legal)
    if rng.chance(1, 4) { (min + rng.below(5 - min)).min(4) } else { min }
}

fn fk(w: usize) -> FK {
    match w {
        1 => FK::U8,
        2 => FK::U16,
        _ => FK::U32,
    }
}

fn variant_value(rng: &mut Rng, names: &[String], depth: u32, h: &mut Hints, desc: &mut String) -> Vec<u8> {
    let mut out = vec![];
    let nested = depth < 4 && !names.is_empty() && rng.chance(2, 5);
    if !nested || depth >= 4 {
        // primitive or short string
        let t = rng.below(23);
        h.field(0, FK::U8, "variant-value:header");
        match t {
            0..=2 => out.push((t as u8) << 2),
            3 => {
                out.push(3 << 2);
                le(rng.u64(), 1, &mut out)
            }
            4 => {
                out.push(4 << 2);
                le(rng.u64(), 2, &mut out)
            }
            5 => {
                out.push(5 << 2);
                le(rng.u64(), 4, &mut out)
            }
            6 => {
                out.push(6 << 2);
                le(rng.u64(), 8, &mut out)
            }
            7 => {
                out.push(7 << 2);
                le(vcore::gens::gen_f64_bits(rng), 8, &mut out)
            }
            8 => {
                out.push(8 << 2);
                out.push(rng.below(10) as u8);
                le(rng.range(-999_999_999, 999_999_999) as u64, 4, &mut out)
            }
            9 => {
                out.push(9 << 2);
                out.push(rng.below(19) as u8);
                le(rng.range(-999_999_999_999_999_999, 999_999_999_999_999_999) as u64, 8, &mut out)
            }
            10 => {
                out.push(10 << 2);
                out.push(rng.below(39) as u8);
                let v = rng.range(i64::MIN, i64::MAX) as i128 * rng.range(0, 1_000_000_000) as i128;
                out.extend_from_slice(&v.to_le_bytes());
            }
            11 => {
                out.push(11 << 2);
                le(rng.range(-100_000, 100_000) as u64, 4, &mut out)
            }
            12 | 13 | 18 | 19 => {
                out.push((t as u8) << 2);
                le(rng.range(-4_000_000_000_000_000, 4_000_000_000_000_000) as u64, 8, &mut out)
            }
            14 => {
                out.push(14 << 2);
                le(vcore::gens::gen_f32_bits(rng) as u64, 4, &mut out)
            }
            15 => {
                let b = vcore::gens::gen_bytes(rng);
                out.push(15 << 2);
                h.field(1, FK::U32, "variant-value:len");
                le(b.len() as u64, 4, &mut out);
                out.extend_from_slice(&b);
            }
            16 => {
                let s = vcore::gens::gen_string(rng);
                out.push(16 << 2);
                h.field(1, FK::U32, "variant-value:len");
                le(s.len() as u64, 4, &mut out);
                out.extend_from_slice(s.as_bytes());
            }
            17 => {
                out.push(17 << 2);
                le(rng.range(0, 86_399_999_999) as u64, 8, &mut out)
            }
            20 => {
                out.push(20 << 2);
                out.extend_from_slice(&rng.bytes(16));
            }
            _ => {
                // short string (< 64 bytes)
                let mut s = vcore::gens::gen_string(rng);
                while s.len() > 63 {
                    s.pop();
                }
                out.push(((s.len() as u8) << 2) | 1);
                out.extend_from_slice(s.as_bytes());
            }
        }
        desc.push('p');
        return out;
    }
    let object = rng.bool();
    let n = match rng.below(8) {
        0 => 0,
        1 => 1,
        7 if depth == 0 => 256 + rng.below(40), // forces is_large
        _ => 1 + rng.below(6),
    };
    // children first (their hints are shifted once their position is known)
    let mut ids: Vec<usize> = vec![];
    if object {
        // distinct field ids, ordered by field NAME
        let mut pool: Vec<usize> = (0..names.len()).collect();
        rng.shuffle(&mut pool);
        pool.truncate(n.min(names.len()));
        pool.sort_by(|a, b| names[*a].cmp(&names[*b]));
        ids = pool;
    }
    let n = if object { ids.len() } else { n };
    desc.push(if object { '{' } else { '[' });
    let mut kids: Vec<(Vec<u8>, Hints)> = vec![];
    for _ in 0..n {
        let mut kh = Hints::default();
        let d = if n > 64 { 99 } else { depth + 1 };
        let v = variant_value(rng, names, d, &mut kh, desc);
        kids.push((v, kh));
    }
    desc.push(if object { '}' } else { ']' });
    let total: usize = kids.iter().map(|k| k.0.len()).sum();
    let off_w = width_for(total, rng);
    let id_w = if object { width_for(names.len().saturating_sub(1), rng) } else { 1 };
    let large = n > 255 || rng.chance(1, 8);
    let hdr = if object {
        (((large as u8) << 4) | (((id_w - 1) as u8) << 2) | ((off_w - 1) as u8)) << 2 | 2
    } else {
        (((large as u8) << 2) | ((off_w - 1) as u8)) << 2 | 3
    };
    h.field(0, FK::U8, "variant-value:header");
    out.push(hdr);
    h.field(out.len(), if large { FK::U32 } else { FK::U8 }, "variant-value:count");
    le(n as u64, if large { 4 } else { 1 }, &mut out);
    if object {
        for id in &ids {
            h.field(out.len(), fk(id_w), "variant-value:field-id");
            le(*id as u64, id_w, &mut out);
        }
    }
    // field values may be stored in any order; offsets need not be monotonic for objects
    let mut order: Vec<usize> = (0..n).collect();
    if object && rng.chance(1, 12) {
        rng.shuffle(&mut order);
    }
    let mut starts = vec![0usize; n];
    let mut at = 0usize;
    for i in &order {
        starts[*i] = at;
        at += kids[*i].0.len();
    }
    for s in &starts {
        h.field(out.len(), fk(off_w), "variant-value:offset");
        le(*s as u64, off_w, &mut out);
    }
    h.field(out.len(), fk(off_w), "variant-value:end-offset");
    le(total as u64, off_w, &mut out);
    let data_start = out.len();
    out.resize(data_start + total, 0);
    for (i, (v, kh)) in kids.into_iter().enumerate() {
        let p = data_start + starts[i];
        out[p..p + v.len()].copy_from_slice(&v);
        if h.fields.len() < 400 {
            h.merge(kh.shifted(p));
        }
    }
    out
}

pub fn variant_base(rng: &mut Rng) -> VariantBase {
    // dictionary
    let k = match rng.below(6) {
        0 => 0,
        1 => 1,
        5 => 257 + rng.below(20),
        _ => 1 + rng.below(12),
    };
    let mut names: Vec<String> = vec![];
    while names.len() < k {
        let s = if rng.chance(1, 3) { vcore::gens::gen_string(rng) } else { format!("k{}", rng.below(100_000)) };
        if !names.contains(&s) {
            names.push(s);
        }
    }
    let sorted = rng.bool();
    if sorted {
        names.sort();
    }
    let total: usize = names.iter().map(|s| s.len()).sum();
    let off_w = width_for(total.max(k), rng);
    let mut mh = Hints::default();
    let mut metadata = vec![];
    mh.field(0, FK::U8, "variant-meta:header");
    metadata.push(1u8 | ((sorted as u8) << 4) | (((off_w - 1) as u8) << 6));
    mh.field(1, fk(off_w), "variant-meta:dict-size");
    le(k as u64, off_w, &mut metadata);
    let mut at = 0usize;
    for s in &names {
        mh.field(metadata.len(), fk(off_w), "variant-meta:offset");
        le(at as u64, off_w, &mut metadata);
        at += s.len();
    }
    mh.field(metadata.len(), fk(off_w), "variant-meta:end-offset");
    le(at as u64, off_w, &mut metadata);
    mh.region(metadata.len(), metadata.len() + at, "variant-meta:strings");
    for s in &names {
        metadata.extend_from_slice(s.as_bytes());
    }
    let mut vh = Hints::default();
    let mut desc = String::new();
    let value = variant_value(rng, &names, 0, &mut vh, &mut desc);
    desc.truncate(200);
    VariantBase { metadata, value, meta_hints: mh, value_hints: vh, desc: format!("dict={k} sorted={sorted} shape={desc}") }
}
