//! C14, IPC `StreamDecoder` (byte chunk schedules, buffer layouts) and Flight
//! `FlightRecordBatchStream` (poll schedules of the inner `FlightData` stream, body alignment).

use super::c04gen::{IpcKind, SeqCfg, gen_ipc_bytes, gen_sequence, gen_write_opts};
use super::c14::*;
use super::c14_text::break_obs;
use arrow_buffer::Buffer;
use arrow_flight::FlightData;
use arrow_flight::decode::FlightRecordBatchStream;
use arrow_flight::encode::{DictionaryHandling as FlightDict, FlightDataEncoderBuilder};
use arrow_flight::error::FlightError;
use arrow_ipc::reader::{StreamDecoder, StreamReader};
use bytes::Bytes;
use futures::{Stream, StreamExt};
use futures::executor::block_on;
use std::io::Cursor;
use std::pin::Pin;
use std::sync::Arc;
use std::sync::atomic::{AtomicBool, Ordering};
use std::task::{Context, Poll, Wake, Waker};
use vcore::mon::{Ctx, guard};
use vcore::rng::Rng;

// ================================================================== IPC StreamDecoder

/// Offsets of the message structure: (message start, metadata start, body start, body end, is_eos)
fn ipc_frames(data: &[u8]) -> Vec<(usize, usize, usize, usize, bool)> {
    let mut out = Vec::new();
    let mut p = 0usize;
    while p + 4 <= data.len() {
        let start = p;
        let mut len = u32::from_le_bytes(data[p..p + 4].try_into().unwrap());
        p += 4;
        if len == 0xFFFF_FFFF {
            if p + 4 > data.len() {
                break;
            }
            len = u32::from_le_bytes(data[p..p + 4].try_into().unwrap());
            p += 4;
        }
        if len == 0 {
            out.push((start, p, p, p, true));
            break;
        }
        let meta = p;
        let Some(mend) = meta.checked_add(len as usize).filter(|e| *e <= data.len()) else { break };
        let Ok(msg) = arrow_ipc::root_as_message(&data[meta..mend]) else { break };
        let bl = msg.bodyLength().max(0) as usize;
        let Some(bend) = mend.checked_add(bl).filter(|e| *e <= data.len()) else { break };
        out.push((start, meta, mend, bend, false));
        p = bend;
    }
    out
}

#[derive(Clone, Debug)]
struct IpcCfg {
    require_alignment: bool,
}

/// `aux % 4`: 0 = every chunk in its own (aligned) allocation, 1 = zero-copy slices of one buffer,
/// 2 = slices of one buffer that starts at an odd address, 3 = slices of a buffer shifted by 8.
/// Empty chunks are offered (`decode` must return `Ok(None)`).
fn run_ipc_decoder(data: &[u8], cfg: &IpcCfg, s: &Sched) -> Obs {
    let mut o = Obs::new();
    let r = guard(|| -> Result<(), String> {
        let mut dec = StreamDecoder::new().with_require_alignment(cfg.require_alignment);
        let mode = s.aux % 4;
        let pad = match mode {
            2 => 1 + (s.aux / 4 % 7) as usize,
            3 => 8,
            _ => 0,
        };
        let big: Option<Buffer> = if mode == 0 {
            None
        } else {
            let mut v = vec![0u8; pad];
            v.extend_from_slice(data);
            Some(Buffer::from_vec(v))
        };
        let mut off = 0usize;
        let mut calls = 0u64;
        for chunk in s.chunks(data) {
            let mut b = match &big {
                None => Buffer::from_vec(chunk.to_vec()),
                Some(big) => big.slice_with_length(pad + off, chunk.len()),
            };
            off += chunk.len();
            if b.is_empty() {
                if dec.decode(&mut b).map_err(|e| e.to_string())?.is_some() {
                    return Err("decode of an empty buffer returned a batch".into());
                }
                continue;
            }
            while !b.is_empty() {
                calls += 1;
                if calls > 10_000_000 {
                    return Err("stuck: decode makes no progress".into());
                }
                if let Some(batch) = dec.decode(&mut b).map_err(|e| e.to_string())? {
                    o.push(&batch);
                }
            }
        }
        o.decl = dec.schema();
        dec.finish().map_err(|e| format!("finish: {e}"))?;
        Ok(())
    });
    o.out = match r {
        Ok(Ok(())) => Out::Ok,
        Ok(Err(e)) => Out::Err(e),
        Err(p) => Out::Panic(p),
    };
    // not asserted: with `require_alignment(true)` the outcome depends on the address of the caller's
    // buffers (documented: Err; observed: also a panic in ScalarBuffer::from, counted separately)
    if cfg.require_alignment {
        match &o.out {
            Out::Err(m) if m.to_ascii_lowercase().contains("align") => o.notes.push("skip".into()),
            Out::Panic(p) if p.msg.contains("not aligned") => {
                o.notes.push("skip".into());
                o.notes.push("alignment-panic-under-require-alignment".into());
            }
            _ => {}
        }
    }
    o
}

fn run_ipc_reader(data: &[u8]) -> Obs {
    let mut o = Obs::new();
    let r = guard(|| -> Result<(), String> {
        let rd = StreamReader::try_new(Cursor::new(data), None).map_err(|e| e.to_string())?;
        o.decl = Some(rd.schema());
        for b in rd {
            o.push(&b.map_err(|e| e.to_string())?);
        }
        Ok(())
    });
    o.out = match r {
        Ok(Ok(())) => Out::Ok,
        Ok(Err(e)) => Out::Err(e),
        Err(p) => Out::Panic(p),
    };
    o
}

fn ipc_seq_cfg(rng: &mut Rng, ctx: &Ctx) -> SeqCfg {
    let mut c = SeqCfg::ipc();
    c.max_cols = 3;
    c.max_batches = ctx.tier.pick(2, 4, 5);
    c.max_rows = ctx.tier.pick(8, 24, 60);
    c.types.max_depth = 2;
    match rng.below(4) {
        0 => c.flat = true,
        1 => c.dict_focus = true,
        _ => {}
    }
    c
}

fn check_ipc(ctx: &mut Ctx, rng: &mut Rng, data: &[u8], cfg: &IpcCfg, validity: &str, vs_reader: bool, desc: &str, cfg_class: &str, windows: usize) {
    let frames = ipc_frames(data);
    if ctx.verbose {
        eprintln!("ipc input: {validity} {} bytes; {}", data.len(), desc.lines().last().unwrap_or(""));
    }
    let witness = || {
        let fr: Vec<String> = frames.iter().take(12).map(|f| format!("{}..{}..{}..{}{}", f.0, f.1, f.2, f.3, if f.4 { "(eos)" } else { "" })).collect();
        format!("{desc}\nStreamDecoder require_alignment={}\nmessages (start..meta..body..end): {}\ninput ({} bytes) hex: {}", cfg.require_alignment, fr.join(" "), data.len(), hex(data))
    };
    let mut plan = Plan::standard(ctx.tier.pick(32, 260, 2500), ctx.tier.pick(6, 30, 150), true);
    plan.auxes = vec![0, 1, 2 + 4 * (rng.u64() % 7), 3];
    plan.fixed = vec![3, 7, 8, 64, 512];
    for f in frames.iter().take(24) {
        plan.points.extend([f.0, f.0 + 4, f.1, f.2, f.3]);
    }
    if !frames.is_empty() && windows > 0 {
        // all partitions of a 12 byte window over a message prefix / metadata end / body end
        let mut cands: Vec<usize> = frames.iter().flat_map(|f| [f.0.saturating_sub(2), f.2.saturating_sub(6), f.3.saturating_sub(6)]).collect();
        cands.sort_unstable();
        cands.dedup();
        for _ in 0..windows {
            plan.windows.push((*rng.pick(&cands), 12));
        }
        ctx.count("exhaustive-window-sets", plan.windows.len() as u64);
    }
    let scheds = schedules(rng, data.len(), &plan);
    let cmp = Cmp { limit: None, strict_msg: 0, valid: validity.starts_with("valid") };
    let broken = brk("ipc");
    let base = check_input(ctx, "ipc", validity, cfg_class, data.len(), &scheds, &cmp, &witness, &mut |s: &Sched| {
        let mut o = run_ipc_decoder(data, cfg, s);
        if let Some(how) = &broken {
            break_obs(&mut o, how, s);
        }
        o
    });
    let Some(base) = base else { return };
    let rd = run_ipc_reader(data);
    if let Some((what, detail)) = compare(&base, &rd, &Cmp { limit: None, strict_msg: 0, valid: true }) {
        if vs_reader {
            ctx.violation(&format!("{P}|ipc|{validity}|reader-differs|{what}"), format!("{}\nStreamDecoder (single chunk) vs StreamReader: {detail}\n--- decoder ---\n{}--- reader ---\n{}", witness(), base.dump(), rd.dump()));
        } else {
            ctx.count(&format!("ipc:reader-differs-on-invalid:{what}"), 1);
        }
    }
    ctx.sample(|| format!("{}\n=> {} rows in {} batches, {}", witness(), base.rows(), base.batch_rows.len(), base.out.text()));
}

pub fn run_ipc(ctx: &mut Ctx) {
    let total = ctx.tier.pick(4, 8_000, 300_000);
    let budget = Budget::new(ctx, 2.0, 9.0, 140.0);
    for i in cases_from(ctx, "ipc", total) {
        if budget.over(ctx) {
            break;
        }
        let mut rng = ctx.begin("ipc", i);
        case_done("ipc");
        let sc = ipc_seq_cfg(&mut rng, ctx);
        let kind = if rng.bool() { IpcKind::Stream } else { IpcKind::StreamEncoder };
        let (seq, wo, bytes) = match guard(|| gen_ipc_bytes(&mut rng, &sc, kind)) {
            Ok(x) => x,
            Err(p) => {
                ctx.reject();
                ctx.count(&format!("ipc:generator-panicked:{}", p.file()), 1);
                continue;
            }
        };
        let Some(data) = bytes else {
            ctx.reject();
            continue;
        };
        let cfg = IpcCfg { require_alignment: rng.chance(1, 5) };
        let desc = format!("origin: {} output, write options {}; {}", kind.name(), wo.class(), seq.describe().chars().take(600).collect::<String>());
        let class = format!("{}|{}|{}{}", kind.name(), wo.class(), seq.hist_class(), if cfg.require_alignment { "|reqalign" } else { "" });
        let windows = if rng.chance(1, 3) && data.len() <= 6000 { ctx.tier.pick(1, 2, 4) } else { 0 };
        ctx.count("ipc:valid-inputs", 1);
        check_ipc(ctx, &mut rng, &data, &cfg, "valid", true, &desc, &class, windows);
        let frames = ipc_frames(&data);
        // the same stream without the end-of-stream marker (the spec allows closing the stream instead)
        if let Some(last) = frames.last().filter(|f| f.4) {
            if rng.chance(1, 2) {
                let cut = &data[..last.0];
                ctx.count("ipc:no-eos-inputs", 1);
                check_ipc(ctx, &mut rng, cut, &cfg, "valid-no-eos", true, &format!("{desc}\nvariant: end-of-stream marker removed"), &format!("{class}|noeos"), 0);
            }
        }
        for _ in 0..ctx.tier.pick(1, 2, 3) {
            let mut bad = data.clone();
            // a corrupted *compressed* body can declare an absurd decompressed size, which aborts the
            // process in `decompress_lz4/zstd` (`Vec::with_capacity`, not catchable; C08's subject):
            // compressed streams only get structural mutations
            let pick = if wo.compression != 0 { *rng.pick(&[0usize, 1, 4, 5]) } else { rng.below(7) };
            let how = match pick {
                0 => {
                    let k = rng.below(bad.len());
                    bad.truncate(k);
                    "truncate"
                }
                1 => {
                    let extra = 1 + rng.below(16);
                    bad.extend(rng.bytes(extra));
                    "trailing-garbage"
                }
                2 => {
                    let k = rng.below(bad.len());
                    bad[k] ^= 1 << rng.below(8);
                    "bitflip"
                }
                3 if !frames.is_empty() => {
                    // inside a message prefix (continuation marker / length)
                    let f = rng.pick(&frames);
                    let k = (f.0 + rng.below(8)).min(bad.len() - 1);
                    bad[k] = rng.u8();
                    "prefix-corrupt"
                }
                4 if !frames.is_empty() => {
                    // the schema message twice
                    let f = frames[0];
                    let dup = data[f.0..f.3].to_vec();
                    let at = rng.pick(&frames).0;
                    bad.splice(at..at, dup);
                    "duplicate-schema"
                }
                5 if frames.len() > 2 => {
                    // drop one message
                    let f = frames[1 + rng.below(frames.len() - 2)];
                    bad.drain(f.0..f.3);
                    "drop-message"
                }
                _ => {
                    let k = rng.below(bad.len());
                    bad[k] = rng.u8();
                    "replace"
                }
            };
            ctx.count(&format!("ipc:mutation-{how}"), 1);
            check_ipc(ctx, &mut rng, &bad, &cfg, "mutated", false, &format!("{desc}\nvariant: {how}"), &format!("{}|{how}", kind.name()), 0);
        }
    }
}

/// A stream written by `StreamWriter` for one fixed column.
fn fixed_stream(dt: &arrow_schema::DataType, vals: &[vcore::val::Val], zero_row_tail: bool) -> Option<Vec<u8>> {
    use arrow_array::RecordBatch;
    use arrow_schema::{Field, Schema};
    let schema = Arc::new(Schema::new(vec![Field::new("c", dt.clone(), true)]));
    guard(|| {
        let mut w = arrow_ipc::writer::StreamWriter::try_new(Vec::new(), &schema).ok()?;
        let b = RecordBatch::try_new(schema.clone(), vec![vcore::build::build(dt, vals)]).ok()?;
        w.write(&b).ok()?;
        if zero_row_tail {
            let e = RecordBatch::try_new(schema.clone(), vec![vcore::build::build(dt, &[])]).ok()?;
            w.write(&e).ok()?;
        }
        w.finish().ok()?;
        w.into_inner().ok()
    })
    .ok()
    .flatten()
}

/// Hand-built streams (run before the generated ones, identical for every seed): empty input, only
/// EOS, EOS twice, a dense union column, a stream that ends with a zero-row batch and no EOS marker.
pub fn run_ipc_edge(ctx: &mut Ctx) {
    use arrow_schema::{DataType, Field, UnionFields, UnionMode};
    use vcore::val::Val;
    for i in ctx.cases("ipc-edge", 7) {
        let _rng = ctx.begin("ipc-edge", i);
        let union = DataType::Union(UnionFields::try_new(vec![0, 1], vec![Field::new("a", DataType::Int32, true), Field::new("b", DataType::Float64, true)]).expect("model: union fields"), UnionMode::Dense);
        let uvals = [Val::Union(0, Box::new(Val::Int(7))), Val::Union(1, Box::new(Val::F64(1.5f64.to_bits()))), Val::Union(0, Box::new(Val::Null)), Val::Union(0, Box::new(Val::Int(-1)))];
        let ints = [Val::Int(1), Val::Null, Val::Int(3)];
        let (data, validity, vs_reader): (Vec<u8>, &str, bool) = match i {
            0 => (vec![], "edge", false),
            1 => (vec![0xff, 0xff, 0xff, 0xff, 0, 0, 0, 0], "edge", false),
            2 => (vec![0, 0, 0, 0], "edge", false),
            3 => (vec![0xff, 0xff, 0xff, 0xff, 0, 0, 0, 0, 0xff, 0xff, 0xff, 0xff, 0, 0, 0, 0], "edge", false),
            4 | 5 => match fixed_stream(&union, &uvals, false) {
                Some(d) => (d, "valid", true),
                None => {
                    ctx.inconclusive("ipc-edge: could not write the union stream");
                    continue;
                }
            },
            _ => match fixed_stream(&DataType::Int32, &ints, true) {
                // the end-of-stream marker (continuation + zero length) removed
                Some(d) => (d[..d.len() - 8].to_vec(), "valid-no-eos", true),
                None => {
                    ctx.inconclusive("ipc-edge: could not write the int stream");
                    continue;
                }
            },
        };
        let cfg = IpcCfg { require_alignment: false };
        if i >= 4 {
            let mut rng = Rng::new(ctx.seed ^ i);
            check_ipc(ctx, &mut rng, &data, &cfg, validity, vs_reader, &format!("origin: hand-built stream #{i} (StreamWriter, default options)"), "edge", if i == 5 { 2 } else { 0 });
            continue;
        }
        let scheds = exhaustive_schedules(data.len().max(1).min(13), &[0, 1, 2, 3]);
        let scheds: Vec<Sched> = if data.is_empty() { vec![Sched { lens: vec![0, 0], aux: 0, kind: "partition" }] } else { scheds };
        let witness = || format!("origin: hand-built stream {}", hex(&data));
        let cmp = Cmp { limit: None, strict_msg: 0, valid: false };
        check_input(ctx, "ipc", validity, "edge", data.len(), &scheds, &cmp, &witness, &mut |s: &Sched| run_ipc_decoder(&data, &cfg, s));
    }
}

// ================================================================== Flight

struct FlagWaker(AtomicBool);

impl Wake for FlagWaker {
    fn wake(self: Arc<Self>) {
        self.0.store(true, Ordering::SeqCst);
    }
    fn wake_by_ref(self: &Arc<Self>) {
        self.0.store(true, Ordering::SeqCst);
    }
}

/// Inner stream: before item `k` it returns `Pending` `pend[k]` times (waking the task each time).
struct PendStream {
    items: std::collections::VecDeque<Result<FlightData, FlightError>>,
    pend: Vec<usize>,
    k: usize,
    polls_after_end: usize,
}

impl Stream for PendStream {
    type Item = Result<FlightData, FlightError>;
    fn poll_next(mut self: Pin<&mut Self>, cx: &mut Context<'_>) -> Poll<Option<Self::Item>> {
        let k = self.k;
        if k < self.pend.len() && self.pend[k] > 0 {
            self.pend[k] -= 1;
            cx.waker().wake_by_ref();
            return Poll::Pending;
        }
        self.k += 1;
        match self.items.pop_front() {
            Some(x) => Poll::Ready(Some(x)),
            None => {
                self.polls_after_end += 1;
                Poll::Ready(None)
            }
        }
    }
}

/// body placement: 0 as encoded, 1 start at a 64 byte aligned address, 2 odd address
fn place_body(body: &Bytes, how: u64) -> Bytes {
    if how == 0 || body.is_empty() {
        return body.clone();
    }
    let mut v = vec![0u8; body.len() + 130];
    let base = v.as_ptr() as usize;
    let mut off = (64 - base % 64) % 64;
    if how == 2 {
        off += 1;
    }
    v[off..off + body.len()].copy_from_slice(body);
    Bytes::from(v).slice(off..off + body.len())
}

#[derive(Clone)]
enum Item {
    Data(FlightData),
    Error(String),
}

fn run_flight_stream(items: &[Item], s: &Sched) -> Obs {
    let mut o = Obs::new();
    let r = guard(|| -> Result<(), String> {
        let mut d = Decide::new(s.aux);
        let placed: std::collections::VecDeque<Result<FlightData, FlightError>> = items
            .iter()
            .map(|it| match it {
                Item::Data(fd) => {
                    let mut fd = fd.clone();
                    let how = match s.aux % 4 {
                        0 => 0,
                        1 => 1,
                        2 => 2,
                        _ => d.below(3) as u64,
                    };
                    fd.data_body = place_body(&fd.data_body, how);
                    Ok(fd)
                }
                Item::Error(m) => Err(FlightError::ProtocolError(m.clone())),
            })
            .collect();
        let inner = PendStream { items: placed, pend: s.lens.clone(), k: 0, polls_after_end: 0 };
        let mut st = FlightRecordBatchStream::new_from_flight_data(inner);
        let flag = Arc::new(FlagWaker(AtomicBool::new(false)));
        let waker = Waker::from(flag.clone());
        let mut cx = Context::from_waker(&waker);
        let mut polls = 0u64;
        loop {
            polls += 1;
            if polls > 5_000_000 {
                return Err("stuck: poll loop does not terminate".into());
            }
            match Pin::new(&mut st).poll_next(&mut cx) {
                Poll::Pending => {
                    if !flag.0.swap(false, Ordering::SeqCst) {
                        return Err("lost wakeup: Pending returned although the inner stream did not register interest".into());
                    }
                }
                Poll::Ready(None) => break,
                Poll::Ready(Some(Ok(b))) => o.push(&b),
                Poll::Ready(Some(Err(e))) => {
                    o.decl = st.schema().cloned();
                    return Err(e.to_string());
                }
            }
        }
        o.decl = st.schema().cloned();
        // fused: polling again after the end keeps returning None
        for _ in 0..2 {
            match Pin::new(&mut st).poll_next(&mut cx) {
                Poll::Ready(None) => {}
                Poll::Ready(Some(_)) => return Err("an item was produced after the end of the stream".into()),
                Poll::Pending => return Err("Pending after the end of the stream".into()),
            }
        }
        Ok(())
    });
    o.out = match r {
        Ok(Ok(())) => Out::Ok,
        Ok(Err(e)) => Out::Err(e),
        Err(p) => Out::Panic(p),
    };
    o
}

fn flight_scheds(rng: &mut Rng, n_items: usize, random: usize) -> (Vec<Sched>, bool) {
    let slots = n_items + 1;
    let mut out = Vec::new();
    let mut exhaustive = false;
    if slots <= 11 {
        // every pattern of zero / one Pending before each item and before the end
        exhaustive = true;
        for mask in 1u32..(1 << slots) {
            let lens: Vec<usize> = (0..slots).map(|b| (mask >> b & 1) as usize).collect();
            out.push(Sched { lens, aux: (mask % 4) as u64, kind: "pending-pattern" });
        }
    } else {
        for k in 0..slots {
            let mut lens = vec![0; slots];
            lens[k] = 1 + k % 3;
            out.push(Sched { lens, aux: (k % 4) as u64, kind: "pending-single" });
        }
        out.push(Sched { lens: vec![1; slots], aux: 1, kind: "pending-all" });
        out.push(Sched { lens: vec![3; slots], aux: 2, kind: "pending-all" });
    }
    for a in 1..4 {
        out.push(Sched { lens: vec![0; slots], aux: a, kind: "placement" });
    }
    for _ in 0..random {
        let p = 1 + rng.below(4);
        let lens: Vec<usize> = (0..slots).map(|_| if rng.chance(1, p as u32) { rng.below(4) } else { 0 }).collect();
        out.push(Sched { lens, aux: rng.u64() % 1000, kind: "pending-random" });
    }
    (out, exhaustive)
}

pub fn run_flight(ctx: &mut Ctx) {
    let total = ctx.tier.pick(4, 8_000, 300_000);
    let budget = Budget::new(ctx, 2.0, 5.0, 80.0);
    for i in cases_from(ctx, "flight", total) {
        if budget.over(ctx) {
            break;
        }
        let mut rng = ctx.begin("flight", i);
        case_done("flight");
        let sc = ipc_seq_cfg(&mut rng, ctx);
        let enc = guard(|| -> Result<(Vec<FlightData>, String, bool), String> {
            let seq = gen_sequence(&mut rng, &sc);
            let wo = gen_write_opts(&mut rng);
            let o = wo.to_ipc().map_err(|e| e.to_string())?;
            let max = *rng.pick(&[64usize, 256, 1024, 2 * 1024 * 1024]);
            let resend = rng.bool();
            let mut b = FlightDataEncoderBuilder::new().with_options(o).with_max_flight_data_size(max).with_dictionary_handling(if resend { FlightDict::Resend } else { FlightDict::Hydrate });
            if rng.bool() {
                b = b.with_schema(seq.schema.clone());
            }
            if rng.chance(1, 3) {
                b = b.with_metadata(Bytes::from_static(b"app-metadata"));
            }
            let mut e = b.build(futures::stream::iter(seq.batches.clone().into_iter().map(Ok::<_, FlightError>)));
            let mut data = vec![];
            while let Some(x) = block_on(e.next()) {
                data.push(x.map_err(|e| e.to_string())?);
            }
            Ok((data, format!("FlightDataEncoder: options {} max_flight_data_size={max} dictionaries={}; {}", wo.class(), if resend { "resend" } else { "hydrate" }, seq.describe().chars().take(500).collect::<String>()), wo.compression != 0))
        });
        let (data, desc, compressed) = match enc {
            Ok(Ok(x)) => x,
            _ => {
                ctx.reject();
                continue;
            }
        };
        let mut variants: Vec<(&'static str, Vec<Item>)> = vec![("valid", data.iter().cloned().map(Item::Data).collect())];
        if !data.is_empty() {
            let mut v: Vec<Item> = data.iter().cloned().map(Item::Data).collect();
            // corrupted compressed bodies can abort the process (see run_ipc): structural mutations only
            let pick = if compressed { *rng.pick(&[0usize, 1, 2, 5]) } else { rng.below(6) };
            let how = match pick {
                0 => {
                    v.insert(rng.below(v.len() + 1), Item::Error("injected transport error".into()));
                    "error-item"
                }
                1 => {
                    v.remove(0);
                    "no-schema"
                }
                2 => {
                    let first = v[0].clone();
                    v.insert(rng.below(v.len()) + 1, first);
                    "schema-twice"
                }
                3 => {
                    let k = rng.below(v.len());
                    if let Item::Data(fd) = &mut v[k] {
                        let mut h = fd.data_header.to_vec();
                        if !h.is_empty() {
                            let p = rng.below(h.len());
                            h[p] ^= 1 << rng.below(8);
                        }
                        fd.data_header = Bytes::from(h);
                    }
                    "header-bitflip"
                }
                4 => {
                    let k = rng.below(v.len());
                    if let Item::Data(fd) = &mut v[k] {
                        let n = fd.data_body.len();
                        fd.data_body = fd.data_body.slice(0..n / 2);
                    }
                    "body-truncated"
                }
                _ => {
                    let k = rng.below(v.len());
                    if let Item::Data(fd) = &mut v[k] {
                        fd.data_header = Bytes::new();
                    }
                    "empty-header"
                }
            };
            variants.push((how, v));
        }
        for (how, items) in variants {
            let (scheds, exh) = flight_scheds(&mut rng, items.len(), ctx.tier.pick(4, 24, 100));
            if exh {
                ctx.count("flight:exhaustive-pending-pattern-sets", 1);
            }
            let witness = || {
                let msgs: Vec<String> = items
                    .iter()
                    .take(30)
                    .map(|it| match it {
                        Item::Data(fd) => format!("[hdr {} body {}]", fd.data_header.len(), fd.data_body.len()),
                        Item::Error(_) => "[Err]".into(),
                    })
                    .collect();
                format!("origin: {desc}\nvariant: {how}\nFlightData items: {}", msgs.join(" "))
            };
            let validity = if how == "valid" { "valid" } else { "mutated" };
            let cmp = Cmp { limit: None, strict_msg: 2, valid: how == "valid" };
            let broken = brk("flight");
            let class = format!("{how}|items{}", bucket(items.len()));
            let base = check_input(ctx, "flight", validity, &class, items.len(), &scheds, &cmp, &witness, &mut |s: &Sched| {
                // the baseline is the schedule without any Pending
                let s0;
                let s = if s.kind == "whole" {
                    s0 = Sched { lens: vec![0; items.len() + 1], aux: 0, kind: "whole" };
                    &s0
                } else {
                    s
                };
                let mut o = run_flight_stream(&items, s);
                if let Some(how) = &broken {
                    if s.kind != "whole" {
                        break_obs(&mut o, how, &Sched { lens: vec![0; 2 + s.lens.iter().sum::<usize>()], aux: 0, kind: "x" });
                    }
                }
                o
            });
            if let Some(b) = base {
                ctx.sample(|| format!("{}\n=> {} rows in {} batches, {}", witness(), b.rows(), b.batch_rows.len(), b.out.text()));
            }
        }
    }
}
