//! C08 readers: every safe decoding entry point of arrow-rs, driven the way its rustdoc shows,
//! over one (possibly corrupted) input. Each function returns what the reader produced ([`Got`])
//! or the reader's error as text. User-side obligations of the documented usage patterns (slice a
//! block out of the file, fetch a requested byte range) are bounds-checked HERE and turned into
//! errors, so a panic can only come from arrow-rs.
//!
//! Special error prefixes understood by the oracle:
//! * `INVALID: <rule>`    – an `Ok` result that is not valid for its declared type (Variant traversal);
//! * `NOPROGRESS: <what>` – the documented consumption loop would spin forever.

use std::collections::HashMap;
use std::io::Cursor;
use std::sync::Arc;

use arrow_array::{ArrayRef, RecordBatch, RecordBatchReader};
use arrow_buffer::Buffer;
use arrow_flight::FlightData;
use arrow_flight::decode::FlightRecordBatchStream;
use arrow_flight::error::FlightError;
use arrow_flight::utils::{flight_data_to_arrow_batch, flight_data_to_batches};
use arrow_ipc::reader::{FileDecoder, FileReader, FileReaderBuilder, StreamDecoder, StreamReader, read_footer_length};
use arrow_schema::{ArrowError, Schema, SchemaRef};
use bytes::Bytes;
use futures::StreamExt;
use futures::executor::block_on;
use parquet::DecodeResult;
use parquet::arrow::ProjectionMask;
use parquet::arrow::arrow_reader::{ArrowReaderOptions, ParquetRecordBatchReaderBuilder, RowSelection, RowSelector};
use parquet::arrow::push_decoder::ParquetPushDecoderBuilder;
use parquet::column::reader::ColumnReader;
use parquet::file::metadata::{PageIndexPolicy, ParquetMetaData, ParquetMetaDataPushDecoder, ParquetMetaDataReader};
use parquet::file::reader::{FileReader as PqFileReader, SerializedFileReader};
use parquet::file::serialized_reader::ReadOptionsBuilder;
use parquet_variant::{Variant, VariantMetadata};

use super::c08gen::CsvFmt;

/// What a reader returned.
#[derive(Default)]
pub struct Got {
    /// schema announced by the reader (every batch must carry exactly these fields)
    pub schema: Option<SchemaRef>,
    pub batches: Vec<RecordBatch>,
    /// arrays outside batches
    pub arrays: Vec<ArrayRef>,
    /// items traversed by readers that do not produce arrays (pages, rows, variant nodes, metadata entries)
    pub items: u64,
}

pub const MAX_BATCHES: usize = 2048;

fn es(e: impl std::fmt::Display) -> String {
    e.to_string()
}

fn drain<I: Iterator<Item = Result<RecordBatch, ArrowError>>>(it: &mut I, out: &mut Vec<RecordBatch>) -> Result<(), String> {
    for b in it {
        out.push(b.map_err(es)?);
        if out.len() >= MAX_BATCHES {
            break;
        }
    }
    Ok(())
}

// ------------------------------------------------------------------ IPC

fn finish_file<R: std::io::Read + std::io::Seek>(mut r: FileReader<R>, random_access: bool) -> Result<Got, String> {
    let schema = r.schema();
    let n = r.num_batches();
    let _ = r.custom_metadata().len();
    let mut batches = vec![];
    drain(&mut r, &mut batches)?;
    if random_access && n > 0 && n < 1_000_000 {
        for i in [n - 1, 0, n / 2] {
            r.set_index(i).map_err(es)?;
            if let Some(b) = r.next() {
                batches.push(b.map_err(es)?);
            }
        }
    }
    Ok(Got { schema: Some(schema), batches, ..Default::default() })
}

/// mode 0: `try_new`, 1: `try_new_buffered` + `set_index`, 2: `FileReaderBuilder` (tight footer limits)
pub fn ipc_file(bytes: &[u8], mode: u8, proj: Option<Vec<usize>>) -> Result<Got, String> {
    match mode {
        0 => finish_file(FileReader::try_new(Cursor::new(bytes), proj).map_err(es)?, false),
        1 => finish_file(FileReader::try_new_buffered(Cursor::new(bytes), proj).map_err(es)?, true),
        _ => {
            let mut b = FileReaderBuilder::new().with_max_footer_fb_tables(100_000).with_max_footer_fb_depth(32);
            if let Some(p) = proj {
                b = b.with_projection(p);
            }
            finish_file(b.build(Cursor::new(bytes)).map_err(es)?, false)
        }
    }
}

/// The zero-copy `FileDecoder` path of the `FileDecoder` rustdoc example (with the bounds checks the
/// example leaves to `slice_with_length`).
pub fn ipc_filedecoder(bytes: &[u8], align: bool) -> Result<Got, String> {
    let buffer = Buffer::from(bytes.to_vec());
    let n = buffer.len();
    if n < 10 {
        return Err("shorter than the trailer".into());
    }
    let trailer: [u8; 10] = buffer[n - 10..].try_into().unwrap();
    let flen = read_footer_length(trailer).map_err(es)?;
    if flen > n - 10 {
        return Err("footer length exceeds the file".into());
    }
    let footer = arrow_ipc::root_as_footer(&buffer[n - 10 - flen..n - 10]).map_err(es)?;
    let schema = arrow_ipc::convert::try_fb_to_schema(footer.schema().ok_or("footer without schema")?).map_err(es)?;
    let schema = Arc::new(schema);
    let mut dec = FileDecoder::new(schema.clone(), footer.version()).with_require_alignment(align);
    let slice = |off: i64, meta: i32, body: i64| -> Result<Buffer, String> {
        let (o, m, b) = (usize::try_from(off).map_err(es)?, usize::try_from(meta).map_err(es)?, usize::try_from(body).map_err(es)?);
        let len = m.checked_add(b).ok_or("block length overflow")?;
        if o.checked_add(len).is_none_or(|e| e > n) {
            return Err("block outside the file".into());
        }
        Ok(buffer.slice_with_length(o, len))
    };
    for block in footer.dictionaries().iter().flatten() {
        let data = slice(block.offset(), block.metaDataLength(), block.bodyLength())?;
        dec.read_dictionary(block, &data).map_err(es)?;
    }
    let mut batches = vec![];
    for block in footer.recordBatches().iter().flatten() {
        let data = slice(block.offset(), block.metaDataLength(), block.bodyLength())?;
        if let Some(b) = dec.read_record_batch(block, &data).map_err(es)? {
            batches.push(b);
        }
        if batches.len() >= MAX_BATCHES {
            break;
        }
    }
    Ok(Got { schema: Some(schema), batches, ..Default::default() })
}

pub fn ipc_stream(bytes: &[u8], buffered: bool, proj: Option<Vec<usize>>) -> Result<Got, String> {
    let mut batches = vec![];
    let schema = if buffered {
        let mut r = StreamReader::try_new_buffered(Cursor::new(bytes), proj).map_err(es)?;
        let s = r.schema();
        drain(&mut r, &mut batches)?;
        s
    } else {
        let mut r = StreamReader::try_new(bytes, proj).map_err(es)?;
        let s = r.schema();
        drain(&mut r, &mut batches)?;
        let _ = r.is_finished();
        s
    };
    Ok(Got { schema: Some(schema), batches, ..Default::default() })
}

/// `StreamDecoder` fed in chunks (`chunk == 0`: everything at once), consumption loop of its rustdoc.
pub fn ipc_decoder(bytes: &[u8], chunk: usize, align: bool) -> Result<Got, String> {
    let mut dec = StreamDecoder::new().with_require_alignment(align);
    let mut batches = vec![];
    let mut pos = 0usize;
    while pos < bytes.len() {
        let end = if chunk == 0 { bytes.len() } else { (pos + chunk).min(bytes.len()) };
        let mut b = Buffer::from(bytes[pos..end].to_vec());
        pos = end;
        while !b.is_empty() {
            let before = b.len();
            match dec.decode(&mut b).map_err(es)? {
                Some(batch) => batches.push(batch),
                None => {
                    if b.len() == before {
                        return Err("NOPROGRESS: StreamDecoder::decode returned Ok(None) without consuming a non-empty buffer".into());
                    }
                }
            }
            if batches.len() >= MAX_BATCHES {
                return Ok(Got { schema: dec.schema(), batches, ..Default::default() });
            }
        }
    }
    dec.finish().map_err(es)?;
    Ok(Got { schema: dec.schema(), batches, ..Default::default() })
}

/// schema-only entry points (Flight `SchemaResult` / `FlightInfo.schema` bytes)
pub fn ipc_schema_bytes(bytes: &[u8]) -> Result<Got, String> {
    let a = arrow_ipc::convert::try_schema_from_ipc_buffer(bytes).map_err(es);
    let b = arrow_ipc::convert::try_schema_from_flatbuffer_bytes(bytes).map_err(es);
    match (a, b) {
        (Ok(s), _) | (_, Ok(s)) => Ok(Got { schema: Some(Arc::new(s)), items: 1, ..Default::default() }),
        (Err(e), _) => Err(e),
    }
}

// ------------------------------------------------------------------ Flight

pub type FlightMsgs = Vec<(Vec<u8>, Vec<u8>)>;

pub fn to_flight(msgs: &FlightMsgs) -> Vec<FlightData> {
    msgs.iter().map(|(h, b)| FlightData { data_header: Bytes::from(h.clone()), data_body: Bytes::from(b.clone()), ..Default::default() }).collect()
}

pub fn flight_stream(msgs: &FlightMsgs) -> Result<Got, String> {
    let data = to_flight(msgs);
    let mut s = FlightRecordBatchStream::new_from_flight_data(futures::stream::iter(data.into_iter().map(Ok::<_, FlightError>)));
    let mut batches = vec![];
    while let Some(x) = block_on(s.next()) {
        batches.push(x.map_err(es)?);
        if batches.len() >= MAX_BATCHES {
            break;
        }
    }
    Ok(Got { schema: s.schema().cloned(), batches, ..Default::default() })
}

pub fn flight_utils(msgs: &FlightMsgs) -> Result<Got, String> {
    let data = to_flight(msgs);
    match flight_data_to_batches(&data) {
        Ok(batches) => Ok(Got { schema: batches.first().map(|b| b.schema()), batches, ..Default::default() }),
        Err(e1) => {
            // message by message with the schema of the first message (no dictionaries)
            let Some(first) = data.first() else { return Err(es(e1)) };
            let schema = Arc::new(Schema::try_from(first).map_err(es)?);
            let mut batches = vec![];
            for d in &data[1..] {
                match flight_data_to_arrow_batch(d, schema.clone(), &HashMap::new()) {
                    Ok(b) => batches.push(b),
                    Err(e) => {
                        if batches.is_empty() {
                            return Err(es(e));
                        }
                        break;
                    }
                }
            }
            Ok(Got { schema: Some(schema), batches, ..Default::default() })
        }
    }
}

// ------------------------------------------------------------------ Parquet

#[derive(Clone, Debug)]
pub struct PqOpts {
    pub policy: u8,
    pub skip_arrow_md: bool,
    pub batch_size: usize,
    pub leaves: Option<Vec<usize>>,
    pub selection: Option<Vec<(bool, usize)>>,
    pub limit: Option<usize>,
    pub offset: Option<usize>,
}

fn policy(p: u8) -> PageIndexPolicy {
    match p {
        0 => PageIndexPolicy::Skip,
        1 => PageIndexPolicy::Optional,
        _ => PageIndexPolicy::Required,
    }
}

fn touch_metadata(md: &ParquetMetaData) -> u64 {
    let mut items = 0u64;
    let fm = md.file_metadata();
    let _ = (fm.version(), fm.num_rows(), fm.created_by().map(|s| s.len()), fm.key_value_metadata().map(|k| k.len()));
    let sd = fm.schema_descr();
    for i in 0..sd.num_columns() {
        let c = sd.column(i);
        let _ = (c.max_def_level(), c.max_rep_level(), c.physical_type(), c.path().string().len(), c.type_length());
        let _ = sd.get_column_root_idx(i);
        items += 1;
    }
    for rg in md.row_groups() {
        let _ = (rg.num_rows(), rg.total_byte_size(), rg.compressed_size());
        for c in rg.columns() {
            let _ = (c.byte_range(), c.compression(), c.num_values(), c.encodings().count());
            if let Some(s) = c.statistics() {
                let _ = (s.null_count_opt(), s.distinct_count_opt(), s.min_bytes_opt().map(|b| b.len()), s.max_bytes_opt().map(|b| b.len()));
                let _ = format!("{s}");
            }
            let _ = c.page_encoding_stats().map(|s| s.len());
            items += 1;
        }
    }
    if let Some(pi) = md.page_index() {
        let _ = (pi.has_column_indexes(), pi.has_offset_indexes(), pi.is_complete());
        for (r, rg) in md.row_groups().iter().enumerate() {
            for c in 0..rg.num_columns() {
                if pi.column_index(r, c).is_some() {
                    items += 1;
                }
                if let Some(oi) = pi.offset_index(r, c) {
                    items += oi.page_locations().len() as u64;
                }
            }
        }
    }
    items
}

pub fn pq_meta(bytes: &Bytes, pol: u8) -> Result<Got, String> {
    let md = ParquetMetaDataReader::new().with_page_index_policy(policy(pol)).parse_and_finish(bytes).map_err(es)?;
    let mut items = touch_metadata(&md);
    // the footer-only entry points
    let n = bytes.len();
    if n >= 8 {
        let flen = u32::from_le_bytes(bytes[n - 8..n - 4].try_into().unwrap()) as usize;
        if flen + 8 <= n {
            let foot = &bytes[n - 8 - flen..n - 8];
            let m2 = ParquetMetaDataReader::decode_metadata(foot).map_err(es)?;
            items += touch_metadata(&m2);
            let _ = ParquetMetaDataReader::decode_schema(foot).map_err(es)?;
        }
    }
    Ok(Got { items, ..Default::default() })
}

fn fetch(bytes: &Bytes, ranges: &[std::ops::Range<u64>]) -> Result<Vec<Bytes>, String> {
    let n = bytes.len() as u64;
    let mut out = vec![];
    for r in ranges {
        if r.start > r.end || r.end > n {
            return Err(format!("decoder requested bytes {}..{} of a {n} byte file", r.start, r.end));
        }
        out.push(bytes.slice(r.start as usize..r.end as usize));
    }
    Ok(out)
}

fn meta_push(bytes: &Bytes, pol: u8, all_at_once: bool) -> Result<ParquetMetaData, String> {
    let n = bytes.len() as u64;
    let mut d = ParquetMetaDataPushDecoder::try_new(n).map_err(es)?.with_page_index_policy(policy(pol));
    if all_at_once {
        d.push_ranges(vec![0..n], vec![bytes.clone()]).map_err(es)?;
    }
    for _ in 0..10_000 {
        match d.try_decode().map_err(es)? {
            DecodeResult::NeedsData(ranges) => {
                if ranges.is_empty() {
                    return Err("NOPROGRESS: ParquetMetaDataPushDecoder asked for an empty list of ranges".into());
                }
                let data = fetch(bytes, &ranges)?;
                d.push_ranges(ranges, data).map_err(es)?;
            }
            DecodeResult::Data(m) => return Ok(m),
            DecodeResult::Finished => return Err("metadata decoder finished without metadata".into()),
        }
    }
    Err("NOPROGRESS: ParquetMetaDataPushDecoder still needs data after 10000 pushes of exactly the requested ranges".into())
}

pub fn pq_metapush(bytes: &Bytes, pol: u8, all_at_once: bool) -> Result<Got, String> {
    let m = meta_push(bytes, pol, all_at_once)?;
    Ok(Got { items: touch_metadata(&m), ..Default::default() })
}

pub fn pq_pages(bytes: &Bytes, page_index: bool, skip_some: bool) -> Result<Got, String> {
    let r = if page_index {
        SerializedFileReader::new_with_options(bytes.clone(), ReadOptionsBuilder::new().with_page_index().build()).map_err(es)?
    } else {
        SerializedFileReader::new(bytes.clone()).map_err(es)?
    };
    let mut items = 0u64;
    for i in 0..r.num_row_groups() {
        let rg = r.get_row_group(i).map_err(es)?;
        for c in 0..rg.num_columns() {
            let _ = rg.get_column_bloom_filter(c).is_some();
            let mut pr = rg.get_column_page_reader(c).map_err(es)?;
            let mut k = 0u32;
            loop {
                k += 1;
                if skip_some && k % 3 == 0 {
                    match pr.peek_next_page().map_err(es)? {
                        Some(_) => pr.skip_next_page().map_err(es)?,
                        None => break,
                    }
                    items += 1;
                } else {
                    match pr.get_next_page().map_err(es)? {
                        Some(p) => {
                            let _ = (p.page_type(), p.num_values(), p.encoding(), p.buffer().len());
                            items += 1;
                        }
                        None => break,
                    }
                }
                if items > 200_000 {
                    return Err("NOPROGRESS: more than 200000 pages".into());
                }
            }
        }
    }
    Ok(Got { items, ..Default::default() })
}

pub fn pq_column(bytes: &Bytes, batch: usize) -> Result<Got, String> {
    let r = SerializedFileReader::new(bytes.clone()).map_err(es)?;
    let mut items = 0u64;
    macro_rules! pump {
        ($rd:expr) => {{
            let mut rd = $rd;
            let mut iters = 0u32;
            loop {
                let (mut def, mut rep, mut vals) = (Vec::new(), Vec::new(), Vec::new());
                let (recs, nvals, nlev) = rd.read_records(batch, Some(&mut def), Some(&mut rep), &mut vals).map_err(es)?;
                items += (recs + nvals + nlev) as u64;
                if vals.len() < nvals {
                    return Err(format!("INVALID: read_records reports {nvals} values but the buffer holds {}", vals.len()));
                }
                iters += 1;
                if recs == 0 && nlev == 0 {
                    break;
                }
                if iters > 100_000 {
                    return Err("NOPROGRESS: read_records keeps returning records after 100000 calls".into());
                }
            }
        }};
    }
    for i in 0..r.num_row_groups() {
        let rg = r.get_row_group(i).map_err(es)?;
        for c in 0..rg.num_columns() {
            match rg.get_column_reader(c).map_err(es)? {
                ColumnReader::BoolColumnReader(x) => pump!(x),
                ColumnReader::Int32ColumnReader(x) => pump!(x),
                ColumnReader::Int64ColumnReader(x) => pump!(x),
                ColumnReader::Int96ColumnReader(x) => pump!(x),
                ColumnReader::FloatColumnReader(x) => pump!(x),
                ColumnReader::DoubleColumnReader(x) => pump!(x),
                ColumnReader::ByteArrayColumnReader(x) => pump!(x),
                ColumnReader::FixedLenByteArrayColumnReader(x) => pump!(x),
            }
        }
    }
    Ok(Got { items, ..Default::default() })
}

pub fn pq_rows(bytes: &Bytes) -> Result<Got, String> {
    let r = SerializedFileReader::new(bytes.clone()).map_err(es)?;
    let mut items = 0u64;
    for row in r.get_row_iter(None).map_err(es)? {
        let row = row.map_err(es)?;
        items += row.len() as u64 + 1;
        if items < 2_000 {
            let _ = format!("{row}");
        }
        if items > 2_000_000 {
            break;
        }
    }
    Ok(Got { items, ..Default::default() })
}

pub fn pq_arrow(bytes: &Bytes, o: &PqOpts) -> Result<Got, String> {
    let opts = ArrowReaderOptions::new().with_page_index_policy(policy(o.policy)).with_skip_arrow_metadata(o.skip_arrow_md);
    let mut b = ParquetRecordBatchReaderBuilder::try_new_with_options(bytes.clone(), opts).map_err(es)?;
    let nleaves = b.parquet_schema().num_columns();
    if let Some(l) = &o.leaves {
        if nleaves > 0 {
            let mask = ProjectionMask::leaves(b.parquet_schema(), l.iter().map(|i| i % nleaves));
            b = b.with_projection(mask);
        }
    }
    if let Some(sel) = &o.selection {
        let v: Vec<RowSelector> = sel.iter().map(|(skip, n)| if *skip { RowSelector::skip(*n) } else { RowSelector::select(*n) }).collect();
        b = b.with_row_selection(RowSelection::from(v));
    }
    if let Some(l) = o.limit {
        b = b.with_limit(l);
    }
    if let Some(l) = o.offset {
        b = b.with_offset(l);
    }
    let mut reader = b.with_batch_size(o.batch_size).build().map_err(es)?;
    let schema = reader.schema();
    let mut batches = vec![];
    drain(&mut reader, &mut batches)?;
    Ok(Got { schema: Some(schema), batches, ..Default::default() })
}

pub fn pq_push(bytes: &Bytes, batch_size: usize) -> Result<Got, String> {
    let meta = Arc::new(meta_push(bytes, 1, true)?);
    let mut dec = ParquetPushDecoderBuilder::try_new_decoder(meta).map_err(es)?.with_batch_size(batch_size).build().map_err(es)?;
    let mut batches = vec![];
    for _ in 0..50_000 {
        match dec.try_decode().map_err(es)? {
            DecodeResult::NeedsData(ranges) => {
                if ranges.is_empty() {
                    return Err("NOPROGRESS: ParquetPushDecoder asked for an empty list of ranges".into());
                }
                let data = fetch(bytes, &ranges)?;
                dec.push_ranges(ranges, data).map_err(es)?;
            }
            DecodeResult::Data(b) => {
                batches.push(b);
                if batches.len() >= MAX_BATCHES {
                    break;
                }
            }
            DecodeResult::Finished => return Ok(Got { batches, ..Default::default() }),
        }
    }
    if batches.len() >= MAX_BATCHES {
        return Ok(Got { batches, ..Default::default() });
    }
    Err("NOPROGRESS: ParquetPushDecoder not finished after 50000 steps with every requested range supplied".into())
}

// ------------------------------------------------------------------ Avro

#[derive(Clone, Debug)]
pub struct AvroOpts {
    pub batch_size: usize,
    pub utf8_view: bool,
    pub strict: bool,
}

pub fn avro_ocf(bytes: &[u8], o: &AvroOpts) -> Result<Got, String> {
    let mut r = arrow_avro::reader::ReaderBuilder::new()
        .with_batch_size(o.batch_size)
        .with_utf8_view(o.utf8_view)
        .with_strict_mode(o.strict)
        .build(Cursor::new(bytes))
        .map_err(es)?;
    let schema = r.schema();
    let mut batches = vec![];
    drain(&mut r, &mut batches)?;
    Ok(Got { schema: Some(schema), batches, ..Default::default() })
}

pub fn avro_soe(bytes: &[u8], writer_json: &str, o: &AvroOpts, chunk: usize) -> Result<Got, String> {
    use arrow_avro::schema::{AvroSchema, SchemaStore};
    let mut store = SchemaStore::new();
    store.register(AvroSchema::new(writer_json.to_string())).map_err(es)?;
    let mut dec = arrow_avro::reader::ReaderBuilder::new()
        .with_writer_schema_store(store)
        .with_batch_size(o.batch_size)
        .with_utf8_view(o.utf8_view)
        .with_strict_mode(o.strict)
        .build_decoder()
        .map_err(es)?;
    let schema = dec.schema();
    let mut batches = vec![];
    let mut off = 0usize;
    let mut iters = 0u32;
    while off < bytes.len() {
        iters += 1;
        if iters > 200_000 {
            return Err("NOPROGRESS: avro Decoder::decode consumed less than one byte per call on average".into());
        }
        let end = if chunk == 0 { bytes.len() } else { (off + chunk).min(bytes.len()) };
        let n = dec.decode(&bytes[off..end]).map_err(es)?;
        off += n;
        if dec.batch_is_full() {
            if let Some(b) = dec.flush().map_err(es)? {
                batches.push(b);
            }
        } else if n == 0 {
            if end == bytes.len() {
                break; // incomplete trailing record
            }
            // the decoder wants more than this chunk: give it everything that is left
            let n = dec.decode(&bytes[off..]).map_err(es)?;
            if n == 0 {
                break;
            }
            off += n;
        }
        if batches.len() >= MAX_BATCHES {
            break;
        }
    }
    if let Some(b) = dec.flush().map_err(es)? {
        batches.push(b);
    }
    Ok(Got { schema: Some(schema), batches, ..Default::default() })
}

// ------------------------------------------------------------------ CSV

#[derive(Clone, Debug)]
pub struct CsvOpts {
    pub mode: u8,
    pub batch_size: usize,
    pub truncated: bool,
    pub bounds: Option<(usize, usize)>,
    pub projection: Option<Vec<usize>>,
    pub chunk: usize,
    pub comment: bool,
}

fn csv_format(f: &CsvFmt) -> arrow_csv::reader::Format {
    let mut x = arrow_csv::reader::Format::default().with_header(f.header).with_delimiter(f.delimiter).with_quote(f.quote);
    if let Some(e) = f.escape {
        x = x.with_escape(e);
    }
    x
}

pub fn csv_read(bytes: &[u8], schema: SchemaRef, f: &CsvFmt, o: &CsvOpts) -> Result<Got, String> {
    let mut b = arrow_csv::ReaderBuilder::new(schema.clone()).with_format(csv_format(f)).with_batch_size(o.batch_size).with_truncated_rows(o.truncated);
    if let Some((s, e)) = o.bounds {
        b = b.with_bounds(s, e);
    }
    if o.comment {
        b = b.with_comment(b'#');
    }
    if let Some(p) = &o.projection {
        let n = schema.fields().len();
        if n > 0 {
            b = b.with_projection(p.iter().map(|i| i % n).collect());
        }
    }
    let mut batches = vec![];
    let out_schema;
    match o.mode {
        0 => {
            let mut r = b.build(Cursor::new(bytes)).map_err(es)?;
            out_schema = r.schema();
            drain(&mut r, &mut batches)?;
        }
        1 => {
            let mut r = b.build_buffered(Cursor::new(bytes)).map_err(es)?;
            out_schema = r.schema();
            drain(&mut r, &mut batches)?;
        }
        _ => {
            // push decoder, the loop of the `Decoder` rustdoc over a chunked source: decode until it
            // returns 0 (batch full, bounds reached or no more input), then flush; stop when flush is empty
            let mut dec = b.build_decoder();
            let mut off = 0usize;
            let chunk = o.chunk.max(1);
            let mut calls = 0u64;
            loop {
                loop {
                    calls += 1;
                    if calls > 2_000_000 {
                        return Err("NOPROGRESS: csv Decoder::decode keeps consuming without ever filling a batch".into());
                    }
                    let end = (off + chunk).min(bytes.len());
                    let n = dec.decode(&bytes[off..end]).map_err(es)?;
                    if n == 0 {
                        break;
                    }
                    off += n;
                }
                match dec.flush().map_err(es)? {
                    Some(b) => batches.push(b),
                    None => break,
                }
                if batches.len() >= MAX_BATCHES {
                    break;
                }
            }
            out_schema = batches.first().map(|b| b.schema()).unwrap_or(schema);
        }
    }
    Ok(Got { schema: Some(out_schema), batches, ..Default::default() })
}

pub fn csv_infer(bytes: &[u8], f: &CsvFmt, o: &CsvOpts) -> Result<Got, String> {
    let (schema, _n) = csv_format(f).infer_schema(Cursor::new(bytes), Some(200)).map_err(es)?;
    let mut o = o.clone();
    o.projection = None;
    o.bounds = None;
    csv_read(bytes, Arc::new(schema), f, &o)
}

// ------------------------------------------------------------------ JSON

#[derive(Clone, Debug)]
pub struct JsonOpts {
    pub batch_size: usize,
    pub strict: bool,
    pub coerce: bool,
    pub list_mode: bool,
    pub ignore_conflicts: bool,
    pub flatten: bool,
    /// 0: everything at once through `Reader`; otherwise chunk size of the push decoder
    pub chunk: usize,
}

pub fn json_read(bytes: &[u8], schema: SchemaRef, o: &JsonOpts) -> Result<Got, String> {
    let b = arrow_json::ReaderBuilder::new(schema.clone())
        .with_batch_size(o.batch_size)
        .with_strict_mode(o.strict)
        .with_coerce_primitive(o.coerce)
        .with_struct_mode(if o.list_mode { arrow_json::StructMode::ListOnly } else { arrow_json::StructMode::ObjectOnly })
        .with_ignore_type_conflicts(o.ignore_conflicts)
        .with_flatten(o.flatten);
    let mut batches = vec![];
    if o.chunk == 0 {
        let mut r = b.build(Cursor::new(bytes)).map_err(es)?;
        drain(&mut r, &mut batches)?;
    } else {
        // the loop of the `Decoder` rustdoc: decode until 0, flush, stop when flush is empty
        let mut dec = b.build_decoder().map_err(es)?;
        let mut off = 0usize;
        let mut calls = 0u64;
        loop {
            loop {
                calls += 1;
                if calls > 2_000_000 {
                    return Err("NOPROGRESS: json Decoder::decode keeps consuming without ever filling a batch".into());
                }
                let end = (off + o.chunk).min(bytes.len());
                let n = dec.decode(&bytes[off..end]).map_err(es)?;
                if n == 0 {
                    break;
                }
                off += n;
            }
            match dec.flush().map_err(es)? {
                Some(b) => batches.push(b),
                None => break,
            }
            if batches.len() >= MAX_BATCHES {
                break;
            }
        }
    }
    Ok(Got { schema: Some(schema), batches, ..Default::default() })
}

pub fn json_infer(bytes: &[u8], o: &JsonOpts) -> Result<Got, String> {
    let (schema, _n) = arrow_json::reader::infer_json_schema(Cursor::new(bytes), Some(100)).map_err(es)?;
    let mut o = o.clone();
    o.list_mode = false;
    json_read(bytes, Arc::new(schema), &o)
}

// ------------------------------------------------------------------ Variant

fn touch_primitive(v: &Variant) {
    let _ = (v.as_null(), v.as_boolean(), v.as_int8(), v.as_int16(), v.as_int32(), v.as_int64());
    let _ = (v.as_u8(), v.as_u16(), v.as_u32(), v.as_u64(), v.as_f32(), v.as_f64());
    let _ = (v.as_decimal4(), v.as_decimal8(), v.as_decimal16());
    let _ = (v.as_naive_date(), v.as_timestamp_micros(), v.as_timestamp_ntz_micros(), v.as_timestamp_nanos(), v.as_timestamp_ntz_nanos(), v.as_time_utc());
    let _ = (v.as_u8_slice().map(|b| b.len()), v.as_string().map(|s| s.len()), v.as_uuid());
    let _ = format!("{v:?}");
}

fn traverse(v: &Variant, depth: u32, budget: &mut u64) -> Result<(), String> {
    if *budget == 0 || depth > 128 {
        return Ok(());
    }
    *budget -= 1;
    match v {
        Variant::Object(o) => {
            let n = o.len();
            let _ = o.is_empty();
            let mut prev: Option<&str> = None;
            for i in 0..n {
                let name = o.field_name(i).ok_or_else(|| "INVALID: validated object: field_name(i) is None for i < len()".to_string())?;
                let f = o.field(i).ok_or_else(|| "INVALID: validated object: field(i) is None for i < len()".to_string())?;
                if let Some(p) = prev {
                    if p >= name {
                        return Err("INVALID: validated object whose field names are not strictly increasing (duplicate or unsorted keys)".into());
                    }
                }
                prev = Some(name);
                if i < 64 && o.get(name).is_none() {
                    return Err("INVALID: validated object: get(field_name(i)) is None".into());
                }
                traverse(&f, depth + 1, budget)?;
                if *budget == 0 {
                    return Ok(());
                }
            }
            if n < 10_000 && o.iter().count() != n {
                return Err("INVALID: validated object: iter() yields a different number of fields than len()".into());
            }
            let _ = o.field(n).is_none();
        }
        Variant::List(l) => {
            let n = l.len();
            let _ = l.is_empty();
            for i in 0..n {
                let e = l.get(i).ok_or_else(|| "INVALID: validated list: get(i) is None for i < len()".to_string())?;
                traverse(&e, depth + 1, budget)?;
                if *budget == 0 {
                    return Ok(());
                }
            }
            if n < 10_000 && l.iter().count() != n {
                return Err("INVALID: validated list: iter() yields a different number of elements than len()".into());
            }
            let _ = l.get(n).is_none();
        }
        p => touch_primitive(p),
    }
    Ok(())
}

/// `Variant::try_new` (full validation) followed by a complete traversal through the infallible
/// accessors, plus the metadata dictionary on its own.
pub fn variant(metadata: &[u8], value: &[u8]) -> Result<Got, String> {
    let mut items = 0u64;
    let md_res = VariantMetadata::try_new(metadata);
    if let Ok(md) = &md_res {
        let n = md.len();
        let _ = (md.is_empty(), md.is_sorted(), md.size());
        for i in 0..n.min(50_000) {
            let s = md.get(i).map_err(|e| format!("INVALID: validated metadata: get({i}) of {n} fails: {e}"))?;
            items += 1;
            if i < 32 {
                let _ = md.get_entry(s);
            }
        }
        if n < 50_000 && md.iter().count() != n {
            return Err("INVALID: validated metadata: iter() yields a different number of strings than len()".into());
        }
    }
    let v = Variant::try_new(metadata, value).map_err(es)?;
    if md_res.is_err() {
        return Err("INVALID: Variant::try_new accepted a metadata buffer that VariantMetadata::try_new rejects".into());
    }
    let mut budget = 60_000u64;
    traverse(&v, 0, &mut budget)?;
    items += 60_000 - budget;
    let _ = v.metadata().len();
    Ok(Got { items, ..Default::default() })
}
