//! C14, text decoders: arrow-csv `Decoder` / `BufReader`, arrow-json `Decoder` / `Reader`.
//! Own generators (value model -> text with random quoting, escapes, terminators, whitespace),
//! the arrow writers, hand-built edge inputs and corrupted variants.

use super::c14::*;
use arrow_array::{RecordBatch, RecordBatchReader};
use arrow_schema::{DataType, Field, Fields, Schema, SchemaRef, TimeUnit};
use std::io::Cursor;
use std::sync::Arc;
use vcore::build::build;
use vcore::mon::{Ctx, guard};
use vcore::rng::Rng;
use vcore::val::Val;

// ------------------------------------------------------------------ value model shared by CSV / JSON

#[derive(Clone, Copy, Debug, PartialEq, Eq)]
enum K {
    I64,
    I32,
    U8,
    F64,
    Bool,
    Str,
    LargeStr,
    StrView,
    Date,
    TsMicro,
    Dec,
    // JSON only
    ListI64,
    Struct,
}

impl K {
    fn dt(&self) -> DataType {
        match self {
            K::I64 => DataType::Int64,
            K::I32 => DataType::Int32,
            K::U8 => DataType::UInt8,
            K::F64 => DataType::Float64,
            K::Bool => DataType::Boolean,
            K::Str => DataType::Utf8,
            K::LargeStr => DataType::LargeUtf8,
            K::StrView => DataType::Utf8View,
            K::Date => DataType::Date32,
            K::TsMicro => DataType::Timestamp(TimeUnit::Microsecond, None),
            K::Dec => DataType::Decimal128(12, 2),
            K::ListI64 => DataType::List(Arc::new(Field::new("item", DataType::Int64, true))),
            K::Struct => DataType::Struct(Fields::from(vec![Field::new("x", DataType::Int64, true), Field::new("s", DataType::Utf8, true)])),
        }
    }
    fn name(&self) -> &'static str {
        match self {
            K::I64 => "i64",
            K::I32 => "i32",
            K::U8 => "u8",
            K::F64 => "f64",
            K::Bool => "bool",
            K::Str => "utf8",
            K::LargeStr => "lutf8",
            K::StrView => "view",
            K::Date => "date",
            K::TsMicro => "ts",
            K::Dec => "dec",
            K::ListI64 => "list",
            K::Struct => "struct",
        }
    }
}

const PIECES: [&str; 30] = [
    "a", "b", "Z", "0", "7", " ", "  ", ",", ";", "\t", "|", "\"", "'", "\\", "\n", "\r", "\r\n", "é", "ß", "日本", "😀", "#", "$", "/", "{", "}", "[", ":", "\u{1}", "\u{7f}",
];

fn gen_str(rng: &mut Rng) -> String {
    let n = match rng.below(8) {
        0 => 1,
        1..=4 => 1 + rng.below(4),
        5 | 6 => 1 + rng.below(10),
        _ => 10 + rng.below(40),
    };
    let mut s = String::new();
    let plain = rng.chance(1, 3);
    for _ in 0..n {
        if plain {
            s.push((b'a' + rng.below(26) as u8) as char);
        } else {
            s.push_str(*rng.pick(&PIECES[..]));
        }
    }
    s
}

fn gen_i(rng: &mut Rng, lo: i64, hi: i64) -> i64 {
    match rng.below(6) {
        0 => lo,
        1 => hi,
        2 => 0,
        3 => rng.range(-9, 9).clamp(lo, hi),
        _ => rng.range(lo, hi),
    }
}

fn gen_f(rng: &mut Rng) -> f64 {
    match rng.below(8) {
        0 => 0.0,
        1 => -0.0,
        2 => 1.5,
        3 => -2.5e-7,
        4 => 1e300,
        5 => (rng.range(-1000000, 1000000) as f64) / 1000.0,
        6 => f64::MIN_POSITIVE,
        _ => {
            let v = f64::from_bits(rng.u64());
            if v.is_finite() { v } else { 3.25 }
        }
    }
}

fn gen_val(rng: &mut Rng, k: K, nullable: bool) -> Val {
    if nullable && rng.chance(1, 6) {
        return Val::Null;
    }
    match k {
        K::I64 => Val::Int(gen_i(rng, i64::MIN, i64::MAX) as i128),
        K::I32 => Val::Int(gen_i(rng, i32::MIN as i64, i32::MAX as i64) as i128),
        K::U8 => Val::Int(gen_i(rng, 0, 255) as i128),
        K::F64 => Val::F64(gen_f(rng).to_bits()),
        K::Bool => Val::Bool(rng.bool()),
        K::Str | K::LargeStr | K::StrView => Val::Str(gen_str(rng)),
        K::Date => Val::Int(gen_i(rng, -25_000, 47_000) as i128),
        K::TsMicro => {
            let d = gen_i(rng, -25_000, 47_000);
            let us = rng.range(0, 86_400_000_000 - 1);
            let us = if rng.chance(1, 3) { us / 1_000_000 * 1_000_000 } else { us };
            Val::Int((d as i128) * 86_400_000_000 + us as i128)
        }
        K::Dec => Val::Int(gen_i(rng, -99_999_999_999, 99_999_999_999) as i128),
        K::ListI64 => {
            let n = rng.below(4);
            Val::List((0..n).map(|_| if rng.chance(1, 5) { Val::Null } else { Val::Int(gen_i(rng, -1000, 1000) as i128) }).collect())
        }
        K::Struct => Val::Struct(vec![
            if rng.chance(1, 4) { Val::Null } else { Val::Int(gen_i(rng, -1000, 1000) as i128) },
            if rng.chance(1, 4) { Val::Null } else { Val::Str(gen_str(rng)) },
        ]),
    }
}

/// (year, month, day) of a day number relative to 1970-01-01 (proleptic Gregorian)
fn civil(days: i64) -> (i64, u32, u32) {
    let z = days + 719_468;
    let era = z.div_euclid(146_097);
    let doe = z.rem_euclid(146_097);
    let yoe = (doe - doe / 1460 + doe / 36_524 - doe / 146_096) / 365;
    let y = yoe + era * 400;
    let doy = doe - (365 * yoe + yoe / 4 - yoe / 100);
    let mp = (5 * doy + 2) / 153;
    let d = (doy - (153 * mp + 2) / 5 + 1) as u32;
    let m = if mp < 10 { mp + 3 } else { mp - 9 } as u32;
    (if m <= 2 { y + 1 } else { y }, m, d)
}

fn fmt_date(days: i64) -> String {
    let (y, m, d) = civil(days);
    format!("{y:04}-{m:02}-{d:02}")
}

fn fmt_ts(us: i128, rng: &mut Rng) -> String {
    let days = us.div_euclid(86_400_000_000) as i64;
    let rem = us.rem_euclid(86_400_000_000) as i64;
    let (secs, frac) = (rem / 1_000_000, rem % 1_000_000);
    let sep = if rng.bool() { 'T' } else { ' ' };
    let base = format!("{}{sep}{:02}:{:02}:{:02}", fmt_date(days), secs / 3600, secs / 60 % 60, secs % 60);
    if frac == 0 && rng.bool() { base } else { format!("{base}.{frac:06}") }
}

fn fmt_f64(v: f64, rng: &mut Rng) -> String {
    match rng.below(3) {
        0 => format!("{v:?}"),
        1 => format!("{v:e}"),
        _ => format!("{v:E}"),
    }
}

fn fmt_dec(v: i128) -> String {
    let neg = v < 0;
    let a = v.unsigned_abs();
    format!("{}{}.{:02}", if neg { "-" } else { "" }, a / 100, a % 100)
}

#[derive(Clone, Debug)]
struct Table {
    kinds: Vec<K>,
    nullable: Vec<bool>,
    names: Vec<String>,
    cols: Vec<Vec<Val>>,
    rows: usize,
}

impl Table {
    fn schema(&self) -> SchemaRef {
        Arc::new(Schema::new(self.kinds.iter().zip(&self.nullable).zip(&self.names).map(|((k, n), name)| Field::new(name, k.dt(), *n)).collect::<Vec<_>>()))
    }
    fn batch(&self, lo: usize, hi: usize) -> RecordBatch {
        let cols: Vec<_> = self.kinds.iter().zip(&self.cols).map(|(k, c)| build(&k.dt(), &c[lo..hi])).collect();
        RecordBatch::try_new_with_options(self.schema(), cols, &arrow_array::RecordBatchOptions::new().with_row_count(Some(hi - lo))).expect("model: batch")
    }
    fn class(&self) -> String {
        let mut k: Vec<&str> = self.kinds.iter().map(|k| k.name()).collect();
        k.sort_unstable();
        k.dedup();
        k.join("+")
    }
}

fn gen_table(rng: &mut Rng, kinds: &[K], max_cols: usize, max_rows: usize) -> Table {
    let nc = 1 + rng.below(max_cols);
    let ks: Vec<K> = (0..nc).map(|_| *rng.pick(kinds)).collect();
    let nullable: Vec<bool> = (0..nc).map(|_| rng.chance(3, 4)).collect();
    let rows = match rng.below(6) {
        0 => rng.below(3),
        1..=3 => 1 + rng.below(8),
        _ => 1 + rng.below(max_rows),
    };
    let names: Vec<String> = (0..nc)
        .map(|i| match rng.below(8) {
            0 => format!("c {i}"),
            1 => format!("é{i}"),
            2 => format!("c\"{i}"),
            _ => format!("c{i}"),
        })
        .collect();
    let cols = ks.iter().zip(&nullable).map(|(k, n)| (0..rows).map(|_| gen_val(rng, *k, *n)).collect()).collect();
    Table { kinds: ks, nullable, names, cols, rows }
}

// ================================================================== CSV

#[derive(Clone, Debug)]
struct CsvCfg {
    schema: SchemaRef,
    batch: usize,
    header: bool,
    validate_header: bool,
    delim: u8,
    quote: u8,
    escape: Option<u8>,
    term: Option<u8>,
    comment: Option<u8>,
    truncated: bool,
    bounds: Option<(usize, usize)>,
    projection: Option<Vec<usize>>,
}

impl CsvCfg {
    fn plain(schema: SchemaRef, batch: usize) -> CsvCfg {
        CsvCfg { schema, batch, header: false, validate_header: false, delim: b',', quote: b'"', escape: None, term: None, comment: None, truncated: false, bounds: None, projection: None }
    }
    fn builder(&self) -> arrow_csv::ReaderBuilder {
        let mut f = arrow_csv::reader::Format::default().with_header(self.header).with_header_validation(self.validate_header).with_delimiter(self.delim).with_quote(self.quote).with_truncated_rows(self.truncated);
        if let Some(e) = self.escape {
            f = f.with_escape(e);
        }
        if let Some(t) = self.term {
            f = f.with_terminator(t);
        }
        if let Some(c) = self.comment {
            f = f.with_comment(c);
        }
        let mut b = arrow_csv::ReaderBuilder::new(self.schema.clone()).with_format(f).with_batch_size(self.batch);
        if let Some((s, e)) = self.bounds {
            b = b.with_bounds(s, e);
        }
        if let Some(p) = &self.projection {
            b = b.with_projection(p.clone());
        }
        b
    }
    fn class(&self) -> String {
        format!(
            "b{}{}{}{}{}{}{}{}",
            if self.batch > 16 { "big".to_string() } else { self.batch.min(4).to_string() },
            if self.header { "|hdr" } else { "" },
            if self.escape.is_some() { "|esc" } else { "" },
            if self.term.is_some() { "|term" } else { "" },
            if self.comment.is_some() { "|cmt" } else { "" },
            if self.truncated { "|trunc" } else { "" },
            if self.bounds.is_some() { "|bounds" } else { "" },
            if self.projection.is_some() { "|proj" } else { "" },
        )
    }
    fn describe(&self) -> String {
        format!(
            "csv cfg: batch_size={} header={} validate={} delimiter={:?} quote={:?} escape={:?} terminator={:?} comment={:?} truncated_rows={} bounds={:?} projection={:?}\nschema: {}",
            self.batch,
            self.header,
            self.validate_header,
            self.delim as char,
            self.quote as char,
            self.escape.map(|c| c as char),
            self.term.map(|c| c as char),
            self.comment.map(|c| c as char),
            self.truncated,
            self.bounds,
            self.projection,
            schema_short(&self.schema)
        )
    }
}

/// Push decoder under a schedule. `aux`: 0 = flush only when `decode` returned 0 (module docs),
/// 1 = flush as soon as `capacity() == 0` (what `BufReader` does), else a random mix.
fn run_csv(data: &[u8], cfg: &CsvCfg, s: &Sched) -> Obs {
    let mut o = Obs::new();
    let r = guard(|| -> Result<(), String> {
        let mut dec = cfg.builder().build_decoder();
        let mut d = Decide::new(s.aux);
        let mut stop = false;
        'outer: for chunk in s.chunks(data) {
            // an empty slice is the documented end-of-input marker: never fed mid stream
            let mut rest = chunk;
            while !rest.is_empty() {
                let n = dec.decode(rest).map_err(|e| e.to_string())?;
                rest = &rest[n..];
                if n == 0 {
                    match dec.flush().map_err(|e| e.to_string())? {
                        Some(b) => o.push(&b),
                        None => {
                            // nothing buffered and nothing consumed: the row bounds are exhausted
                            stop = true;
                            break 'outer;
                        }
                    }
                } else if dec.capacity() == 0 && d.opt() {
                    if let Some(b) = dec.flush().map_err(|e| e.to_string())? {
                        o.push(&b);
                    }
                }
            }
        }
        if !stop {
            let mut spins = 0u32;
            loop {
                let n = dec.decode(&[]).map_err(|e| e.to_string())?;
                if n != 0 {
                    return Err(format!("decode(&[]) returned {n}"));
                }
                match dec.flush().map_err(|e| e.to_string())? {
                    Some(b) => o.push(&b),
                    None => break,
                }
                spins += 1;
                if spins > 1_000_000 {
                    return Err("stuck: flush keeps returning batches at end of input".into());
                }
            }
        }
        o.tail = format!("truncated_rows={}", dec.truncated_row_count());
        Ok(())
    });
    finish(&mut o, r);
    o
}

fn finish(o: &mut Obs, r: Result<Result<(), String>, vcore::mon::PanicInfo>) {
    o.out = match r {
        Ok(Ok(())) => Out::Ok,
        Ok(Err(e)) => Out::Err(e),
        Err(p) => Out::Panic(p),
    };
}

/// `BufReader` over a `BufRead` that hands out the schedule's slices.
fn run_csv_bufread(data: &[u8], cfg: &CsvCfg, s: &Sched) -> Obs {
    let mut o = Obs::new();
    let r = guard(|| -> Result<(), String> {
        let mut rd = cfg.builder().build_buffered(ChunkRead::new(data, s)).map_err(|e| e.to_string())?;
        o.decl = Some(rd.schema());
        for b in &mut rd {
            o.push(&b.map_err(|e| e.to_string())?);
        }
        o.tail = format!("truncated_rows={}", rd.truncated_row_count());
        Ok(())
    });
    finish(&mut o, r);
    o
}

/// one-shot pull reader
fn run_csv_reader(data: &[u8], cfg: &CsvCfg) -> Obs {
    let mut o = Obs::new();
    let r = guard(|| -> Result<(), String> {
        let mut rd = cfg.builder().build(Cursor::new(data)).map_err(|e| e.to_string())?;
        for b in &mut rd {
            o.push(&b.map_err(|e| e.to_string())?);
        }
        o.tail = format!("truncated_rows={}", rd.truncated_row_count());
        Ok(())
    });
    finish(&mut o, r);
    o
}

struct CsvStyle {
    delim: u8,
    quote: u8,
    escape: Option<u8>,
    term: Option<u8>,
    comment: Option<u8>,
}

fn csv_field(rng: &mut Rng, s: &str, st: &CsvStyle, first: bool, only: bool) -> Vec<u8> {
    let b = s.as_bytes();
    let special = b.iter().any(|c| *c == st.delim || *c == st.quote || *c == b'\n' || *c == b'\r' || Some(*c) == st.term);
    let starts_comment = first && b.first().is_some_and(|c| Some(*c) == st.comment);
    let need = special || starts_comment || (only && b.is_empty());
    if !need && !rng.chance(1, 5) {
        return b.to_vec();
    }
    let mut out = vec![st.quote];
    for &c in b {
        if c == st.quote {
            match st.escape {
                Some(e) if rng.bool() => out.extend([e, c]),
                _ => out.extend([c, c]),
            }
        } else if Some(c) == st.escape {
            out.extend([c, c]);
        } else {
            out.push(c);
        }
    }
    out.push(st.quote);
    out
}

fn csv_text(rng: &mut Rng, k: K, v: &Val) -> String {
    match (k, v) {
        (_, Val::Null) => String::new(),
        (K::F64, Val::F64(b)) => fmt_f64(f64::from_bits(*b), rng),
        (K::Bool, Val::Bool(b)) => (*rng.pick(if *b { &["true", "TRUE", "True"] } else { &["false", "FALSE", "False"] })).to_string(),
        (K::Date, Val::Int(d)) => fmt_date(*d as i64),
        (K::TsMicro, Val::Int(t)) => fmt_ts(*t, rng),
        (K::Dec, Val::Int(d)) => fmt_dec(*d),
        (_, Val::Int(i)) => i.to_string(),
        (_, Val::Str(s)) => s.clone(),
        _ => panic!("model: csv_text {k:?} {v:?}"),
    }
}

/// own CSV writer: returns the bytes and, per data row, whether trailing nulls were dropped
fn write_csv(rng: &mut Rng, t: &Table, st: &CsvStyle, header: bool, allow_short: bool) -> (Vec<u8>, usize) {
    let mut out = Vec::new();
    let mut short_rows = 0;
    let crlf_mode = rng.below(4);
    let mut eol = |rng: &mut Rng, out: &mut Vec<u8>| match st.term {
        Some(t) => out.push(t),
        None => match crlf_mode {
            0 => out.push(b'\n'),
            1 => out.extend(b"\r\n"),
            2 => out.push(b'\r'),
            _ => out.extend(*rng.pick(&[&b"\n"[..], b"\r\n", b"\r"])),
        },
    };
    let nc = t.kinds.len();
    if header {
        for (j, n) in t.names.iter().enumerate() {
            if j > 0 {
                out.push(st.delim);
            }
            out.extend(csv_field(rng, n, st, j == 0, nc == 1));
        }
        eol(rng, &mut out);
    }
    for r in 0..t.rows {
        if rng.chance(1, 12) {
            eol(rng, &mut out); // blank line
        }
        if let Some(c) = st.comment {
            if rng.chance(1, 10) {
                out.push(c);
                out.extend(gen_str(rng).replace(['\n', '\r'], " ").as_bytes());
                // csv_core ends a comment at '\n' only, whatever the record terminator is
                out.push(b'\n');
            }
        }
        let mut upto = nc;
        if allow_short && rng.chance(1, 3) {
            while upto > 1 && t.cols[upto - 1][r].is_null() && t.nullable[upto - 1] {
                upto -= 1;
            }
            // a single empty field would be a blank line; keep at least the first field explicit
            if upto < nc {
                short_rows += 1;
            }
        }
        for j in 0..upto {
            if j > 0 {
                out.push(st.delim);
            }
            let txt = csv_text(rng, t.kinds[j], &t.cols[j][r]);
            out.extend(csv_field(rng, &txt, st, j == 0, upto == 1));
        }
        if r + 1 < t.rows || rng.chance(3, 4) {
            eol(rng, &mut out);
        }
    }
    (out, short_rows)
}

// LargeUtf8 is not supported by the arrow-csv reader
const CSV_KINDS: [K; 10] = [K::I64, K::I32, K::U8, K::F64, K::Bool, K::Str, K::Str, K::StrView, K::Date, K::TsMicro];

fn gen_batch_size(rng: &mut Rng) -> usize {
    *rng.pick(&[1usize, 2, 3, 1024, 1, 2, 3, 1024, 4, 7])
}

fn mutate(rng: &mut Rng, data: &[u8], alphabet: &[u8]) -> (Vec<u8>, &'static str) {
    let mut v = data.to_vec();
    if v.is_empty() {
        v.push(*rng.pick(alphabet));
        return (v, "insert");
    }
    match rng.below(5) {
        0 => {
            let k = rng.below(v.len());
            v.truncate(k);
            (v, "truncate")
        }
        1 => {
            let k = rng.below(v.len());
            v[k] = *rng.pick(alphabet);
            (v, "replace")
        }
        2 => {
            let k = rng.below(v.len() + 1);
            v.insert(k, *rng.pick(alphabet));
            (v, "insert")
        }
        3 => {
            let k = rng.below(v.len());
            v.remove(k);
            (v, "delete")
        }
        _ => {
            for _ in 0..3 {
                let k = rng.below(v.len());
                v[k] = *rng.pick(alphabet);
            }
            (v, "replace3")
        }
    }
}

fn project(cols: &[Vec<Val>], p: &Option<Vec<usize>>) -> Vec<Vec<Val>> {
    match p {
        Some(p) => p.iter().map(|i| cols[*i].clone()).collect(),
        None => cols.to_vec(),
    }
}

fn csv_plan(ctx: &Ctx, rng: &mut Rng, n: usize) -> Vec<Sched> {
    let mut plan = Plan::standard(ctx.tier.pick(64, 2000, 6000), ctx.tier.pick(8, 40, 200), false);
    plan.auxes = vec![0, 1, 2 + rng.u64() % 1000];
    schedules(rng, n, &plan)
}

/// judge one CSV input: push decoder under all schedules, BufReader under the same, pull reader, model
fn check_csv(ctx: &mut Ctx, rng: &mut Rng, data: &[u8], cfg: &CsvCfg, validity: &str, model: Option<&[Vec<Val>]>, scheds: &[Sched], origin: &str) {
    let witness = || format!("{origin}\n{}\ninput ({} bytes): {}", cfg.describe(), data.len(), show_bytes(data));
    let cmp = Cmp { limit: Some(cfg.batch), strict_msg: 2, valid: validity == "valid" };
    let broken = brk("csv");
    let base = check_input(ctx, "csv", validity, &cfg.class(), data.len(), scheds, &cmp, &witness, &mut |s: &Sched| {
        let mut o = run_csv(data, cfg, s);
        if let Some(how) = &broken {
            break_obs(&mut o, how, s);
        }
        o
    });
    let Some(base) = base else { return };
    // the BufReader over the same slices (fill_buf schedule)
    let sub: Vec<Sched> = scheds.iter().filter(|s| s.aux == 0 || s.kind == "random").cloned().collect();
    let b2 = check_input(ctx, "csv-bufread", validity, &cfg.class(), data.len(), &sub, &cmp, &witness, &mut |s: &Sched| run_csv_bufread(data, cfg, s));
    // push decoder == pull reader
    let rd = run_csv_reader(data, cfg);
    for (name, other) in [("reader", Some(&rd)), ("bufread", b2.as_ref())] {
        let Some(other) = other else { continue };
        let mut o2 = other.clone();
        o2.decl = None;
        if let Some((what, detail)) = compare(&base, &o2, &Cmp { limit: Some(cfg.batch), strict_msg: 2, valid: true }) {
            if validity == "valid" {
                ctx.violation(&format!("{P}|csv|valid|{name}-differs|{what}"), format!("{}\npush decoder (single chunk) vs {name}: {detail}\n--- decoder ---\n{}--- {name} ---\n{}", witness(), base.dump(), other.dump()));
            } else {
                ctx.count(&format!("csv:reader-differs-on-invalid:{what}"), 1);
            }
        }
    }
    if let Some(m) = model {
        if matches!(base.out, Out::Ok) {
            if let Some(d) = compare_model(&base, m) {
                side(ctx, "csv", "model-rows", &format!("{}\nsingle chunk output differs from the written values: {d}", witness()));
            }
        } else {
            side(ctx, "csv", &format!("model-outcome-{}", base.out.class()), &format!("{}\nthe decoder did not accept a well formed input: {}", witness(), base.out.text()));
        }
    }
    let _ = rng;
    ctx.sample(|| format!("{}\n=> {} rows, {}", witness(), base.rows(), base.out.text()));
}

/// oracle self-test: falsify what a multi-chunk schedule observed
pub fn break_obs(o: &mut Obs, how: &str, s: &Sched) {
    if s.lens.len() < 2 {
        return;
    }
    match how {
        "row" => {
            if let Some((_, cols)) = o.segs.first_mut() {
                if let Some(c) = cols.first_mut() {
                    if s.lens.len() % 7 == 3 && !c.is_empty() {
                        let k = c.len() - 1;
                        c[k] = if c[k].is_null() { Val::Int(1) } else { Val::Null };
                    }
                }
            }
        }
        "drop" => {
            if s.lens.len() % 5 == 2 {
                if let Some((_, cols)) = o.segs.first_mut() {
                    for c in cols.iter_mut() {
                        c.pop();
                    }
                    if let Some(b) = o.batch_rows.last_mut() {
                        *b = b.saturating_sub(1);
                    }
                }
            }
        }
        "outcome" => {
            if s.lens.len() % 5 == 2 {
                o.out = match o.out {
                    Out::Ok => Out::Err("broken".into()),
                    _ => Out::Ok,
                };
            }
        }
        "batch" => {
            if s.lens.len() % 5 == 2 {
                if let Some(b) = o.batch_rows.first_mut() {
                    *b += 5000;
                }
            }
        }
        _ => {}
    }
}

pub fn run_csv_section(ctx: &mut Ctx) {
    let total = ctx.tier.pick(6, 16_000, 600_000);
    let budget = Budget::new(ctx, 2.0, 8.0, 120.0);
    for i in cases_from(ctx, "csv", total) {
        if budget.over(ctx) {
            break;
        }
        let mut rng = ctx.begin("csv", i);
        case_done("csv");
        let t = gen_table(&mut rng, &CSV_KINDS, 5, ctx.tier.pick(10, 30, 60));
        let st = CsvStyle {
            delim: *rng.pick(&[b',', b',', b';', b'\t', b'|']),
            quote: *rng.pick(&[b'"', b'"', b'\'']),
            escape: if rng.chance(1, 4) { Some(b'\\') } else { None },
            term: if rng.chance(1, 6) { Some(*rng.pick(&[b'\n', b'$', b'\r'])) } else { None },
            comment: None,
        };
        // csv_core only ends a comment at '\n' and mis-parses the following record when a custom
        // record terminator is configured as well (third party, chunk independent): not combined
        let st = CsvStyle { comment: if st.term.is_none() && rng.chance(1, 4) { Some(b'#') } else { None }, ..st };
        let header = rng.chance(1, 3);
        let truncated = rng.chance(1, 4);
        let use_writer = rng.chance(1, 4) && st.term.is_none() && st.comment.is_none();
        let (data, origin) = if use_writer {
            // arrow-csv writer (it has no comment / custom terminator notion)
            let r = guard(|| -> Result<Vec<u8>, String> {
                let mut b = arrow_csv::WriterBuilder::new().with_header(header).with_delimiter(st.delim).with_quote(st.quote);
                if let Some(e) = st.escape {
                    b = b.with_escape(e).with_double_quote(false);
                }
                let mut w = b.build(Vec::new());
                // several batches
                let mut lo = 0;
                while lo < t.rows {
                    let hi = (lo + 1 + rng.below(t.rows - lo)).min(t.rows);
                    w.write(&t.batch(lo, hi)).map_err(|e| e.to_string())?;
                    lo = hi;
                }
                if t.rows == 0 {
                    w.write(&t.batch(0, 0)).map_err(|e| e.to_string())?;
                }
                Ok(w.into_inner())
            });
            match r {
                Ok(Ok(d)) => (d, "origin: arrow_csv::Writer"),
                _ => {
                    ctx.reject();
                    continue;
                }
            }
        } else {
            (write_csv(&mut rng, &t, &st, header, truncated).0, "origin: own CSV writer")
        };
        // a single nullable column writes NULL as an empty line with the arrow writer: rows vanish
        // legitimately (blank lines are skipped), so the model is only asserted for our own writer
        // (the csv crate's writer also does not escape a literal escape character, so with an escape
        // configured its output does not read back to the same strings)
        let single_col_writer = use_writer && (t.kinds.len() == 1 || st.escape.is_some());
        let mut cfg = CsvCfg::plain(t.schema(), gen_batch_size(&mut rng));
        cfg.header = header;
        cfg.validate_header = header && rng.bool();
        cfg.delim = st.delim;
        cfg.quote = st.quote;
        cfg.escape = st.escape;
        cfg.term = st.term;
        cfg.comment = st.comment;
        cfg.truncated = truncated;
        let mut model: Vec<Vec<Val>> = t.cols.clone();
        if rng.chance(1, 6) && t.rows > 0 {
            let a = rng.below(t.rows + 1);
            let b = a + rng.below(t.rows + 2 - a);
            cfg.bounds = Some((a, b));
            for c in model.iter_mut() {
                *c = c[a.min(t.rows)..b.min(t.rows)].to_vec();
            }
        }
        if rng.chance(1, 6) {
            let mut p: Vec<usize> = (0..t.kinds.len()).filter(|_| rng.chance(2, 3)).collect();
            rng.shuffle(&mut p);
            cfg.projection = Some(p);
            model = project(&model, &cfg.projection);
        }
        let scheds = csv_plan(ctx, &mut rng, data.len());
        let tclass = t.class();
        ctx.count("csv:valid-inputs", 1);
        check_csv(ctx, &mut rng, &data, &cfg, "valid", if single_col_writer { None } else { Some(&model) }, &scheds, &format!("{origin}; column kinds {tclass}"));
        // corrupted variants of the same text
        let nmut = ctx.tier.pick(1, 2, 3);
        for _ in 0..nmut {
            let alphabet = [st.delim, st.quote, b'\n', b'\r', 0xff, 0xc3, 0xf0, b'x', b'9', b'\\', b' ', st.comment.unwrap_or(b'#')];
            let (bad, how) = mutate(&mut rng, &data, &alphabet);
            let scheds = csv_plan(ctx, &mut rng, bad.len());
            ctx.count(&format!("csv:mutation-{how}"), 1);
            check_csv(ctx, &mut rng, &bad, &cfg, "mutated", None, &scheds, &format!("origin: {how} mutation of a generated CSV; column kinds {tclass}"));
        }
    }
}

// ------------------------------------------------------------------ hand-built CSV

fn utf8s(n: usize) -> SchemaRef {
    Arc::new(Schema::new((0..n).map(|i| Field::new(format!("h{}", i + 1), DataType::Utf8, true)).collect::<Vec<_>>()))
}

fn typed(ts: &[DataType]) -> SchemaRef {
    Arc::new(Schema::new(ts.iter().enumerate().map(|(i, t)| Field::new(format!("h{}", i + 1), t.clone(), true)).collect::<Vec<_>>()))
}

struct CsvEdge {
    name: &'static str,
    data: &'static [u8],
    schema: SchemaRef,
    tweak: fn(&mut CsvCfg),
}

fn csv_edges() -> Vec<CsvEdge> {
    fn none(_: &mut CsvCfg) {}
    vec![
        CsvEdge { name: "crlf", data: b"a,b\r\nc,d\r\n", schema: utf8s(2), tweak: none },
        CsvEdge { name: "doubled-quote", data: b"\"a\"\"b\",c\n1,2", schema: utf8s(2), tweak: none },
        CsvEdge { name: "utf8-2byte-quoted", data: b"\"\xc3\xa9\",1\r\n\"\",2", schema: utf8s(2), tweak: none },
        CsvEdge { name: "emoji", data: "😀,1\n2,😀".as_bytes(), schema: utf8s(2), tweak: none },
        CsvEdge { name: "quoted-crlf", data: b"\"a\r\nb\",1\r\n", schema: utf8s(2), tweak: none },
        CsvEdge { name: "exponents", data: b"1e3,-2E-2\n.5,", schema: typed(&[DataType::Float64, DataType::Float64]), tweak: none },
        CsvEdge { name: "escape", data: b"a\\\"b,\"c\\\"\"\n", schema: utf8s(2), tweak: |c| c.escape = Some(b'\\') },
        CsvEdge { name: "escape-escape", data: b"\"a\\\\\",\"\\\\\"\n", schema: utf8s(2), tweak: |c| c.escape = Some(b'\\') },
        CsvEdge { name: "blank-lines", data: b"x\r\r\ny\n\nz", schema: utf8s(1), tweak: none },
        CsvEdge { name: "comments", data: b"#c\na\n#d\nb", schema: utf8s(1), tweak: |c| c.comment = Some(b'#') },
        CsvEdge { name: "short-row", data: b"a,b,c\n1,2\n3", schema: utf8s(3), tweak: none },
        CsvEdge { name: "short-row-truncated-ok", data: b"a,b,c\n1,2\n3", schema: utf8s(3), tweak: |c| c.truncated = true },
        CsvEdge { name: "long-row", data: b"a,b\n1,2,3\n4,5", schema: utf8s(2), tweak: none },
        CsvEdge { name: "bad-int", data: b"1,x\n2,3\n", schema: typed(&[DataType::Int64, DataType::Int64]), tweak: none },
        CsvEdge { name: "bad-int-late", data: b"1,2\n3,4\n5,x", schema: typed(&[DataType::Int64, DataType::Int64]), tweak: none },
        CsvEdge { name: "unclosed-quote", data: b"a,\"bc\nd", schema: utf8s(2), tweak: none },
        CsvEdge { name: "invalid-utf8", data: b"\xff,a\nb,c\n", schema: utf8s(2), tweak: none },
        CsvEdge { name: "truncated-emoji", data: b"a,\xf0\x9f\x98\nb,c", schema: utf8s(2), tweak: none },
        CsvEdge { name: "split-emoji-fields", data: b"\xf0\x9f,\x98\x80\n", schema: utf8s(2), tweak: none },
        CsvEdge { name: "header", data: b"h1,h2\n1,2\n3,4", schema: utf8s(2), tweak: |c| c.header = true },
        CsvEdge { name: "header-validated", data: b"h1,h2\r\n1,2\n3,4", schema: utf8s(2), tweak: |c| { c.header = true; c.validate_header = true } },
        CsvEdge { name: "header-mismatch", data: b"h1,hx\n1,2\n3,4", schema: utf8s(2), tweak: |c| { c.header = true; c.validate_header = true } },
        CsvEdge { name: "bounds", data: b"a\nb\nc\nd\ne\nf", schema: utf8s(1), tweak: |c| c.bounds = Some((1, 4)) },
        CsvEdge { name: "terminator", data: b"a,b$c,\"$\"$d,e", schema: utf8s(2), tweak: |c| c.term = Some(b'$') },
        CsvEdge { name: "quote-char", data: b"'a,''',\"b\"\nc,d", schema: utf8s(2), tweak: |c| c.quote = b'\'' },
        CsvEdge { name: "bools-dates", data: b"TRUE,2020-02-29\nfalse,", schema: typed(&[DataType::Boolean, DataType::Date32]), tweak: none },
        CsvEdge { name: "only-terminators", data: b"\r\n\n\r\r\n", schema: utf8s(1), tweak: none },
        CsvEdge { name: "cr-only", data: b"a,b\rc,d\re,f", schema: utf8s(2), tweak: none },
        CsvEdge { name: "quote-at-eof", data: b"a,b\n\"c\",\"d\"", schema: utf8s(2), tweak: none },
        CsvEdge { name: "quote-midfield", data: b"a\"b,c\"\"d\ne,f", schema: utf8s(2), tweak: none },
    ]
}

struct JsonEdge {
    name: &'static str,
    data: &'static [u8],
    /// None: is_field mode with this element type
    schema: SchemaRef,
    field_mode: bool,
    tweak: fn(&mut JsonCfg),
    /// interesting window for inputs longer than 14 bytes
    window: Option<(usize, usize)>,
}

fn json_edges() -> Vec<JsonEdge> {
    fn none(_: &mut JsonCfg) {}
    let a_i64 = || typed_named(&[("a", DataType::Int64)]);
    let a_f64 = || typed_named(&[("a", DataType::Float64)]);
    let a_str = || typed_named(&[("a", DataType::Utf8)]);
    let a_bool = || typed_named(&[("a", DataType::Boolean)]);
    let a_list = || typed_named(&[("a", DataType::List(Arc::new(Field::new("item", DataType::Int64, true))))]);
    let e = |name, data: &'static [u8], schema, tweak, window| JsonEdge { name, data, schema, field_mode: false, tweak, window };
    vec![
        e("two-objects", b"{\"a\":1}{\"a\":2}", a_i64(), none, None),
        e("utf8-raw", "{\"a\":\"é😀\"}".as_bytes(), a_str(), none, None),
        e("surrogate-pair", b"{\"a\":\"\\ud83d\\ude00\"}", a_str(), none, Some((5, 13))),
        e("surrogate-pair-tail", b"{\"a\":\"\\ud83d\\ude00\"}", a_str(), none, Some((9, 12))),
        e("lone-surrogate", b"{\"a\":\"\\ud83d\"}{}", a_str(), none, Some((5, 12))),
        e("bad-low-surrogate", b"{\"a\":\"\\ud83d\\u0041\"}", a_str(), none, Some((8, 12))),
        e("exponent", b"{\"a\":-1.5e+3}", a_f64(), none, None),
        e("exponent-upper", b"{\"a\":2E-2} {}", a_f64(), none, None),
        e("literals", b"{\"a\":true}\n{}", a_bool(), none, None),
        e("null-then-empty", b"{\"a\":null}{}", a_i64(), none, None),
        e("flatten", b"[{\"a\":1},{}]", a_i64(), |c| c.flatten = true, None),
        e("flatten-two-arrays", b"[{}][{\"a\":7}]", a_i64(), |c| c.flatten = true, None),
        e("flatten-mixed", b"[{},{}] {} []", a_i64(), |c| c.flatten = true, None),
        e("list", b"{\"a\":[1,2]}", a_list(), none, None),
        e("list-nulls", b"{\"a\":[null]}", a_list(), none, None),
        e("crlf-sep", b"{\"a\":1}\r\n{}", a_i64(), none, None),
        e("escapes", b"{\"a\":\"\\n\\\"\\\\\"}", a_str(), none, None),
        e("escape-slash-u", b"{\"a\":\"\\/\\u00e9\"}", a_str(), none, Some((5, 12))),
        e("bad-literal", b"{\"a\":tru}", a_bool(), none, None),
        e("trailing-comma", b"{\"a\":1,}", a_i64(), none, None),
        e("missing-colon", b"{\"a\" 1}", a_i64(), none, None),
        e("bad-escape", b"{\"a\":\"\\x\"}", a_str(), none, None),
        e("truncated", b"{\"a\":12", a_i64(), none, None),
        e("truncated-string", b"{\"a\":\"xy", a_str(), none, None),
        e("type-conflict", b"{\"a\":\"x\"}", a_i64(), none, None),
        e("type-conflict-late", b"{\"a\":1}{\"a\":[]}", a_i64(), none, Some((3, 13))),
        e("type-conflict-ignored", b"{\"a\":\"x\"}{}", a_i64(), |c| c.ignore_conflicts = true, None),
        e("coerce", b"{\"a\":1.5}{\"a\":true}", a_str(), |c| c.coerce = true, Some((4, 13))),
        e("strict-unknown", b"{\"b\":1}", a_i64(), |c| c.strict = true, None),
        e("unknown-nested", b"{\"b\":[{}],\"a\":3}", a_i64(), none, Some((2, 13))),
        e("invalid-utf8", b"{\"a\":\"\xff\"}", a_str(), none, None),
        e("split-utf8-truncated", b"{\"a\":\"\xf0\x9f\x98\"}", a_str(), none, None),
        e("number-int-as-float", b"{\"a\":1.0}{\"a\":1e2}", a_i64(), none, Some((5, 13))),
        e("whitespace", b" {\t\"a\" :\n1 }\r ", a_i64(), none, None),
        JsonEdge { name: "field-mode-numbers", data: b"1 22 -3\n", schema: typed_named(&[("v", DataType::Int64)]), field_mode: true, tweak: none, window: None },
        JsonEdge { name: "field-mode-number-eof", data: b"1 2 3", schema: typed_named(&[("v", DataType::Int64)]), field_mode: true, tweak: none, window: None },
        JsonEdge { name: "field-mode-strings", data: b"\"a\"\"b\" \"\"", schema: typed_named(&[("v", DataType::Utf8)]), field_mode: true, tweak: none, window: None },
        JsonEdge { name: "field-mode-lists", data: b"[1][2,3] []", schema: typed_named(&[("v", DataType::List(Arc::new(Field::new("item", DataType::Int64, true))))]), field_mode: true, tweak: none, window: None },
        e("struct-list-mode", b"[1][null] []", a_i64(), |c| c.list_mode = true, None),
    ]
}

fn typed_named(ts: &[(&str, DataType)]) -> SchemaRef {
    Arc::new(Schema::new(ts.iter().map(|(n, t)| Field::new(*n, t.clone(), true)).collect::<Vec<_>>()))
}

const EXH_BATCHES: [usize; 4] = [1, 2, 3, 1024];

/// all partitions of the hand-built inputs; returns false if the enumeration was cut short
pub fn run_exh(ctx: &mut Ctx) -> bool {
    let mut complete = true;
    let budget = Budget::new(ctx, 3.0, 20.0, 120.0);
    // ---- CSV
    let edges = csv_edges();
    let total = (edges.len() * EXH_BATCHES.len()) as u64;
    for i in ctx.cases("csv-exh", total) {
        if budget.over(ctx) {
            complete = false;
            break;
        }
        let mut rng = ctx.begin("csv-exh", i);
        let Some(e) = edges.get(i as usize / EXH_BATCHES.len()) else { continue };
        let mut cfg = CsvCfg::plain(e.schema.clone(), EXH_BATCHES[i as usize % EXH_BATCHES.len()]);
        (e.tweak)(&mut cfg);
        let n = e.data.len();
        let scheds = if n <= 14 { exhaustive_schedules(n, &[0, 1]) } else { schedules(&mut rng, n, &Plan::standard(64, 64, false)) };
        ctx.count("exhaustive-partition-sets", if n <= 14 { 2 } else { 0 });
        let validity = format!("edge:{}", e.name);
        check_csv(ctx, &mut rng, e.data, &cfg, &validity, None, &scheds, &format!("origin: hand-built edge input '{}'", e.name));
    }
    // ---- JSON
    let edges = json_edges();
    let total = (edges.len() * EXH_BATCHES.len()) as u64;
    for i in ctx.cases("json-exh", total) {
        if budget.over(ctx) {
            complete = false;
            break;
        }
        let mut rng = ctx.begin("json-exh", i);
        let Some(e) = edges.get(i as usize / EXH_BATCHES.len()) else { continue };
        let mut cfg = JsonCfg::plain(e.schema.clone(), EXH_BATCHES[i as usize % EXH_BATCHES.len()]);
        cfg.field_mode = e.field_mode;
        (e.tweak)(&mut cfg);
        let n = e.data.len();
        let scheds = if n <= 14 {
            ctx.count("exhaustive-partition-sets", 3);
            exhaustive_schedules(n, &[0, 1, 77])
        } else {
            let mut plan = Plan::standard(64, 32, true);
            plan.windows = vec![e.window.unwrap_or((0, 13))];
            ctx.count("exhaustive-window-sets", 1);
            schedules(&mut rng, n, &plan)
        };
        let validity = format!("edge:{}", e.name);
        check_json(ctx, e.data, &cfg, &validity, None, &scheds, &format!("origin: hand-built edge input '{}'", e.name));
    }
    complete
}

// ================================================================== JSON

#[derive(Clone, Debug)]
struct JsonCfg {
    schema: SchemaRef,
    batch: usize,
    coerce: bool,
    strict: bool,
    flatten: bool,
    ignore_conflicts: bool,
    list_mode: bool,
    field_mode: bool,
}

impl JsonCfg {
    fn plain(schema: SchemaRef, batch: usize) -> JsonCfg {
        JsonCfg { schema, batch, coerce: false, strict: false, flatten: false, ignore_conflicts: false, list_mode: false, field_mode: false }
    }
    fn builder(&self) -> arrow_json::ReaderBuilder {
        let b = if self.field_mode { arrow_json::ReaderBuilder::new_with_field(self.schema.field(0).clone()) } else { arrow_json::ReaderBuilder::new(self.schema.clone()) };
        b.with_batch_size(self.batch)
            .with_coerce_primitive(self.coerce)
            .with_strict_mode(self.strict)
            .with_flatten(self.flatten)
            .with_ignore_type_conflicts(self.ignore_conflicts)
            .with_struct_mode(if self.list_mode { arrow_json::StructMode::ListOnly } else { arrow_json::StructMode::ObjectOnly })
    }
    fn class(&self) -> String {
        format!(
            "b{}{}{}{}{}{}{}",
            if self.batch > 16 { "big".to_string() } else { self.batch.min(4).to_string() },
            if self.coerce { "|coerce" } else { "" },
            if self.strict { "|strict" } else { "" },
            if self.flatten { "|flatten" } else { "" },
            if self.ignore_conflicts { "|ignore" } else { "" },
            if self.list_mode { "|listmode" } else { "" },
            if self.field_mode { "|field" } else { "" },
        )
    }
    fn describe(&self) -> String {
        format!(
            "json cfg: batch_size={} coerce_primitive={} strict={} flatten={} ignore_type_conflicts={} struct_mode={} new_with_field={}\nschema: {}",
            self.batch,
            self.coerce,
            self.strict,
            self.flatten,
            self.ignore_conflicts,
            if self.list_mode { "ListOnly" } else { "ObjectOnly" },
            self.field_mode,
            schema_short(&self.schema)
        )
    }
}

/// Push decoder. Mandatory flush when `decode` stopped early (batch full); optional flushes
/// whenever `!has_partial_record()` (aux: 0 never, 1 always, else random).
fn run_json(data: &[u8], cfg: &JsonCfg, s: &Sched) -> Obs {
    let mut o = Obs::new();
    let r = guard(|| -> Result<(), String> {
        let mut dec = cfg.builder().build_decoder().map_err(|e| format!("build: {e}"))?;
        let mut d = Decide::new(s.aux);
        for chunk in s.chunks(data) {
            let mut rest = chunk;
            let mut spins = 0u32;
            loop {
                let n = dec.decode(rest).map_err(|e| e.to_string())?;
                let full = n < rest.len();
                rest = &rest[n..];
                if full {
                    match dec.flush().map_err(|e| e.to_string())? {
                        Some(b) => o.push(&b),
                        None if n == 0 => {
                            spins += 1;
                            if spins > 3 {
                                return Err("stuck: decode consumes nothing and flush returns nothing".into());
                            }
                        }
                        None => {}
                    }
                } else if !dec.has_partial_record() && d.opt() {
                    if let Some(b) = dec.flush().map_err(|e| e.to_string())? {
                        o.push(&b);
                    }
                }
                if rest.is_empty() {
                    break;
                }
            }
        }
        if let Some(b) = dec.flush().map_err(|e| e.to_string())? {
            o.push(&b);
        }
        Ok(())
    });
    finish(&mut o, r);
    o
}

fn run_json_bufread(data: &[u8], cfg: &JsonCfg, s: &Sched) -> Obs {
    let mut o = Obs::new();
    let r = guard(|| -> Result<(), String> {
        let rd = cfg.builder().build(ChunkRead::new(data, s)).map_err(|e| format!("build: {e}"))?;
        for b in rd {
            o.push(&b.map_err(|e| e.to_string())?);
        }
        Ok(())
    });
    finish(&mut o, r);
    o
}

fn run_json_reader(data: &[u8], cfg: &JsonCfg) -> Obs {
    let mut o = Obs::new();
    let r = guard(|| -> Result<(), String> {
        let rd = cfg.builder().build(Cursor::new(data)).map_err(|e| format!("build: {e}"))?;
        for b in rd {
            o.push(&b.map_err(|e| e.to_string())?);
        }
        Ok(())
    });
    finish(&mut o, r);
    o
}

fn check_json(ctx: &mut Ctx, data: &[u8], cfg: &JsonCfg, validity: &str, model: Option<&[Vec<Val>]>, scheds: &[Sched], origin: &str) {
    let witness = || format!("{origin}\n{}\ninput ({} bytes): {}", cfg.describe(), data.len(), show_bytes(data));
    let cmp = Cmp { limit: Some(cfg.batch), strict_msg: 1, valid: validity == "valid" };
    let broken = brk("json");
    let base = check_input(ctx, "json", validity, &cfg.class(), data.len(), scheds, &cmp, &witness, &mut |s: &Sched| {
        let mut o = run_json(data, cfg, s);
        if let Some(how) = &broken {
            break_obs(&mut o, how, s);
        }
        o
    });
    let Some(base) = base else { return };
    let sub: Vec<Sched> = scheds.iter().filter(|s| s.aux == 0 || s.kind == "random").cloned().collect();
    let b2 = check_input(ctx, "json-bufread", validity, &cfg.class(), data.len(), &sub, &cmp, &witness, &mut |s: &Sched| run_json_bufread(data, cfg, s));
    let rd = run_json_reader(data, cfg);
    for (name, other) in [("reader", Some(&rd)), ("bufread", b2.as_ref())] {
        let Some(other) = other else { continue };
        if let Some((what, detail)) = compare(&base, other, &Cmp { limit: Some(cfg.batch), strict_msg: 2, valid: true }) {
            if validity == "valid" {
                ctx.violation(&format!("{P}|json|valid|{name}-differs|{what}"), format!("{}\npush decoder (single chunk) vs {name}: {detail}\n--- decoder ---\n{}--- {name} ---\n{}", witness(), base.dump(), other.dump()));
            } else {
                ctx.count(&format!("json:reader-differs-on-invalid:{what}"), 1);
            }
        }
    }
    if let Some(m) = model {
        if matches!(base.out, Out::Ok) {
            if let Some(d) = compare_model(&base, m) {
                side(ctx, "json", "model-rows", &format!("{}\nsingle chunk output differs from the written values: {d}", witness()));
            }
        } else {
            side(ctx, "json", &format!("model-outcome-{}", base.out.class()), &format!("{}\nthe decoder did not accept a well formed input: {}", witness(), base.out.text()));
        }
    }
    ctx.sample(|| format!("{}\n=> {} rows, {}", witness(), base.rows(), base.out.text()));
}

fn json_ws(rng: &mut Rng, out: &mut Vec<u8>, dense: bool) {
    if dense {
        return;
    }
    for _ in 0..rng.below(3) {
        out.push(*rng.pick(&[b' ', b' ', b'\t', b'\n', b'\r']));
    }
}

fn json_string(rng: &mut Rng, s: &str, out: &mut Vec<u8>) {
    out.push(b'"');
    for c in s.chars() {
        let esc_all = rng.chance(1, 6);
        match c {
            '"' => out.extend(b"\\\""),
            '\\' => out.extend(b"\\\\"),
            '\n' if rng.bool() => out.extend(b"\\n"),
            '\r' if rng.bool() => out.extend(b"\\r"),
            '\t' if rng.bool() => out.extend(b"\\t"),
            '/' if rng.bool() => out.extend(b"\\/"),
            c if (c as u32) < 0x20 || esc_all || (!c.is_ascii() && rng.chance(1, 3)) => {
                let mut buf = [0u16; 2];
                for u in c.encode_utf16(&mut buf) {
                    if rng.bool() {
                        out.extend(format!("\\u{u:04x}").as_bytes());
                    } else {
                        out.extend(format!("\\u{u:04X}").as_bytes());
                    }
                }
            }
            c => {
                let mut b = [0u8; 4];
                out.extend(c.encode_utf8(&mut b).as_bytes());
            }
        }
    }
    out.push(b'"');
}

fn json_value(rng: &mut Rng, k: K, v: &Val, out: &mut Vec<u8>, dense: bool) {
    match (k, v) {
        (_, Val::Null) => out.extend(b"null"),
        (K::F64, Val::F64(b)) => {
            let f = f64::from_bits(*b);
            let t = match rng.below(3) {
                0 => format!("{f:?}"),
                1 => format!("{f:e}"),
                _ => format!("{f:E}"),
            };
            out.extend(t.as_bytes());
        }
        (K::Bool, Val::Bool(b)) => out.extend(if *b { &b"true"[..] } else { b"false" }),
        (K::I64, Val::Int(i)) | (K::I32, Val::Int(i)) => out.extend(i.to_string().as_bytes()),
        (K::Str, Val::Str(s)) | (K::LargeStr, Val::Str(s)) | (K::StrView, Val::Str(s)) => json_string(rng, s, out),
        (K::ListI64, Val::List(l)) => {
            out.push(b'[');
            for (i, x) in l.iter().enumerate() {
                if i > 0 {
                    out.push(b',');
                }
                json_ws(rng, out, dense);
                json_value(rng, K::I64, x, out, dense);
                json_ws(rng, out, dense);
            }
            out.push(b']');
        }
        (K::Struct, Val::Struct(f)) => {
            out.push(b'{');
            let mut first = true;
            let order = if rng.bool() { [0usize, 1] } else { [1, 0] };
            for j in order {
                if f[j].is_null() && rng.bool() {
                    continue;
                }
                if !first {
                    out.push(b',');
                }
                first = false;
                json_ws(rng, out, dense);
                out.extend(if j == 0 { &b"\"x\""[..] } else { b"\"s\"" });
                json_ws(rng, out, dense);
                out.push(b':');
                json_ws(rng, out, dense);
                json_value(rng, if j == 0 { K::I64 } else { K::Str }, &f[j], out, dense);
            }
            json_ws(rng, out, dense);
            out.push(b'}');
        }
        _ => panic!("model: json_value {k:?} {v:?}"),
    }
}

const JUNK: [&str; 6] = ["1", "\"s\\\"}\"", "[1,[2,{\"q\":null}]]", "{\"r\":{\"s\":[]}}", "null", "-0.5e-7"];

fn write_json(rng: &mut Rng, t: &Table, array_form: bool) -> Vec<u8> {
    let mut out = Vec::new();
    let dense = rng.chance(1, 3);
    let sep_mode = rng.below(5);
    if array_form {
        out.push(b'[');
    }
    for r in 0..t.rows {
        if array_form && r > 0 {
            if rng.chance(1, 6) {
                // close and reopen: several top level arrays
                out.extend(b"]");
                json_ws(rng, &mut out, dense);
                out.extend(b"[");
            } else {
                out.push(b',');
            }
        }
        json_ws(rng, &mut out, dense);
        out.push(b'{');
        let mut order: Vec<usize> = (0..t.kinds.len()).collect();
        rng.shuffle(&mut order);
        let mut first = true;
        let junk_at = if rng.chance(1, 4) { Some(rng.below(order.len() + 1)) } else { None };
        for (pos, j) in order.iter().enumerate() {
            if junk_at == Some(pos) {
                if !first {
                    out.push(b',');
                }
                first = false;
                out.extend(b"\"zz\":");
                out.extend(rng.pick(&JUNK).as_bytes());
            }
            let v = &t.cols[*j][r];
            if v.is_null() && rng.bool() {
                continue; // missing key = null
            }
            if !first {
                out.push(b',');
            }
            first = false;
            json_ws(rng, &mut out, dense);
            json_string(rng, &t.names[*j], &mut out);
            json_ws(rng, &mut out, dense);
            out.push(b':');
            json_ws(rng, &mut out, dense);
            json_value(rng, t.kinds[*j], v, &mut out, dense);
            json_ws(rng, &mut out, dense);
        }
        if junk_at == Some(order.len()) {
            if !first {
                out.push(b',');
            }
            out.extend(b"\"zz\":");
            out.extend(rng.pick(&JUNK).as_bytes());
        }
        out.push(b'}');
        if !array_form {
            match sep_mode {
                0 => out.push(b'\n'),
                1 => out.extend(b"\r\n"),
                2 => {}
                3 => out.push(b' '),
                _ => json_ws(rng, &mut out, false),
            }
        }
    }
    if array_form {
        json_ws(rng, &mut out, dense);
        out.push(b']');
        json_ws(rng, &mut out, dense);
    }
    out
}

const JSON_KINDS: [K; 9] = [K::I64, K::I32, K::F64, K::Bool, K::Str, K::Str, K::StrView, K::ListI64, K::Struct];

fn json_plan(ctx: &Ctx, rng: &mut Rng, n: usize) -> Vec<Sched> {
    let mut plan = Plan::standard(ctx.tier.pick(64, 2000, 6000), ctx.tier.pick(8, 40, 200), true);
    plan.auxes = vec![0, 1, 2 + rng.u64() % 1000];
    schedules(rng, n, &plan)
}

pub fn run_json_section(ctx: &mut Ctx) {
    let total = ctx.tier.pick(6, 16_000, 600_000);
    let budget = Budget::new(ctx, 2.0, 8.0, 120.0);
    for i in cases_from(ctx, "json", total) {
        if budget.over(ctx) {
            break;
        }
        let mut rng = ctx.begin("json", i);
        case_done("json");
        let mut t = gen_table(&mut rng, &JSON_KINDS, 4, ctx.tier.pick(10, 25, 60));
        // JSON keys: distinct, no exotic requirements
        for (i, n) in t.names.iter_mut().enumerate() {
            if n.contains('"') {
                *n = format!("q{i}");
            }
        }
        let array_form = rng.chance(1, 4);
        let use_writer = rng.chance(1, 4);
        let (data, origin) = if use_writer {
            let r = guard(|| -> Result<Vec<u8>, String> {
                let explicit = rng.bool();
                let b = arrow_json::WriterBuilder::new().with_explicit_nulls(explicit);
                let mut buf = Vec::new();
                let mut parts = Vec::new();
                let mut lo = 0;
                while lo < t.rows {
                    let hi = (lo + 1 + rng.below(t.rows - lo)).min(t.rows);
                    parts.push(t.batch(lo, hi));
                    lo = hi;
                }
                let refs: Vec<&RecordBatch> = parts.iter().collect();
                if array_form {
                    let mut w = b.build::<_, arrow_json::writer::JsonArray>(&mut buf);
                    w.write_batches(&refs).map_err(|e| e.to_string())?;
                    w.finish().map_err(|e| e.to_string())?;
                } else {
                    let mut w = b.build::<_, arrow_json::writer::LineDelimited>(&mut buf);
                    w.write_batches(&refs).map_err(|e| e.to_string())?;
                    w.finish().map_err(|e| e.to_string())?;
                }
                Ok(buf)
            });
            match r {
                Ok(Ok(d)) => (d, "origin: arrow_json::Writer"),
                _ => {
                    ctx.reject();
                    continue;
                }
            }
        } else {
            (write_json(&mut rng, &t, array_form), "origin: own JSON writer")
        };
        let mut cfg = JsonCfg::plain(t.schema(), gen_batch_size(&mut rng));
        cfg.flatten = array_form;
        // the own writer adds unknown "zz" keys: strict only for the arrow writer's output
        cfg.strict = use_writer && rng.bool();
        cfg.ignore_conflicts = rng.chance(1, 5);
        // non-nullable columns must be present: the model only contains nulls in nullable columns
        let model: Vec<Vec<Val>> = t
            .cols
            .iter()
            .zip(&t.kinds)
            .map(|(c, k)| {
                c.iter()
                    .map(|v| match (k, v) {
                        // a null struct decodes as null; children are not observable
                        _ => v.clone(),
                    })
                    .collect()
            })
            .collect();
        let scheds = json_plan(ctx, &mut rng, data.len());
        let tclass = t.class();
        ctx.count("json:valid-inputs", 1);
        check_json(ctx, &data, &cfg, "valid", Some(&model), &scheds, &format!("{origin}; column kinds {tclass}; array_form={array_form}"));
        let nmut = ctx.tier.pick(1, 2, 3);
        for _ in 0..nmut {
            let alphabet = [b'"', b'\\', b'{', b'}', b'[', b']', b',', b':', b'u', b'd', b'8', b'e', b'-', b'.', b' ', b'\n', 0xff, 0xc3, 0xf0, b't', b'n'];
            let (bad, how) = mutate(&mut rng, &data, &alphabet);
            let scheds = json_plan(ctx, &mut rng, bad.len());
            ctx.count(&format!("json:mutation-{how}"), 1);
            let mut c2 = cfg.clone();
            if rng.chance(1, 4) {
                c2.strict = true;
            }
            if rng.chance(1, 4) {
                c2.coerce = true;
            }
            check_json(ctx, &bad, &c2, "mutated", None, &scheds, &format!("origin: {how} mutation of a generated JSON text; column kinds {tclass}"));
        }
    }
}

