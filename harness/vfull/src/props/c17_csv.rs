//! C17 / CSV: writer -> reader round trip, and the RFC 4180 field-splitting differential.
//!
//! not asserted:
//!   * a null sentinel whose text equals the written text of some non-null cell (checked on the
//!     independently split text; such cases are counted `ambiguous` and skipped)
//!   * whitespace-padded sentinels together with the writer's whitespace trimming
//!   * `QuoteStyle::Never` when some text needs quoting
//!   * NaN sign/payload; spelling of numbers / dates (only the decoded values are compared)
//!   * csv-split: empty *unquoted* single-column records (an empty line; RFC 4180's grammar and
//!     its "optional last line break" disagree), bare quotes inside unquoted fields, text after
//!     a closing quote (not RFC 4180)

use super::*;
use arrow_csv::writer::Terminator;
use arrow_csv::{QuoteStyle, ReaderBuilder, WriterBuilder};
use std::io::Cursor;
use vcore::mon::{Outcome, is_rejection_msg, run_op};
use vcore::validate::check_batch;

// ------------------------------------------------------------------ options

#[derive(Clone, Debug)]
pub struct CsvOpts {
    pub delimiter: u8,
    pub quote: u8,
    pub escape: u8,
    pub double_quote: bool,
    /// reader is given the escape byte although the writer doubles quotes (no value contains the
    /// escape byte, so the text stays unambiguous): quote doubling must still be honoured
    pub reader_escape_with_dq: bool,
    /// None = CRLF
    pub terminator: Option<u8>,
    pub header: bool,
    pub header_validation: bool,
    /// None = writer default ("")
    pub null: Option<String>,
    pub quote_style: u8, // 0 necessary 1 always 2 non-numeric 3 never
    pub trim_lead: bool,
    pub trim_trail: bool,
    pub ts_format: Option<String>,
    pub ts_tz_format: Option<String>,
    pub time_format: Option<String>,
    pub batch_size: usize,
    /// reader leaves the terminator at its default although the writer used `Any(b'\n')`
    pub reader_default_term: bool,
    pub projection: Option<Vec<usize>>,
}

impl CsvOpts {
    pub fn plain() -> Self {
        CsvOpts {
            delimiter: b',',
            quote: b'"',
            escape: b'\\',
            double_quote: true,
            reader_escape_with_dq: false,
            terminator: Some(b'\n'),
            header: true,
            header_validation: false,
            null: Some("NULL".into()),
            quote_style: 0,
            trim_lead: false,
            trim_trail: false,
            ts_format: None,
            ts_tz_format: None,
            time_format: None,
            batch_size: 1024,
            reader_default_term: true,
            projection: None,
        }
    }
    pub fn sentinel(&self) -> &str {
        self.null.as_deref().unwrap_or("")
    }
    pub fn class(&self) -> String {
        format!(
            "d{}q{}{}t{}h{}n{}s{}{}{}{}",
            self.delimiter as char,
            self.quote as char,
            if self.double_quote { "dq".to_string() } else { format!("e{}", self.escape as char) },
            match self.terminator {
                None => "crlf".to_string(),
                Some(b) => format!("{b:02x}"),
            },
            self.header as u8 + self.header_validation as u8,
            match self.null.as_deref() {
                None => "dflt",
                Some("") => "empty",
                Some(s) if s.chars().any(|c| c.is_whitespace()) => "ws",
                Some(s) if s.bytes().any(|b| !b.is_ascii_alphanumeric()) => "punct",
                Some(_) => "word",
            },
            self.quote_style,
            if self.trim_lead || self.trim_trail { "T" } else { "" },
            if self.ts_format.is_some() || self.ts_tz_format.is_some() || self.time_format.is_some() { "F" } else { "" },
            if self.projection.is_some() { "P" } else { "" },
        )
    }
}

pub struct CsvCase {
    pub case: Case,
    pub opts: CsvOpts,
    /// double_quote == false and some string value contains the escape byte
    pub esc_in_value: bool,
}

fn csv_profile_types(rng: &mut Rng) -> DataType {
    use DataType::*;
    let tz = |rng: &mut Rng| -> Option<Arc<str>> {
        match rng.below(8) {
            0..=3 => None,
            4 => Some("+00:00".into()),
            5 => Some("+05:30".into()),
            6 => Some("-08:00".into()),
            _ => Some("+14:00".into()),
        }
    };
    let cfg = value_cfg();
    match rng.below(34) {
        0 => Boolean,
        1 => Int8,
        2 => Int16,
        3 => Int32,
        4 => Int64,
        5 => UInt8,
        6 => UInt16,
        7 => UInt32,
        8 => UInt64,
        9 => Float16,
        10 => Float32,
        11 | 12 => Float64,
        13 => Date32,
        14 => Date64,
        15 => Time32(*rng.pick(&[TimeUnit::Second, TimeUnit::Millisecond])),
        16 => Time64(*rng.pick(&[TimeUnit::Microsecond, TimeUnit::Nanosecond])),
        17 | 18 => {
            let u = *rng.pick(&gens::TIME_UNITS);
            Timestamp(u, tz(rng))
        }
        19 | 20 => gens::gen_decimal_type(rng, &cfg),
        21 | 22 | 23 => Utf8,
        24 | 25 => Utf8View,
        26 | 27 => {
            let k = rng.pick(&[Int8, Int16, Int32, Int64, UInt8, UInt16, UInt32, UInt64]).clone();
            Dictionary(Box::new(k), Box::new(Utf8))
        }
        28 => Null,
        // types only one side (or neither) supports: must come back as rejections
        29 => match rng.below(8) {
            0 => LargeUtf8,
            1 => Binary,
            2 => Duration(TimeUnit::Millisecond),
            3 => Interval(IntervalUnit::DayTime),
            4 => Dictionary(Box::new(Int32), Box::new(Int64)),
            5 => List(Arc::new(Field::new("item", Int32, true))),
            6 => Timestamp(TimeUnit::Second, Some("UTC".into())),
            _ => FixedSizeBinary(3),
        },
        _ => rng.pick(&[Int32, Utf8, Float64, Int64]).clone(),
    }
}

fn is_stringy(dt: &DataType) -> bool {
    matches!(dt, DataType::Utf8 | DataType::Utf8View | DataType::LargeUtf8)
        || matches!(dt, DataType::Dictionary(_, v) if matches!(**v, DataType::Utf8))
}

/// Generate schema, data and writer/reader options.
pub fn gen_case(rng: &mut Rng) -> CsvCase {
    let ncols = 1 + rng.below(5);
    let special_names = rng.chance(1, 4);
    let names = gen_names(rng, ncols, !special_names);
    let wild = rng.chance(1, 10);
    // five-digit years (the writer spells them "+10000-..")
    let far = !wild && rng.chance(1, 8);
    let n = rng.len_biased(40);
    let cfg = value_cfg();
    let mut fields = Vec::new();
    let mut cols: Vec<Vec<Val>> = Vec::new();
    for nm in &names {
        let dt = csv_profile_types(rng);
        let nullable = matches!(dt, DataType::Null | DataType::Dictionary(_, _)) || !rng.chance(1, 5);
        let mut col = gens::gen_column(rng, &dt, n, nullable, &cfg);
        if !wild {
            let mut r2 = rng.fork();
            walk_col(&dt, &mut col, &mut |l, v| {
                tame_temporal(&mut r2, l, v);
                if far {
                    far_future(l, v);
                }
            });
        }
        fields.push(Field::new(nm, dt, nullable));
        cols.push(col);
    }
    let schema: SchemaRef = Arc::new(Schema::new(fields));
    let batches = make_batches(rng, &schema, &cols);

    // ---- options
    let mut o = CsvOpts::plain();
    if rng.chance(2, 3) {
        o.delimiter = *rng.pick(&[b',', b',', b';', b'|', b'\t', b':', b' ', b'~']);
        o.quote = *rng.pick(&[b'"', b'"', b'\'', b'`', b'%']);
        o.double_quote = rng.chance(3, 4);
        o.escape = *rng.pick(&[b'\\', b'\\', b'^', b'!']);
        o.terminator = match rng.below(8) {
            0 | 1 => None,
            2 | 3 | 4 => Some(b'\n'),
            5 => Some(b'\r'),
            6 => Some(0x1e),
            _ => Some(b'$'),
        };
        o.reader_default_term = rng.bool();
        o.header = rng.chance(2, 3);
        o.header_validation = o.header && rng.chance(1, 3);
        o.null = match rng.below(16) {
            0 | 1 => None,
            2 => Some(String::new()),
            3 | 4 | 5 => Some("NULL".into()),
            6 => Some("\\N".into()),
            7 => Some("null".into()),
            8 => Some("NA".into()),
            9 => Some("-".into()),
            10 => Some("∅".into()),
            11 => Some(" N ".into()),
            12 => Some("nul,l".into()),
            13 => Some("n\"q'".into()),
            14 => Some((*rng.pick(&["NaN", "0", "true", "1970-01-01"])).to_string()),
            _ => Some("(null)".into()),
        };
        o.quote_style = *rng.pick(&[0u8, 0, 0, 1, 2, 3]);
        if rng.chance(1, 10) {
            o.trim_lead = rng.bool();
            o.trim_trail = rng.bool() || !o.trim_lead;
        }
        if rng.chance(1, 10) && !wild && !far {
            o.ts_format = Some("%Y-%m-%d %H:%M:%S%.f".into());
            o.ts_tz_format = Some("%Y-%m-%d %H:%M:%S%.f%:z".into());
            if rng.bool() {
                o.time_format = Some("%H:%M:%S%.9f".into());
            }
        }
        o.batch_size = *rng.pick(&[1usize, 2, 3, 7, 64, 1024]);
        if ncols > 1 && rng.chance(1, 8) {
            let mut p: Vec<usize> = (0..ncols).filter(|_| rng.bool()).collect();
            if p.is_empty() {
                p.push(rng.below(ncols));
            }
            o.projection = Some(p);
        }
    }
    // distinct special bytes
    while o.quote == o.delimiter {
        o.quote = *rng.pick(&[b'"', b'\'', b'`']);
    }
    while o.escape == o.delimiter || o.escape == o.quote {
        o.escape = *rng.pick(&[b'\\', b'^', b'!']);
    }
    if let Some(t) = o.terminator {
        if t == o.delimiter || t == o.quote || t == o.escape {
            o.terminator = Some(b'\n');
        }
    }
    // excluded by construction: padded sentinel + trimming
    if (o.trim_lead || o.trim_trail) && o.sentinel().trim() != o.sentinel() {
        o.null = Some("NULL".into());
    }
    // strings as they will be written (after the writer's trimming)
    let mut texts: Vec<String> = names.clone();
    texts.push(o.sentinel().to_string());
    for (f, c) in schema.fields().iter().zip(&cols) {
        if is_stringy(f.data_type()) {
            for v in c {
                if let Val::Str(s) = v {
                    texts.push(s.clone());
                }
            }
        }
    }
    let has = |b: u8| texts.iter().any(|t| t.as_bytes().contains(&b));
    let mut esc_in_value = false;
    if !o.double_quote && has(o.escape) {
        // the csv writer does not escape the escape byte itself; keep that as a rare,
        // separately-signed sub-case and otherwise pick an escape byte no text contains
        if rng.chance(1, 12) {
            esc_in_value = true;
        } else {
            let free: Vec<u8> = [b'\\', b'^', b'!', b'#', b'@']
                .into_iter()
                .filter(|b| !has(*b) && *b != o.delimiter && *b != o.quote && Some(*b) != o.terminator)
                .collect();
            match free.first() {
                Some(b) => o.escape = *b,
                None => o.double_quote = true,
            }
        }
    }
    if o.double_quote && !has(o.escape) && o.escape != o.delimiter && o.escape != o.quote && Some(o.escape) != o.terminator && rng.chance(1, 3) {
        o.reader_escape_with_dq = true;
    }
    if o.quote_style == 3 {
        let specials = [o.delimiter, o.quote, b'\r', b'\n', o.terminator.unwrap_or(b'\n'), o.escape];
        let plain_delim = matches!(o.delimiter, b',' | b';' | b'|' | b'\t');
        let plain_term = matches!(o.terminator, None | Some(b'\n') | Some(0x1e));
        // an empty text would be written as nothing at all: with one column that is an empty line
        let empties = texts.iter().any(|t| t.is_empty()) && ncols == 1;
        if !plain_delim || !plain_term || specials.iter().any(|b| has(*b)) || empties {
            o.quote_style = 0;
        }
    }
    CsvCase { case: Case { schema, cols, batches }, opts: o, esc_in_value }
}

pub fn writer_builder(o: &CsvOpts) -> WriterBuilder {
    let mut b = WriterBuilder::new()
        .with_delimiter(o.delimiter)
        .with_quote(o.quote)
        .with_escape(o.escape)
        .with_double_quote(o.double_quote)
        .with_header(o.header)
        .with_line_terminator(match o.terminator {
            None => Terminator::CRLF,
            Some(b) => Terminator::Any(b),
        })
        .with_quote_style(match o.quote_style {
            1 => QuoteStyle::Always,
            2 => QuoteStyle::NonNumeric,
            3 => QuoteStyle::Never,
            _ => QuoteStyle::Necessary,
        })
        .with_ignore_leading_whitespace(o.trim_lead)
        .with_ignore_trailing_whitespace(o.trim_trail);
    if let Some(n) = &o.null {
        b = b.with_null(n.clone());
    }
    if let Some(f) = &o.ts_format {
        b = b.with_timestamp_format(f.clone());
    }
    if let Some(f) = &o.ts_tz_format {
        b = b.with_timestamp_tz_format(f.clone());
    }
    if let Some(f) = &o.time_format {
        b = b.with_time_format(f.clone());
    }
    b
}

/// Serialize all batches of the case with its options.
pub fn write_csv(c: &CsvCase) -> Result<Vec<u8>, String> {
    let mut out = Vec::new();
    {
        let mut w = writer_builder(&c.opts).build(&mut out);
        for b in &c.case.batches {
            w.write(b).map_err(|e| e.to_string())?;
        }
    }
    Ok(out)
}

/// The reader configuration matching the case's writer options.
pub fn reader_builder(c: &CsvCase) -> ReaderBuilder {
    let o = &c.opts;
    let mut b = ReaderBuilder::new(c.case.schema.clone())
        .with_header(o.header)
        .with_header_validation(o.header_validation)
        .with_delimiter(o.delimiter)
        .with_quote(o.quote)
        .with_batch_size(o.batch_size);
    if !o.double_quote || o.reader_escape_with_dq {
        b = b.with_escape(o.escape);
    }
    match o.terminator {
        None => {}
        Some(b'\n') if o.reader_default_term => {}
        Some(t) => b = b.with_terminator(t),
    }
    if !o.sentinel().is_empty() || o.reader_default_term {
        let re = format!("^{}$", regex::escape(o.sentinel()));
        b = b.with_null_regex(regex::Regex::new(&re).expect("model: regex"));
    }
    if let Some(p) = &o.projection {
        b = b.with_projection(p.clone());
    }
    b
}

/// Expected logical columns after a round trip (writer-side trimming applied, projection).
pub fn expected(c: &CsvCase) -> Vec<(Field, Vec<Val>)> {
    let o = &c.opts;
    let mut all: Vec<(Field, Vec<Val>)> = Vec::new();
    for (f, col) in c.case.schema.fields().iter().zip(&c.case.cols) {
        let trims = matches!(f.data_type(), DataType::Utf8 | DataType::LargeUtf8 | DataType::Utf8View);
        let col: Vec<Val> = col
            .iter()
            .map(|v| match v {
                Val::Str(s) if trims && (o.trim_lead || o.trim_trail) => {
                    let mut t: &str = s;
                    if o.trim_lead {
                        t = t.trim_start();
                    }
                    if o.trim_trail {
                        t = t.trim_end();
                    }
                    Val::Str(t.to_string())
                }
                other => other.clone(),
            })
            .collect();
        all.push((f.as_ref().clone(), col));
    }
    match &o.projection {
        None => all,
        Some(p) => p.iter().map(|i| all[*i].clone()).collect(),
    }
}

// ------------------------------------------------------------------ independent RFC 4180 splitter

/// Dialect of the independent splitter (RFC 4180 with the special bytes as parameters).
#[derive(Clone, Copy, Debug)]
pub struct Dialect {
    pub delimiter: u8,
    pub quote: u8,
    /// Some(e): quotes inside quoted fields are written `e q` instead of `q q`
    pub escape: Option<u8>,
    /// None: CRLF / LF / CR all end a record (RFC 4180 CRLF plus the common bare forms)
    pub terminator: Option<u8>,
}

/// Split a CSV text into records of fields. RFC 4180: a field is either quoted (everything
/// up to the closing quote, `""` standing for one quote, may contain delimiters and line
/// breaks) or unquoted (everything up to the next delimiter or record end). The last record
/// may or may not be terminated. Returns Err on text the grammar does not produce.
pub fn split_rfc4180(text: &[u8], d: Dialect) -> Result<Vec<Vec<Vec<u8>>>, String> {
    let mut recs: Vec<Vec<Vec<u8>>> = Vec::new();
    let mut rec: Vec<Vec<u8>> = Vec::new();
    let n = text.len();
    let mut i = 0;
    let is_term = |b: u8| match d.terminator {
        Some(t) => b == t,
        None => b == b'\r' || b == b'\n',
    };
    if n == 0 {
        return Ok(recs);
    }
    loop {
        // one field
        let mut field: Vec<u8> = Vec::new();
        if i < n && text[i] == d.quote {
            i += 1;
            loop {
                if i >= n {
                    return Err("unterminated quoted field".into());
                }
                let b = text[i];
                if let Some(e) = d.escape {
                    if b == e && i + 1 < n {
                        field.push(text[i + 1]);
                        i += 2;
                        continue;
                    }
                }
                if b == d.quote {
                    if d.escape.is_none() && i + 1 < n && text[i + 1] == d.quote {
                        field.push(d.quote);
                        i += 2;
                        continue;
                    }
                    i += 1;
                    break;
                }
                field.push(b);
                i += 1;
            }
            if i < n && text[i] != d.delimiter && !is_term(text[i]) {
                return Err(format!("text after closing quote at {i}"));
            }
        } else {
            while i < n && text[i] != d.delimiter && !is_term(text[i]) {
                field.push(text[i]);
                i += 1;
            }
        }
        rec.push(field);
        if i >= n {
            recs.push(std::mem::take(&mut rec));
            break;
        }
        if text[i] == d.delimiter {
            i += 1;
            if i >= n {
                // trailing delimiter: one more empty field
                rec.push(Vec::new());
                recs.push(std::mem::take(&mut rec));
                break;
            }
            continue;
        }
        // record terminator
        if d.terminator.is_none() && text[i] == b'\r' && i + 1 < n && text[i + 1] == b'\n' {
            i += 2;
        } else {
            i += 1;
        }
        recs.push(std::mem::take(&mut rec));
        if i >= n {
            break;
        }
    }
    Ok(recs)
}

// ------------------------------------------------------------------ csv-rt

pub fn run_rt(ctx: &mut Ctx, k: u64) {
    let total = ctx.tier.pick(48, 24_000, 600_000);
    for i in chunk_cases(ctx, "csv-rt", total, k) {
        if ctx.out_of_time() {
            break;
        }
        let mut rng = ctx.begin("csv-rt", i);
        let c = match vcore::guard(|| gen_case(&mut rng)) {
            Ok(c) => c,
            Err(p) => {
                ctx.inconclusive(&format!("generator: {} @ {}", p.msg, p.loc));
                continue;
            }
        };
        rt_case(ctx, &c);
    }
}

/// double_quote=false with the escape byte inside a value: one signature whatever the symptom
fn esc_sig(c: &CsvCase, sig: String) -> String {
    if c.esc_in_value { "C17|csv|roundtrip|escape-byte-in-value".to_string() } else { sig }
}

fn rt_case(ctx: &mut Ctx, c: &CsvCase) {
    let o = &c.opts;
    let detail = |extra: &str, bytes: &[u8]| {
        format!("opts {:?}\n{}text {}\n{extra}", c.opts, c.case.dump(), short_bytes(bytes))
    };
    let tclass = || -> String {
        c.case.schema.fields().iter().map(|f| gens::type_class(f.data_type())).collect::<Vec<_>>().join(",")
    };
    // 1. write
    let bytes = match run_op(|| write_csv(c)) {
        Outcome::Ok(b) => b,
        Outcome::Err(_) => {
            ctx.reject();
            ctx.count("csv.write_err", 1);
            return;
        }
        Outcome::Panic(p) => {
            ctx.reject();
            ctx.count("csv.write_panic", 1);
            if ctx.verbose {
                eprintln!("writer panic: {} @ {}", p.msg, p.loc);
            }
            return;
        }
    };
    let rows = c.case.rows();
    let ncols = c.case.schema.fields().len();

    // 2. independent splitter on the written text
    let dialect = Dialect {
        delimiter: o.delimiter,
        quote: o.quote,
        escape: if o.double_quote { None } else { Some(o.escape) },
        terminator: o.terminator,
    };
    let mut ambiguous = false;
    if !c.esc_in_value {
        match split_rfc4180(&bytes, dialect) {
            Err(e) => {
                ctx.violation(
                    &format!("C17|csv|write|text-not-rfc4180|{}", err_family(&e)),
                    detail(&format!("splitter: {e}"), &bytes),
                );
                return;
            }
            Ok(recs) => {
                let want = rows + o.header as usize;
                // a single empty column value may be spelled as an empty line only when quoted;
                // the writer must never produce a record-less line
                if recs.len() != want {
                    ctx.violation(
                        "C17|csv|write|record-count",
                        detail(&format!("splitter sees {} records, expected {want}", recs.len()), &bytes),
                    );
                    return;
                }
                for (ri, r) in recs.iter().enumerate() {
                    if r.len() != ncols {
                        ctx.violation(
                            "C17|csv|write|field-count",
                            detail(&format!("record {ri} has {} fields, expected {ncols}", r.len()), &bytes),
                        );
                        return;
                    }
                }
                if o.header {
                    for (f, got) in c.case.schema.fields().iter().zip(&recs[0]) {
                        if f.name().as_bytes() != got.as_slice() {
                            ctx.violation(
                                "C17|csv|write|header-text",
                                detail(&format!("header {:?} written as {:?}", f.name(), String::from_utf8_lossy(got)), &bytes),
                            );
                            return;
                        }
                    }
                }
                let mut exp_all = {
                    let mut cc = CsvCase { case: c.case.clone(), opts: c.opts.clone(), esc_in_value: false };
                    cc.opts.projection = None;
                    expected(&cc)
                };
                if std::env::var("C17_MUTATE").ok().as_deref() == Some("csv-text") {
                    // self-test of the splitter check: only string cells are compared textually
                    'm: for e in exp_all.iter_mut() {
                        for v in e.1.iter_mut() {
                            if let Val::Str(s) = v {
                                s.push('x');
                                break 'm;
                            }
                        }
                    }
                }
                let sent = o.sentinel().as_bytes();
                for (ci, (f, col)) in exp_all.iter().enumerate() {
                    for (ri, v) in col.iter().enumerate() {
                        let got = &recs[ri + o.header as usize][ci];
                        match v {
                            Val::Null => {
                                if got.as_slice() != sent {
                                    ctx.violation(
                                        &format!("C17|csv|write|null-text|{}", family(f.data_type())),
                                        detail(&format!("row {ri} col {ci}: null written as {:?}", String::from_utf8_lossy(got)), &bytes),
                                    );
                                    return;
                                }
                            }
                            Val::Str(s) => {
                                if got.as_slice() != s.as_bytes() {
                                    ctx.violation(
                                        &format!("C17|csv|write|string-text|{}", family(f.data_type())),
                                        detail(&format!("row {ri} col {ci}: {s:?} written as {:?}", String::from_utf8_lossy(got)), &bytes),
                                    );
                                    return;
                                }
                                if got.as_slice() == sent {
                                    ambiguous = true;
                                }
                            }
                            _ => {
                                if got.as_slice() == sent {
                                    ambiguous = true;
                                }
                            }
                        }
                    }
                }
            }
        }
    } else {
        // still exclude sentinel collisions
        for (f, col) in c.case.schema.fields().iter().zip(&c.case.cols) {
            if is_stringy(f.data_type()) && col.iter().any(|v| v.as_str() == Some(o.sentinel())) {
                ambiguous = true;
            }
        }
    }
    if ambiguous {
        // not asserted: sentinel equal to a value
        ctx.count("csv.ambiguous_sentinel", 1);
        return;
    }

    // 3. read back
    let mut exp = expected(c);
    {
        let mut cols: Vec<Vec<Val>> = exp.iter().map(|e| e.1.clone()).collect();
        selftest_mutate("csv-rt", &mut cols);
        for (e, c) in exp.iter_mut().zip(cols) {
            e.1 = c;
        }
    }
    let read = vcore::guard(|| -> Result<Vec<RecordBatch>, String> {
        let r = reader_builder(c).build(Cursor::new(bytes.clone())).map_err(|e| e.to_string())?;
        let mut out = Vec::new();
        for b in r {
            out.push(b.map_err(|e| e.to_string())?);
        }
        Ok(out)
    });
    let batches = match read {
        Err(p) => {
            if p.is_rejection() {
                ctx.reject();
                return;
            }
            ctx.violation(
                &esc_sig(c, format!("C17|csv|read|panic|{}|{}", p.file(), err_family(&p.msg))),
                detail(&format!("reader panic: {} @ {}", p.msg, p.loc), &bytes),
            );
            return;
        }
        Ok(Err(e)) => {
            if is_rejection_msg(&e) {
                ctx.reject();
                ctx.count("csv.read_unsupported", 1);
                return;
            }
            ctx.eval();
            ctx.violation(
                &esc_sig(c, format!("C17|csv|read|err|{}", err_family(&e))),
                detail(&format!("reader error: {e}"), &bytes),
            );
            return;
        }
        Ok(Ok(b)) => b,
    };
    ctx.eval();
    ctx.count("csv.bytes", bytes.len() as u64);
    ctx.count("csv.cells", (rows * ncols) as u64);
    // structural checks on what the reader returned
    let exp_schema = Schema::new(exp.iter().map(|(f, _)| f.clone()).collect::<Vec<_>>());
    for b in &batches {
        if b.num_rows() > o.batch_size {
            ctx.violation("C17|csv|read|batch-size", detail(&format!("batch of {} rows > batch_size", b.num_rows()), &bytes));
            return;
        }
        if !same_fields(&b.schema(), &exp_schema) {
            ctx.violation(
                "C17|csv|read|schema",
                detail(&format!("reader schema {:?} != {:?}", b.schema(), exp_schema), &bytes),
            );
            return;
        }
        if let Err(e) = check_batch(b) {
            ctx.violation(&format!("C17|csv|read|invalid-batch|{}", err_family(&e)), detail(&e, &bytes));
            return;
        }
    }
    let got = extract_batches(&batches, exp.len());
    let mut ok = true;
    for (ci, ((f, e), g)) in exp.iter().zip(&got).enumerate() {
        if let Some((row, leaf, kind)) = diff_col(f.data_type(), e, g) {
            ok = false;
            ctx.violation(
                &esc_sig(c, format!("C17|csv|roundtrip|{kind}|{leaf}")),
                detail(
                    &format!(
                        "column {ci} ({}) row {row}: expected {:?} got {:?}",
                        f.data_type(),
                        e.get(row),
                        g.get(row)
                    ),
                    &bytes,
                ),
            );
            break;
        }
    }
    if ok && rows > 0 {
        ctx.class(format!("csv-rt|{}|{}|ok", tclass(), o.class()));
        ctx.sample(|| format!("csv-rt {:?}\n{}{}", c.opts, c.case.dump(), short_bytes(&bytes)));
    }
}

// ------------------------------------------------------------------ csv-split

/// An RFC 4180 document generated from the grammar together with the fields it denotes.
pub struct CsvDoc {
    pub text: Vec<u8>,
    pub records: Vec<Vec<String>>,
    pub dialect: Dialect,
    pub header: bool,
    pub class: String,
}

pub fn gen_doc(rng: &mut Rng) -> CsvDoc {
    let custom = rng.chance(1, 4);
    let dialect = if custom {
        let delimiter = *rng.pick(&[b';', b'|', b'\t', b':', b' ']);
        let quote = *rng.pick(&[b'"', b'\'', b'`']);
        Dialect { delimiter, quote, escape: None, terminator: None }
    } else {
        Dialect { delimiter: b',', quote: b'"', escape: None, terminator: None }
    };
    let ncols = 1 + rng.below(5);
    let nrows = *rng.pick(&[0usize, 1, 1, 2, 3, 5, 8, 13]);
    let header = rng.chance(1, 3);
    // line ending: RFC 4180 CRLF; bare LF as the common variant; mixed
    let eol_mode = rng.below(4);
    let final_eol = rng.chance(2, 3);
    let quote_bias = *rng.pick(&[0u32, 1, 2, 4]);
    let mut records: Vec<Vec<String>> = Vec::new();
    let mut text: Vec<u8> = Vec::new();
    let total = nrows + header as usize;
    for r in 0..total {
        let mut rec = Vec::new();
        for c in 0..ncols {
            let mut s = if rng.chance(1, 6) {
                String::new()
            } else if rng.chance(1, 5) {
                // spaces are part of the field
                format!(" {} ", gens::gen_string(rng))
            } else {
                gens::gen_string(rng)
            };
            if header && r == 0 && s.is_empty() {
                s = format!("h{c}");
            }
            let needs = s.bytes().any(|b| b == dialect.delimiter || b == dialect.quote || b == b'\r' || b == b'\n');
            // an empty unquoted single-column record is an empty line: not asserted
            let must = needs || (ncols == 1 && s.is_empty());
            let quoted = must || rng.chance(quote_bias, 4);
            if c > 0 {
                text.push(dialect.delimiter);
            }
            if quoted {
                text.push(dialect.quote);
                for b in s.bytes() {
                    if b == dialect.quote {
                        text.push(dialect.quote);
                    }
                    text.push(b);
                }
                text.push(dialect.quote);
            } else {
                text.extend_from_slice(s.as_bytes());
            }
            rec.push(s);
        }
        records.push(rec);
        if r + 1 < total || final_eol {
            match eol_mode {
                0 | 1 => text.extend_from_slice(b"\r\n"),
                2 => text.push(b'\n'),
                _ => {
                    if rng.bool() {
                        text.extend_from_slice(b"\r\n")
                    } else {
                        text.push(b'\n')
                    }
                }
            }
        }
    }
    let class = format!(
        "{}|cols{}|eol{}|fin{}|q{}|h{}",
        if custom { "custom" } else { "rfc" },
        ncols.min(3),
        eol_mode,
        final_eol as u8,
        quote_bias,
        header as u8
    );
    CsvDoc { text, records, dialect, header, class }
}

pub fn run_split(ctx: &mut Ctx, k: u64) {
    let total = ctx.tier.pick(32, 12_000, 300_000);
    for i in chunk_cases(ctx, "csv-split", total, k) {
        if ctx.out_of_time() {
            break;
        }
        let mut rng = ctx.begin("csv-split", i);
        let doc = gen_doc(&mut rng);
        // model self-check: the own splitter must reproduce the generating fields
        match split_rfc4180(&doc.text, doc.dialect) {
            Ok(r) => {
                let same = r.len() == doc.records.len()
                    && r.iter().zip(&doc.records).all(|(a, b)| {
                        a.len() == b.len() && a.iter().zip(b).all(|(x, y)| x.as_slice() == y.as_bytes())
                    });
                if !same {
                    ctx.inconclusive("own splitter disagrees with the generator");
                    continue;
                }
            }
            Err(e) => {
                ctx.inconclusive(&format!("own splitter rejected a generated document: {e}"));
                continue;
            }
        }
        let ncols = doc.records.first().map(|r| r.len()).unwrap_or(1 + rng.below(3));
        let col_ty = |rng: &mut Rng| match rng.below(4) {
            0 => DataType::Utf8View,
            1 => DataType::Dictionary(Box::new(DataType::Int32), Box::new(DataType::Utf8)),
            _ => DataType::Utf8,
        };
        let fields: Vec<Field> = (0..ncols)
            .map(|c| {
                let name = if doc.header { doc.records[0][c].clone() } else { format!("c{c}") };
                Field::new(name, col_ty(&mut rng), true)
            })
            .collect();
        let schema: SchemaRef = Arc::new(Schema::new(fields));
        let batch_size = *rng.pick(&[1usize, 2, 5, 1024]);
        let validate = doc.header && rng.bool();
        let never = regex::Regex::new(r"[^\s\S]").expect("model: regex");
        let text = doc.text.clone();
        let d = doc.dialect;
        let header = doc.header;
        let sch = schema.clone();
        let read = vcore::guard(move || -> Result<Vec<RecordBatch>, String> {
            let mut b = ReaderBuilder::new(sch)
                .with_header(header)
                .with_header_validation(validate)
                .with_batch_size(batch_size)
                .with_null_regex(never);
            if d.delimiter != b',' {
                b = b.with_delimiter(d.delimiter);
            }
            if d.quote != b'"' {
                b = b.with_quote(d.quote);
            }
            let r = b.build(Cursor::new(text)).map_err(|e| e.to_string())?;
            let mut out = Vec::new();
            for x in r {
                out.push(x.map_err(|e| e.to_string())?);
            }
            Ok(out)
        });
        let detail = |extra: String| {
            format!("dialect {:?} header {}\ntext {}\nfields {:?}\n{extra}", doc.dialect, doc.header, short_bytes(&doc.text), doc.records)
        };
        ctx.eval();
        let batches = match read {
            Err(p) => {
                ctx.violation(
                    &format!("C17|csv|split|panic|{}|{}", p.file(), err_family(&p.msg)),
                    detail(format!("panic {} @ {}", p.msg, p.loc)),
                );
                continue;
            }
            Ok(Err(e)) => {
                ctx.violation(&format!("C17|csv|split|err|{}", err_family(&e)), detail(format!("reader error {e}")));
                continue;
            }
            Ok(Ok(b)) => b,
        };
        let got = extract_batches(&batches, ncols);
        let data = &doc.records[doc.header as usize..];
        let mut bad = None;
        let mut exp_cols: Vec<Vec<Val>> =
            (0..ncols).map(|c| data.iter().map(|r| Val::Str(r[c].clone())).collect()).collect();
        selftest_mutate("csv-split", &mut exp_cols);
        for c in 0..ncols {
            let exp: Vec<Val> = exp_cols[c].clone();
            if let Some((row, _, kind)) = diff_col(&DataType::Utf8, &exp, &got[c]) {
                bad = Some((c, row, kind, exp.get(row).cloned(), got[c].get(row).cloned()));
                break;
            }
        }
        match bad {
            Some((c, row, kind, e, g)) => ctx.violation(
                &format!("C17|csv|split|{kind}"),
                detail(format!("column {c} row {row}: RFC 4180 field {e:?}, reader returned {g:?}")),
            ),
            None => {
                if !data.is_empty() {
                    ctx.class(format!("csv-split|{}", doc.class));
                    ctx.count("csv.split_fields", (data.len() * ncols) as u64);
                    ctx.sample(|| format!("csv-split {}", short_bytes(&doc.text)));
                }
            }
        }
    }
}
