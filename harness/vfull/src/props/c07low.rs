//! C07 `lowlevel` section: files written with `SerializedFileWriter` and the typed column writers
//! (`ColumnValueEncoderImpl` statistics path for every physical type, including the types and
//! annotations the Arrow writer never produces: BYTE_ARRAY decimals of mixed length, INT96,
//! converted-type-only annotations, ENUM / JSON / UUID).

use super::c07::{adv_bytes, adv_string, check_file};
use super::c07core::*;
use bytes::Bytes;
use parquet::basic::{Compression, ConvertedType, LogicalType, Repetition, Type as PhysicalType};
use parquet::column::writer::ColumnWriter;
use parquet::data_type::{ByteArray, FixedLenByteArray, Int96};
use parquet::file::properties::{EnabledStatistics, WriterProperties, WriterVersion};
use parquet::file::writer::SerializedFileWriter;
use parquet::schema::types::Type;
use std::sync::Arc;
use vcore::gens;
use vcore::mon::{Ctx, guard, is_rejection_msg, strip_digits};
use vcore::rng::Rng;

#[derive(Clone, Debug)]
enum Kind {
    Bool,
    I32(Option<(i8, bool)>, bool),
    I64(Option<(i8, bool)>, bool),
    I32Dec(i32),
    I64Dec(i32),
    BaDec(i32),
    FlbaDec(i32, i32),
    Utf8(bool),
    Ba(u8),
    Flba(i32),
    Uuid,
    F16,
    Interval,
    Int96,
    Float,
    Double,
    Date,
    TsMillis,
}

fn gen_kind(rng: &mut Rng) -> Kind {
    match rng.below(22) {
        0 => Kind::Bool,
        1 => Kind::I32(None, false),
        2 => Kind::I32(Some((*rng.pick(&[8i8, 16, 32]), true)), rng.bool()),
        3 | 4 => Kind::I32(Some((*rng.pick(&[8i8, 16, 32]), false)), rng.bool()),
        5 => Kind::I64(if rng.bool() { Some((64, true)) } else { None }, rng.bool()),
        6 => Kind::I64(Some((64, false)), rng.bool()),
        7 => Kind::I32Dec(1 + rng.below(9) as i32),
        8 => Kind::I64Dec(1 + rng.below(18) as i32),
        9 | 10 | 11 => Kind::BaDec(*rng.pick(&[1, 3, 9, 18, 19, 30, 38])),
        12 | 13 => {
            let (l, p) = *rng.pick(&[(1, 2), (2, 4), (3, 6), (5, 11), (9, 21), (16, 38)]);
            Kind::FlbaDec(l, p)
        }
        14 => Kind::Utf8(rng.bool()),
        15 => Kind::Ba(rng.below(4) as u8),
        16 => Kind::Flba(*rng.pick(&[1, 2, 3, 4, 8, 17])),
        17 => rng.pick(&[Kind::Uuid, Kind::F16, Kind::Interval]).clone(),
        18 => Kind::Int96,
        19 => Kind::Float,
        20 => Kind::Double,
        _ => rng.pick(&[Kind::Date, Kind::TsMillis, Kind::F16]).clone(),
    }
}

fn build_type(name: &str, k: &Kind, rep: Repetition) -> Result<Type, String> {
    let b = |p: PhysicalType| Type::primitive_type_builder(name, p).with_repetition(rep);
    let int_ct = |w: i8, s: bool| match (w, s) {
        (8, true) => ConvertedType::INT_8,
        (16, true) => ConvertedType::INT_16,
        (32, true) => ConvertedType::INT_32,
        (64, true) => ConvertedType::INT_64,
        (8, false) => ConvertedType::UINT_8,
        (16, false) => ConvertedType::UINT_16,
        (32, false) => ConvertedType::UINT_32,
        _ => ConvertedType::UINT_64,
    };
    let t = match k {
        Kind::Bool => b(PhysicalType::BOOLEAN),
        Kind::I32(ann, legacy) | Kind::I64(ann, legacy) => {
            let p = if matches!(k, Kind::I32(..)) { PhysicalType::INT32 } else { PhysicalType::INT64 };
            match ann {
                None => b(p),
                Some((w, s)) if *legacy => b(p).with_converted_type(int_ct(*w, *s)),
                Some((w, s)) => b(p).with_logical_type(Some(LogicalType::integer(*w, *s))),
            }
        }
        Kind::I32Dec(p) => b(PhysicalType::INT32).with_logical_type(Some(LogicalType::decimal(0, *p))).with_precision(*p).with_scale(0),
        Kind::I64Dec(p) => b(PhysicalType::INT64).with_converted_type(ConvertedType::DECIMAL).with_precision(*p).with_scale(0),
        Kind::BaDec(p) => {
            if p % 2 == 0 {
                b(PhysicalType::BYTE_ARRAY).with_converted_type(ConvertedType::DECIMAL).with_precision(*p).with_scale(1)
            } else {
                b(PhysicalType::BYTE_ARRAY).with_logical_type(Some(LogicalType::decimal(1, *p))).with_precision(*p).with_scale(1)
            }
        }
        Kind::FlbaDec(l, p) => b(PhysicalType::FIXED_LEN_BYTE_ARRAY).with_length(*l).with_logical_type(Some(LogicalType::decimal(0, *p))).with_precision(*p).with_scale(0),
        Kind::Utf8(legacy) => {
            if *legacy {
                b(PhysicalType::BYTE_ARRAY).with_converted_type(ConvertedType::UTF8)
            } else {
                b(PhysicalType::BYTE_ARRAY).with_logical_type(Some(LogicalType::String))
            }
        }
        Kind::Ba(0) => b(PhysicalType::BYTE_ARRAY),
        Kind::Ba(1) => b(PhysicalType::BYTE_ARRAY).with_logical_type(Some(LogicalType::Enum)),
        Kind::Ba(2) => b(PhysicalType::BYTE_ARRAY).with_converted_type(ConvertedType::JSON),
        Kind::Ba(_) => b(PhysicalType::BYTE_ARRAY).with_logical_type(Some(LogicalType::Bson)),
        Kind::Flba(l) => b(PhysicalType::FIXED_LEN_BYTE_ARRAY).with_length(*l),
        Kind::Uuid => b(PhysicalType::FIXED_LEN_BYTE_ARRAY).with_length(16).with_logical_type(Some(LogicalType::Uuid)),
        Kind::F16 => b(PhysicalType::FIXED_LEN_BYTE_ARRAY).with_length(2).with_logical_type(Some(LogicalType::Float16)),
        Kind::Interval => b(PhysicalType::FIXED_LEN_BYTE_ARRAY).with_length(12).with_converted_type(ConvertedType::INTERVAL),
        Kind::Int96 => b(PhysicalType::INT96),
        Kind::Float => b(PhysicalType::FLOAT),
        Kind::Double => b(PhysicalType::DOUBLE),
        Kind::Date => b(PhysicalType::INT32).with_logical_type(Some(LogicalType::Date)),
        Kind::TsMillis => b(PhysicalType::INT64).with_converted_type(ConvertedType::TIMESTAMP_MILLIS),
    };
    t.build().map_err(|e| e.to_string())
}

fn min_be(v: i128) -> Vec<u8> {
    let b = v.to_be_bytes();
    let mut i = 0;
    while i < 15 && ((b[i] == 0 && b[i + 1] & 0x80 == 0) || (b[i] == 0xFF && b[i + 1] & 0x80 != 0)) {
        i += 1;
    }
    b[i..].to_vec()
}

fn gen_pv(rng: &mut Rng, k: &Kind) -> PV {
    let lim = |bits: u32, signed: bool| -> (i128, i128) {
        if signed { (-(1i128 << (bits - 1)), (1i128 << (bits - 1)) - 1) } else { (0, (1i128 << bits) - 1) }
    };
    match k {
        Kind::Bool => PV::Bool(rng.bool()),
        Kind::I32(ann, _) => {
            let (w, s) = ann.map(|(w, s)| (w as u32, s)).unwrap_or((32, true));
            let (lo, hi) = lim(w, s);
            PV::I32(gens::gen_int(rng, lo, hi) as u32 as i32)
        }
        Kind::I64(ann, _) => {
            let s = ann.map(|a| a.1).unwrap_or(true);
            let (lo, hi) = lim(64, s);
            PV::I64(gens::gen_int(rng, lo, hi) as u64 as i64)
        }
        Kind::Date => PV::I32(gens::gen_int(rng, i32::MIN as i128, i32::MAX as i128) as i32),
        Kind::TsMillis => PV::I64(gens::gen_int(rng, i64::MIN as i128, i64::MAX as i128) as i64),
        Kind::I32Dec(p) => {
            let b = gens::decimal_bound(*p as u8);
            PV::I32(gens::gen_int(rng, -b, b) as i32)
        }
        Kind::I64Dec(p) => {
            let b = gens::decimal_bound(*p as u8);
            PV::I64(gens::gen_int(rng, -b, b) as i64)
        }
        Kind::BaDec(p) => {
            let b = gens::decimal_bound(*p as u8);
            let v = gens::gen_int(rng, -b, b);
            let mut bytes = min_be(v);
            // redundant sign extension: same number, longer encoding
            if rng.chance(1, 3) {
                let ext = if v < 0 { 0xFFu8 } else { 0 };
                let k = 1 + rng.below(3);
                let mut o = vec![ext; k];
                o.extend_from_slice(&bytes);
                bytes = o;
            }
            PV::Bytes(bytes)
        }
        Kind::FlbaDec(l, _) => {
            let l = *l as usize;
            let mut b = rng.bytes(l);
            match rng.below(4) {
                0 => b[0] = *rng.pick(&[0x00u8, 0xFF, 0x80, 0x7F]),
                1 => b.iter_mut().for_each(|x| *x = *rng.pick(&[0x00u8, 0xFF])),
                _ => {}
            }
            PV::Bytes(b)
        }
        Kind::Utf8(_) => {
            let narrow = rng.bool();
            PV::Bytes(adv_string(rng, narrow).into_bytes())
        }
        Kind::Ba(_) => PV::Bytes(adv_bytes(rng, None)),
        Kind::Flba(l) => PV::Bytes(adv_bytes(rng, Some(*l as usize))),
        Kind::Uuid => PV::Bytes(adv_bytes(rng, Some(16))),
        Kind::Interval => PV::Bytes(rng.bytes(12)),
        Kind::F16 => PV::Bytes(gens::gen_f16_bits(rng).to_le_bytes().to_vec()),
        Kind::Float => PV::F32(gens::gen_f32_bits(rng)),
        Kind::Double => PV::F64(gens::gen_f64_bits(rng)),
        Kind::Int96 => {
            let nanos: u64 = match rng.below(4) {
                0 => 0,
                1 => 86_400_000_000_000 - 1,
                _ => rng.u64() % 86_400_000_000_000,
            };
            let day: u32 = match rng.below(6) {
                0 => 0,
                1 => 2_440_588,
                2 => i32::MAX as u32,
                3 => (-1i32) as u32,
                4 => 2_440_588 + rng.below(40_000) as u32,
                _ => rng.u32(),
            };
            PV::I96([nanos as u32, (nanos >> 32) as u32, day])
        }
    }
}

fn kind_ord(k: &Kind) -> OrdKind {
    match k {
        Kind::Bool => OrdKind::Bool,
        Kind::I32(a, _) | Kind::I64(a, _) => {
            if a.map(|x| x.1).unwrap_or(true) {
                OrdKind::Signed
            } else {
                OrdKind::Unsigned
            }
        }
        Kind::I32Dec(_) | Kind::I64Dec(_) | Kind::BaDec(_) | Kind::FlbaDec(..) => OrdKind::Decimal,
        Kind::Utf8(_) | Kind::Ba(_) | Kind::Flba(_) | Kind::Uuid => OrdKind::Lex,
        Kind::F16 => OrdKind::F16,
        Kind::Float | Kind::Double => OrdKind::Float,
        Kind::Int96 => OrdKind::Int96Ts,
        Kind::Date | Kind::TsMillis => OrdKind::Signed,
        Kind::Interval => OrdKind::Undefined,
    }
}

pub fn case(ctx: &mut Ctx, rng: &mut Rng) {
    let ncols = 1 + rng.below(3);
    let rows = if rng.chance(1, 8) { rng.below(500) } else { 1 + rng.below(50) };
    let page = *rng.pick(&[1usize, 2, 3, 5, 8, 13, 50]);
    let kinds: Vec<Kind> = (0..ncols).map(|_| gen_kind(rng)).collect();
    let optional: Vec<bool> = (0..ncols).map(|_| !rng.chance(1, 3)).collect();
    // row groups
    let n_rg = 1 + rng.below(3);
    let mut cuts: Vec<usize> = (0..n_rg - 1).map(|_| rng.below(rows + 1)).collect();
    cuts.push(0);
    cuts.push(rows);
    cuts.sort();
    let rg_lens: Vec<usize> = cuts.windows(2).map(|w| w[1] - w[0]).filter(|n| *n > 0).collect();
    // values: data[col][row]
    let mut data: Vec<Vec<Option<PV>>> = Vec::new();
    let mut shapes = Vec::new();
    for (k, opt) in kinds.iter().zip(&optional) {
        let pool_n = *rng.pick(&[1usize, 2, 4, 1000]);
        let pool: Vec<PV> = (0..pool_n.min(rows.max(1))).map(|_| gen_pv(rng, k)).collect();
        let mut v: Vec<PV> = (0..rows).map(|_| if pool_n == 1000 { gen_pv(rng, k) } else { rng.pick(&pool).clone() }).collect();
        let ok = kind_ord(k);
        let cmp = |a: &PV, b: &PV| pv_is_nan(ok, a).cmp(&pv_is_nan(ok, b)).then_with(|| pv_cmp(ok, a, b).unwrap_or(std::cmp::Ordering::Equal));
        let shape = match rng.below(5) {
            0 | 1 => "random",
            2 => {
                v.sort_by(cmp);
                "asc"
            }
            3 => {
                v.sort_by(|a, b| cmp(b, a));
                "desc"
            }
            _ => {
                let mut blocks: Vec<Vec<PV>> = v.chunks(page).map(|c| {
                    let mut c = c.to_vec();
                    c.sort_by(cmp);
                    c
                }).collect();
                rng.shuffle(&mut blocks);
                v = blocks.into_iter().flatten().collect();
                "blocks"
            }
        };
        let mut col: Vec<Option<PV>> = v.into_iter().map(Some).collect();
        let mut tag = shape.to_string();
        if *opt && rows > 0 {
            match rng.below(4) {
                0 => {}
                1 => {
                    col.iter_mut().for_each(|x| {
                        if rng.chance(1, 4) {
                            *x = None
                        }
                    });
                    tag.push_str("+nulls");
                }
                2 => {
                    for _ in 0..1 + rng.below(3) {
                        let s = rng.below(rows);
                        let l = 1 + rng.below(3 * page);
                        col[s..(s + l).min(rows)].iter_mut().for_each(|x| *x = None);
                    }
                    tag.push_str("+null-runs");
                }
                _ => {
                    if rng.chance(1, 4) {
                        col.iter_mut().for_each(|x| *x = None);
                        tag.push_str("+all-null");
                    }
                }
            }
        }
        shapes.push(tag);
        data.push(col);
    }
    // schema
    let mut fields = Vec::new();
    for (i, (k, opt)) in kinds.iter().zip(&optional).enumerate() {
        match build_type(&format!("c{i}"), k, if *opt { Repetition::OPTIONAL } else { Repetition::REQUIRED }) {
            Ok(t) => fields.push(Arc::new(t)),
            Err(e) => {
                ctx.reject();
                ctx.count(&format!("lowlevel-schema-refused: {}", strip_digits(&e).chars().take(60).collect::<String>()), 1);
                return;
            }
        }
    }
    let schema = match Type::group_type_builder("schema").with_fields(fields).build() {
        Ok(s) => Arc::new(s),
        Err(e) => {
            ctx.inconclusive(&format!("model: group type: {e}"));
            return;
        }
    };
    // properties
    let mut d: Vec<String> = Vec::new();
    let mut b = WriterProperties::builder();
    if rng.bool() {
        b = b.set_writer_version(WriterVersion::PARQUET_2_0);
        d.push("version=2".into());
    }
    let dict = rng.bool();
    b = b.set_dictionary_enabled(dict);
    d.push(format!("dict={dict}"));
    if rng.chance(1, 3) {
        let v = *rng.pick(&[1usize, 8, 40, 200]);
        b = b.set_dictionary_page_size_limit(v);
        d.push(format!("dict_page_limit={v}"));
    }
    b = b.set_data_page_row_count_limit(page);
    let wb = *rng.pick(&[1usize, 1, 2, 3, 7, 16, 1024]);
    b = b.set_write_batch_size(wb);
    d.push(format!("page_rows={page} write_batch={wb}"));
    let stats = *rng.pick(&[EnabledStatistics::Page, EnabledStatistics::Page, EnabledStatistics::Page, EnabledStatistics::Chunk, EnabledStatistics::None]);
    b = b.set_statistics_enabled(stats);
    let st = super::c07::trunc_len(rng);
    let ct = super::c07::trunc_len(rng);
    b = b.set_statistics_truncate_length(st).set_column_index_truncate_length(ct);
    d.push(format!("stats={stats:?} stats_trunc={st:?} cidx_trunc={ct:?}"));
    if rng.bool() {
        b = b.set_write_page_header_statistics(true);
        d.push("page_header_stats".into());
    }
    if rng.bool() {
        let fpp = *rng.pick(&[0.9f64, 0.5, 0.1, 0.01, 0.0001]);
        let ndv = *rng.pick(&[1u64, 2, 10, 100, 5000]);
        b = b.set_bloom_filter_enabled(true).set_bloom_filter_fpp(fpp).set_bloom_filter_max_ndv(ndv);
        d.push(format!("bloom fpp={fpp} ndv={ndv}"));
    }
    if rng.chance(1, 5) {
        b = b.set_compression(Compression::SNAPPY);
        d.push("snappy".into());
    }
    let props = Arc::new(b.build());
    let batch = *rng.pick(&[1usize, 2, 3, 7, 1000]);
    let desc = format!(
        "lowlevel SerializedFileWriter\nschema {}\nprops {}\nrows {rows} row groups {rg_lens:?} write_batch calls of {batch} rows\nshapes {shapes:?}\n{}",
        kinds.iter().zip(&optional).map(|(k, o)| format!("{k:?}{}", if *o { "?" } else { "" })).collect::<Vec<_>>().join(", "),
        d.join(" "),
        data.iter().enumerate().map(|(i, c)| {
            let mut s = format!("c{i} = [");
            for x in c.iter().take(60) {
                s.push_str(&match x {
                    Some(v) => format!("{v:?}, "),
                    None => "NULL, ".into(),
                });
            }
            if c.len() > 60 {
                s.push_str("..");
            }
            s.push(']');
            s
        }).collect::<Vec<_>>().join("\n")
    );
    // write
    let mut written: Vec<Vec<Vec<Option<PV>>>> = vec![Vec::new(); ncols];
    let res = guard(|| -> Result<Vec<u8>, String> {
        let mut buf: Vec<u8> = Vec::new();
        let mut w = SerializedFileWriter::new(&mut buf, schema.clone(), props.clone()).map_err(|e| format!("new: {e}"))?;
        let mut r0 = 0usize;
        for n in &rg_lens {
            let mut rgw = w.next_row_group().map_err(|e| format!("next_row_group: {e}"))?;
            let mut j = 0usize;
            while let Some(mut cw) = rgw.next_column().map_err(|e| format!("next_column: {e}"))? {
                let rows_j = &data[j][r0..r0 + n];
                written[j].push(rows_j.to_vec());
                for chunk in rows_j.chunks(batch) {
                    let defs: Vec<i16> = chunk.iter().map(|x| x.is_some() as i16).collect();
                    let defs = if optional[j] { Some(&defs[..]) } else { None };
                    let vals: Vec<&PV> = chunk.iter().flatten().collect();
                    macro_rules! wr {
                        ($t:ident, $conv:expr) => {{
                            let v: Vec<_> = vals.iter().map($conv).collect();
                            $t.write_batch(&v, defs, None).map_err(|e| format!("write_batch: {e}"))?;
                        }};
                    }
                    let bytes_of = |v: &&PV| -> Vec<u8> {
                        match v {
                            PV::Bytes(b) => b.clone(),
                            _ => panic!("model: kind/value mismatch"),
                        }
                    };
                    match cw.untyped() {
                        ColumnWriter::BoolColumnWriter(t) => wr!(t, |v| matches!(v, PV::Bool(true))),
                        ColumnWriter::Int32ColumnWriter(t) => wr!(t, |v| match v {
                            PV::I32(x) => *x,
                            _ => panic!("model: kind/value mismatch"),
                        }),
                        ColumnWriter::Int64ColumnWriter(t) => wr!(t, |v| match v {
                            PV::I64(x) => *x,
                            _ => panic!("model: kind/value mismatch"),
                        }),
                        ColumnWriter::Int96ColumnWriter(t) => wr!(t, |v| match v {
                            PV::I96(d) => Int96::from(d.to_vec()),
                            _ => panic!("model: kind/value mismatch"),
                        }),
                        ColumnWriter::FloatColumnWriter(t) => wr!(t, |v| match v {
                            PV::F32(b) => f32::from_bits(*b),
                            _ => panic!("model: kind/value mismatch"),
                        }),
                        ColumnWriter::DoubleColumnWriter(t) => wr!(t, |v| match v {
                            PV::F64(b) => f64::from_bits(*b),
                            _ => panic!("model: kind/value mismatch"),
                        }),
                        ColumnWriter::ByteArrayColumnWriter(t) => wr!(t, |v| ByteArray::from(bytes_of(v))),
                        ColumnWriter::FixedLenByteArrayColumnWriter(t) => wr!(t, |v| FixedLenByteArray::from(bytes_of(v))),
                    }
                }
                cw.close().map_err(|e| format!("column close: {e}"))?;
                j += 1;
            }
            rgw.close().map_err(|e| format!("row group close: {e}"))?;
            r0 += n;
        }
        w.close().map_err(|e| format!("close: {e}"))?;
        Ok(buf)
    });
    let bytes = match res {
        Ok(Ok(b)) => Bytes::from(b),
        Ok(Err(e)) => {
            // the property is conditional on the writer producing the file
            ctx.reject();
            if !is_rejection_msg(&e) {
                ctx.count(&format!("lowlevel-no-file: {}", strip_digits(&e).chars().take(70).collect::<String>()), 1);
            }
            return;
        }
        Err(p) => {
            if p.msg.starts_with("model:") {
                ctx.inconclusive(&format!("{} @ {}", p.msg, p.loc));
            } else {
                ctx.reject();
                ctx.count(&format!("lowlevel-writer-panic: {}", strip_digits(&p.msg).chars().take(70).collect::<String>()), 1);
            }
            return;
        }
    };
    ctx.eval();
    // signalling NaNs may be quietened when moved through float registers on some targets; the
    // decoded values are compared with the written ones inside check_file (inconclusive if different)
    let r = guard(|| check_file(ctx, &bytes, &desc, None, Some(&written[..]), "low"));
    if let Err(p) = r {
        if p.msg.starts_with("model:") || p.loc.contains("/harness/") {
            ctx.inconclusive(&format!("harness panic: {} @ {}", p.msg, p.loc));
        } else {
            ctx.panic_violation("check", &p, desc.clone());
        }
    }
    ctx.count("files_checked", 1);
    ctx.count("rows_checked", rows as u64);
    ctx.sample(|| desc.chars().take(1000).collect());
}
