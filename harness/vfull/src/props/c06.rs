//! C06: Parquet pushdown returns exactly what filtering a full read would.
//!
//! Events: batches of `ParquetRecordBatchReader` (sync), `ParquetRecordBatchStream` (async, also
//! `next_row_group`) and `ParquetPushDecoder` (`try_decode`, `try_next_reader`, mixed, `into_builder`
//! rebuilds at row-group boundaries; exact-range or whole-file feeding) built with random
//! combinations of projection (all / none / roots / leaves), row-group list (subset, any order,
//! empty), `RowSelection` (every construction recipe of `c06sel::build_sel`, selector- and
//! mask-backed), 0-3 `ArrowPredicateFn`s (deterministic functions of the projected row values,
//! returning true / false / null, result arrays possibly sliced; every row shown to a predicate is
//! logged), offset, limit, batch size, `RowSelectionPolicy`, offset/column index policy, the
//! `row_number` / `row_group_index` virtual columns, predicate cache size.
//!
//! Oracle: the reference is computed from ONE unrestricted read of the same file (which must
//! first equal the rows written, otherwise the file is skipped: that is C05) with the
//! `Vec<bool>` / `Vec<Val>` model in the documented order row groups -> selection -> predicates
//! -> offset -> limit -> projection (`c06model::expected`). Asserted: the reader's schema is the
//! projection of the file schema (+ virtual columns), every batch carries it, no batch exceeds the
//! batch size, the concatenated rows equal the reference rows (values by `extract`, virtual
//! row numbers = file row ids), and every predicate is only ever shown rows that survive the
//! earlier stages, in order (RowFilter rustdoc). Sections `algebra` / `ranges`: see `c06sel`.
//!
//! Sections: `sync`, `async`, `push` (one case = one generated file + N reader configurations),
//! `algebra` (selection set algebra vs position sets), `ranges` (`scan_ranges` vs page locations).
//!
//! not asserted:
//! * selections shorter / longer than the rows of the chosen row groups, duplicate row-group
//!   indexes, `batch_size == 0`, predicates that error or return a wrong length (caller contract);
//! * how the rows are cut into batches (only `<= batch_size`), empty batches;
//! * that a predicate sees *all* surviving rows (limit short-circuit of the push decoder is legal)
//!   nor the batch boundaries it is called with;
//! * which byte ranges a push decoder / async reader requests; `peek_next_row_group`;
//! * `scan_ranges` returning more pages than needed (counted as evidence only);
//! * files whose plain full read does not reproduce the written rows (C05 defects) are skipped;
//! * `PageIndexPolicy::Required` on files without index (an error by contract; not generated).

use super::c06model::{self as model, Decide, Expected, ModelCfg, ProjModel, proj_model};
use super::c06sel::{self as selm, Issue, bits_str, build_sel, gen_bits, report_issues};
use super::pq_common::{self as pq, FailKind, GenCfg, PropsCfg, ReadCfg, ReadOutcome, WriteCfg, Written, compare_rows, compare_schema, shape_class};
use arrow_array::{BooleanArray, RecordBatch, RecordBatchReader};
use arrow_schema::{ArrowError, DataType, Field, Schema, SchemaRef};
use bytes::Bytes;
use futures::future::BoxFuture;
use futures::{FutureExt, StreamExt};
use parquet::DecodeResult;
use parquet::arrow::arrow_reader::{
    ArrowPredicate, ArrowPredicateFn, ArrowReaderBuilder, ArrowReaderMetadata, ArrowReaderOptions, ParquetRecordBatchReaderBuilder, RowFilter, RowSelection,
    RowSelectionPolicy,
};
use parquet::arrow::async_reader::{AsyncFileReader, ParquetRecordBatchStreamBuilder};
use parquet::arrow::push_decoder::ParquetPushDecoderBuilder;
use parquet::arrow::{ProjectionMask, RowGroupIndex, RowNumber, is_virtual_column};
use parquet::file::metadata::{PageIndexPolicy, ParquetMetaData};
use std::ops::Range;
use std::sync::{Arc, Mutex};
use vcore::extract::extract;
use vcore::mon::{Ctx, PanicInfo, guard, is_rejection_msg, strip_digits};
use vcore::rng::Rng;
use vcore::val::{Val, dump_vals};

// ------------------------------------------------------------------------------------------------
// the file under test
// ------------------------------------------------------------------------------------------------

struct FileCtx {
    w: Written,
    /// schema of the unrestricted read (REE looked through, coerce_types renames applied)
    full_schema: SchemaRef,
    /// the unrestricted read, one `Vec<Val>` per top-level column
    table: Vec<Vec<Val>>,
    rows: usize,
    rg_rows: Vec<usize>,
    rg_start: Vec<usize>,
    nleaves: usize,
    leaf_root: Vec<usize>,
    nroots: usize,
    has_offset_index: bool,
    /// row positions where a page of some column starts (absolute file rows), if the index exists
    page_marks: Vec<usize>,
}

/// Replace the values of some top-level integer columns by sequences that stress `skip` in the
/// decoders: wrapping arithmetic progressions (DELTA_BINARY_PACKED miniblocks of bit width 0 with
/// huge deltas), constants and constant blocks (RLE / dictionary runs). Nulls stay where they are.
fn patterned_integers(rng: &mut Rng, l: &mut pq::Logical) {
    let schema = l.schema.clone();
    for (f, col) in schema.fields().iter().zip(l.cols.iter_mut()) {
        let (bits, signed) = match f.data_type() {
            DataType::Int8 => (8u32, true),
            DataType::Int16 => (16, true),
            DataType::Int32 => (32, true),
            DataType::Int64 => (64, true),
            DataType::UInt8 => (8, false),
            DataType::UInt16 => (16, false),
            DataType::UInt32 => (32, false),
            DataType::UInt64 => (64, false),
            _ => continue,
        };
        if !rng.chance(1, 3) {
            continue;
        }
        let m: i128 = 1i128 << bits;
        let wrap = |x: i128| -> i128 {
            let y = x.rem_euclid(m);
            if signed && y >= m / 2 { y - m } else { y }
        };
        let (lo, hi) = if signed { (-(m / 2), m / 2 - 1) } else { (0, m - 1) };
        let any = |rng: &mut Rng| -> i128 {
            match rng.below(5) {
                0 => lo,
                1 => hi,
                2 => rng.range(-3, 3) as i128,
                _ => wrap(rng.u128() as i128),
            }
        };
        let pattern = rng.below(4);
        let start = wrap(any(rng));
        let step = match rng.below(6) {
            0 => 1,
            1 => -1,
            2 => hi,
            3 => lo,
            4 => hi / 2 + 1,
            _ => any(rng),
        };
        let other = wrap(any(rng));
        let mut cur = start;
        let mut left = 0usize;
        let mut i = 0usize;
        for v in col.iter_mut() {
            if v.is_null() {
                continue;
            }
            i += 1;
            let x = match pattern {
                0 => {
                    let x = cur;
                    cur = wrap(cur + step);
                    x
                }
                1 => start,
                2 => {
                    if left == 0 {
                        left = 1 + rng.below(100);
                        cur = wrap(any(rng));
                    }
                    left -= 1;
                    cur
                }
                _ => {
                    if i % 2 == 0 {
                        start
                    } else {
                        other
                    }
                }
            };
            *v = Val::Int(x);
        }
    }
}

fn prepare_file(ctx: &mut Ctx, rng: &mut Rng) -> Option<FileCtx> {
    let mut cfg = WriteCfg::standard();
    cfg.gen_cfg = GenCfg { max_rows: 400, ..GenCfg::standard() };
    cfg.gen_cfg.keep_unsupported = (0, 1);
    cfg.props = PropsCfg { lzo: false, tiny: (2, 3), ..PropsCfg::all() };
    if rng.chance(1, 3) {
        cfg.gen_cfg.types.max_depth = rng.below(2) as u32;
    }
    if rng.chance(1, 6) {
        // long columns: skips that cross delta blocks / RLE runs / dictionary pages / many data pages
        cfg.gen_cfg.max_cols = 2;
        cfg.gen_cfg.max_rows = 3000;
        cfg.gen_cfg.types.max_depth = rng.below(2) as u32;
        cfg.gen_cfg.types.null_type = false;
    }
    let mut logical = pq::gen_logical(rng, &cfg.gen_cfg);
    patterned_integers(rng, &mut logical);
    let w = match pq::write_generated(rng, logical, &cfg) {
        Ok(w) => w,
        Err(f) => {
            match f.kind {
                FailKind::Model => ctx.inconclusive(&format!("model failure at {}: {}", f.stage, f.msg)),
                _ => {
                    // the writer declined / failed: not this property (C05)
                    ctx.reject();
                    ctx.count("files_not_written", 1);
                }
            }
            return None;
        }
    };
    // the plain round trip must hold first (otherwise it is a C05 matter)
    let mut full: Option<(SchemaRef, Vec<RecordBatch>)> = None;
    for (k, bs) in [1024usize, 1 + rng.below(7)].into_iter().enumerate() {
        match pq::read_file(&w.bytes, &ReadCfg { batch_size: bs, page_index: if k == 0 { PageIndexPolicy::Skip } else { PageIndexPolicy::Optional } }) {
            ReadOutcome::Ok(schema, batches) => {
                let ok = compare_schema(&w.schema, &schema, w.props.coerce_types).is_ok() && matches!(compare_rows(&w.expected_schema, &w.logical.cols, &batches), Ok(Ok(())));
                if !ok {
                    ctx.reject();
                    ctx.count("files_skipped_plain_round_trip_differs", 1);
                    return None;
                }
                if k == 0 {
                    full = Some((schema, batches));
                }
            }
            _ => {
                ctx.reject();
                ctx.count("files_skipped_plain_read_fails", 1);
                return None;
            }
        }
    }
    let (full_schema, batches) = full.unwrap();
    let table: Vec<Vec<Val>> = match guard(|| {
        (0..full_schema.fields().len()).map(|c| batches.iter().flat_map(|b| extract(b.column(c).as_ref())).collect::<Vec<Val>>()).collect::<Vec<_>>()
    }) {
        Ok(t) => t,
        Err(p) => {
            ctx.inconclusive(&format!("extract of the full read: {} @ {}", p.msg, p.loc));
            return None;
        }
    };
    let md = &w.metadata;
    let rg_rows: Vec<usize> = md.row_groups().iter().map(|r| r.num_rows() as usize).collect();
    let mut rg_start = Vec::with_capacity(rg_rows.len());
    let mut at = 0usize;
    for r in &rg_rows {
        rg_start.push(at);
        at += r;
    }
    if at != w.logical.rows {
        ctx.inconclusive(&format!("model: row groups hold {at} rows, written {}", w.logical.rows));
        return None;
    }
    let leaf_root: Vec<usize> = w.props.leaves.iter().map(|l| l.root).collect();
    // page layout (evidence + boundary marks for the selections)
    let mut page_marks: Vec<usize> = Vec::new();
    let mut has_offset_index = false;
    let opts = ArrowReaderOptions::new().with_page_index_policy(PageIndexPolicy::Optional);
    if let Ok(m) = ArrowReaderMetadata::load(&w.bytes, opts) {
        if let Some(pi) = m.metadata().page_index() {
            let mut pages = 0u64;
            for g in 0..rg_rows.len() {
                for c in 0..leaf_root.len() {
                    if let Some(oi) = pi.offset_index(g, c) {
                        has_offset_index = true;
                        pages += oi.page_locations().len() as u64;
                        let zr = oi.page_locations().windows(2).filter(|w| w[0].first_row_index == w[1].first_row_index).count();
                        if zr > 0 {
                            ctx.count("data_pages_without_rows_in_offset_index", zr as u64);
                        }
                        for p in oi.page_locations() {
                            page_marks.push(rg_start[g] + p.first_row_index as usize);
                        }
                    }
                }
            }
            ctx.count("data_pages_in_offset_index", pages);
        }
    }
    page_marks.sort();
    page_marks.dedup();
    ctx.count("files", 1);
    ctx.count("file_row_groups", rg_rows.len() as u64);
    ctx.count("file_rows", w.logical.rows as u64);
    if has_offset_index {
        ctx.count("files_with_offset_index", 1);
    }
    Some(FileCtx {
        rows: w.logical.rows,
        nleaves: leaf_root.len(),
        nroots: full_schema.fields().len(),
        full_schema,
        table,
        rg_rows,
        rg_start,
        leaf_root,
        has_offset_index,
        page_marks,
        w,
    })
}

// ------------------------------------------------------------------------------------------------
// reader configurations
// ------------------------------------------------------------------------------------------------

#[derive(Clone, Debug, PartialEq)]
enum Proj {
    All,
    None,
    Roots(Vec<usize>),
    Leaves(Vec<usize>),
}

impl Proj {
    fn class(&self) -> &'static str {
        match self {
            Proj::All => "all",
            Proj::None => "none",
            Proj::Roots(_) => "roots",
            Proj::Leaves(_) => "leaves",
        }
    }
    fn leaf_mask(&self, fc: &FileCtx) -> Vec<bool> {
        match self {
            Proj::All => vec![true; fc.nleaves],
            Proj::None => vec![false; fc.nleaves],
            Proj::Roots(r) => fc.leaf_root.iter().map(|x| r.contains(x)).collect(),
            Proj::Leaves(l) => (0..fc.nleaves).map(|i| l.contains(&i)).collect(),
        }
    }
    fn mask(&self, fc: &FileCtx, md: &ParquetMetaData) -> ProjectionMask {
        let sd = md.file_metadata().schema_descr();
        match self {
            Proj::All => ProjectionMask::all(),
            Proj::None => ProjectionMask::none(fc.nleaves),
            Proj::Roots(r) => ProjectionMask::roots(sd, r.iter().copied()),
            Proj::Leaves(l) => ProjectionMask::leaves(sd, l.iter().copied()),
        }
    }
}

fn gen_subset(rng: &mut Rng, n: usize) -> Vec<usize> {
    // non-empty subset of 0..n, possibly listed out of order / repeated (documented as irrelevant)
    let mut v: Vec<usize> = (0..n).filter(|_| rng.chance(1, 2)).collect();
    if v.is_empty() {
        v.push(rng.below(n));
    }
    if rng.chance(1, 4) {
        rng.shuffle(&mut v);
        let d = v[0];
        v.push(d);
    }
    v
}

fn gen_proj(rng: &mut Rng, fc: &FileCtx, allow_none: bool) -> Proj {
    match rng.below(10) {
        0 | 1 | 2 => Proj::All,
        3 if allow_none => Proj::None,
        4 | 5 | 6 => Proj::Roots(gen_subset(rng, fc.nroots)),
        _ => {
            if rng.chance(1, 3) {
                Proj::Leaves(vec![rng.below(fc.nleaves)])
            } else {
                Proj::Leaves(gen_subset(rng, fc.nleaves))
            }
        }
    }
}

#[derive(Clone, Debug)]
struct PredSpec {
    proj: Proj,
    d: Decide,
    /// return the result as a slice of a longer array
    slice: bool,
}

#[derive(Clone, Copy, Debug, PartialEq)]
enum Drive {
    Decode,
    Readers,
    /// keep the row-group readers and drain them after the decoder finished
    ReadersDeferred,
    Mixed,
}

#[derive(Clone, Debug, PartialEq)]
enum Kind {
    Sync { via_options: bool },
    Async { pending_io: bool, by_row_group: bool, via_options: bool },
    Push { whole: bool, drive: Drive, rebuild: bool },
}

impl Kind {
    fn tag(&self) -> &'static str {
        match self {
            Kind::Sync { .. } => "sync",
            Kind::Async { by_row_group: false, .. } => "async",
            Kind::Async { by_row_group: true, .. } => "async-rg",
            Kind::Push { drive: Drive::Decode, .. } => "push-decode",
            Kind::Push { drive: Drive::Readers, rebuild: false, .. } => "push-readers",
            Kind::Push { drive: Drive::Readers, rebuild: true, .. } => "push-rebuild",
            Kind::Push { drive: Drive::ReadersDeferred, .. } => "push-deferred",
            Kind::Push { drive: Drive::Mixed, .. } => "push-mixed",
        }
    }
    /// signature part: the reader family
    fn family(&self) -> &'static str {
        match self {
            Kind::Sync { .. } => "sync",
            Kind::Async { .. } => "async",
            Kind::Push { .. } => "push",
        }
    }
}

#[derive(Clone, Debug)]
struct Cfg {
    kind: Kind,
    proj: Proj,
    row_groups: Option<Vec<usize>>,
    sel_bits: Option<Vec<bool>>,
    preds: Vec<PredSpec>,
    offset: Option<usize>,
    limit: Option<usize>,
    batch_size: usize,
    policy: Option<RowSelectionPolicy>,
    offset_index: PageIndexPolicy,
    column_index: PageIndexPolicy,
    row_number: bool,
    row_group_index: bool,
    cache: Option<usize>,
}

fn gen_kind(rng: &mut Rng, section: &str) -> Kind {
    match section {
        "sync" => Kind::Sync { via_options: rng.bool() },
        "async" => Kind::Async { pending_io: rng.bool(), by_row_group: rng.chance(1, 3), via_options: rng.chance(1, 3) },
        _ => {
            let drive = *rng.pick(&[Drive::Decode, Drive::Decode, Drive::Readers, Drive::Readers, Drive::ReadersDeferred, Drive::Mixed]);
            Kind::Push { whole: rng.chance(1, 3), drive, rebuild: drive == Drive::Readers && rng.bool() }
        }
    }
}

fn gen_cfg(rng: &mut Rng, fc: &FileCtx, section: &str) -> Cfg {
    let kind = gen_kind(rng, section);
    let nrg = fc.rg_rows.len();
    let row_groups: Option<Vec<usize>> = if nrg == 0 {
        if rng.chance(1, 4) { Some(vec![]) } else { None }
    } else {
        match rng.below(12) {
            0..=4 => None,
            5 => Some((0..nrg).collect()),
            6 if rng.chance(1, 3) => Some(vec![]),
            7 => Some(vec![rng.below(nrg)]),
            8 => {
                // distinct row groups in an arbitrary order
                let mut v: Vec<usize> = (0..nrg).filter(|_| rng.chance(2, 3)).collect();
                rng.shuffle(&mut v);
                Some(v)
            }
            _ => Some((0..nrg).filter(|_| rng.chance(2, 3)).collect()),
        }
    };
    let chosen: Vec<usize> = row_groups.clone().unwrap_or_else(|| (0..nrg).collect());
    let total: usize = chosen.iter().map(|g| fc.rg_rows[*g]).sum();
    // boundaries inside the concatenation of the chosen row groups
    let mut marks: Vec<usize> = Vec::new();
    let mut at = 0usize;
    for g in &chosen {
        marks.push(at);
        let (lo, hi) = (fc.rg_start[*g], fc.rg_start[*g] + fc.rg_rows[*g]);
        for m in &fc.page_marks {
            if *m > lo && *m < hi && marks.len() < 64 {
                marks.push(at + (m - lo));
            }
        }
        at += fc.rg_rows[*g];
    }
    let sel_bits = if rng.chance(3, 5) { Some(gen_bits(rng, total, &marks)) } else { None };
    let npreds = *rng.pick(&[0usize, 0, 0, 1, 1, 2, 3]);
    let preds: Vec<PredSpec> = (0..npreds)
        .map(|_| {
            let (t, n, den) = *rng.pick(&[(1u64, 0u64, 1u64), (0, 0, 1), (0, 1, 1), (9, 0, 10), (1, 1, 2), (1, 0, 2), (1, 0, 8), (5, 3, 10), (1, 2, 16)]);
            let (t, n, den) = if rng.chance(1, 2) { (t, n, den) } else { (1 + rng.below(9) as u64, rng.below(2) as u64, 10) };
            PredSpec { proj: gen_proj(rng, fc, false), d: Decide { salt: rng.u64(), t, n, den }, slice: rng.chance(1, 3) }
        })
        .collect();
    let pick_n = |rng: &mut Rng| -> usize {
        match rng.below(9) {
            0 => 0,
            1 => 1,
            2 => total,
            3 => total + 1 + rng.below(9),
            4 if rng.chance(1, 4) => usize::MAX,
            5 => total / 2,
            _ => rng.below(total + 2),
        }
    };
    let offset = if rng.chance(2, 5) { Some(pick_n(rng)) } else { None };
    let limit = if rng.chance(2, 5) { Some(pick_n(rng)) } else { None };
    let batch_size = match rng.below(10) {
        0 => 1,
        1 => 2 + rng.below(3),
        2 => total.max(1),
        3 => total + 1,
        4 => fc.rg_rows.first().copied().unwrap_or(1).max(1),
        5 => 1024,
        6 => 8192,
        _ => 1 + rng.below(fc.rows + 3),
    };
    let policy = match rng.below(6) {
        0 => None,
        1 => Some(RowSelectionPolicy::Selectors),
        2 | 3 => Some(RowSelectionPolicy::Mask),
        _ => Some(RowSelectionPolicy::Auto { threshold: *rng.pick(&[0usize, 1, 2, 8, 32, 1000, usize::MAX]) }),
    };
    let pol = |rng: &mut Rng| *rng.pick(&[PageIndexPolicy::Skip, PageIndexPolicy::Optional, PageIndexPolicy::Optional]);
    let (offset_index, column_index) = if rng.chance(2, 3) {
        let p = pol(rng);
        (p, p)
    } else {
        (pol(rng), pol(rng))
    };
    Cfg {
        kind,
        proj: gen_proj(rng, fc, true),
        row_groups,
        sel_bits,
        preds,
        offset,
        limit,
        batch_size,
        policy,
        offset_index,
        column_index,
        row_number: rng.chance(1, 4),
        row_group_index: rng.chance(1, 6),
        cache: if rng.chance(1, 2) { Some(*rng.pick(&[0usize, 1, 64, 4096, usize::MAX])) } else { None },
    }
}

fn cfg_string(c: &Cfg, recipe: &str) -> String {
    format!(
        "kind {:?}\nprojection {:?}\nrow_groups {:?}\nselection {} via {recipe}\npredicates {:?}\noffset {:?} limit {:?} batch_size {} policy {:?} offset_index {:?} column_index {:?} row_number {} row_group_index {} predicate_cache {:?}",
        c.kind,
        c.proj,
        c.row_groups,
        c.sel_bits.as_ref().map(|b| bits_str(b)).unwrap_or_else(|| "-".into()),
        c.preds,
        c.offset,
        c.limit,
        c.batch_size,
        c.policy,
        c.offset_index,
        c.column_index,
        c.row_number,
        c.row_group_index,
        c.cache
    )
}

// ------------------------------------------------------------------------------------------------
// running a configuration on the real readers
// ------------------------------------------------------------------------------------------------

#[derive(Default)]
struct PredLog {
    hashes: Vec<u64>,
    calls: u64,
    /// the predicate batch had a column count different from the projection model
    bad_columns: Option<String>,
}

fn make_predicate(fc: &FileCtx, md: &ParquetMetaData, p: &PredSpec, ncols: usize, log: Arc<Mutex<PredLog>>, rng: &mut Rng) -> Box<dyn ArrowPredicate> {
    let d = p.d.clone();
    let slice = p.slice;
    let mut prng = rng.fork();
    let f = move |batch: RecordBatch| -> Result<BooleanArray, ArrowError> {
        let n = batch.num_rows();
        let schema = batch.schema();
        let cols: Vec<Vec<Val>> = batch.columns().iter().zip(schema.fields()).filter(|(_, f)| !is_virtual_column(f)).map(|(c, _)| extract(c.as_ref())).collect();
        let mut l = log.lock().unwrap();
        l.calls += 1;
        if cols.len() != ncols {
            l.bad_columns = Some(format!("predicate batch has {} data columns ({}), the projection model {ncols}", cols.len(), pq::schema_string(&schema)));
        }
        let mut out: Vec<Option<bool>> = Vec::with_capacity(n);
        for r in 0..n {
            let h = model::row_hash(d.salt, cols.iter().map(|c| &c[r]));
            l.hashes.push(h);
            out.push(d.on(h));
        }
        if slice {
            let pre = 1 + prng.below(9);
            let mut v: Vec<Option<bool>> = (0..pre).map(|_| if prng.bool() { Some(prng.bool()) } else { None }).collect();
            v.extend(out);
            v.push(Some(true));
            Ok(BooleanArray::from(v).slice(pre, n))
        } else {
            Ok(BooleanArray::from(out))
        }
    };
    Box::new(ArrowPredicateFn::new(p.proj.mask(fc, md), f))
}

struct Setup {
    sel: Option<RowSelection>,
    filter: Option<RowFilter>,
    logs: Vec<Arc<Mutex<PredLog>>>,
}

fn configure<T>(mut b: ArrowReaderBuilder<T>, fc: &FileCtx, c: &Cfg, s: &mut Setup) -> ArrowReaderBuilder<T> {
    let md = b.metadata().clone();
    b = b.with_batch_size(c.batch_size).with_projection(c.proj.mask(fc, &md));
    if let Some(r) = &c.row_groups {
        b = b.with_row_groups(r.clone());
    }
    if let Some(sel) = s.sel.take() {
        b = b.with_row_selection(sel);
    }
    if let Some(f) = s.filter.take() {
        b = b.with_row_filter(f);
    }
    if let Some(o) = c.offset {
        b = b.with_offset(o);
    }
    if let Some(l) = c.limit {
        b = b.with_limit(l);
    }
    if let Some(p) = c.policy {
        b = b.with_row_selection_policy(p);
    }
    if let Some(m) = c.cache {
        b = b.with_max_predicate_cache_size(m);
    }
    b
}

fn reader_options(c: &Cfg) -> Result<ArrowReaderOptions, String> {
    let mut o = ArrowReaderOptions::new().with_offset_index_policy(c.offset_index).with_column_index_policy(c.column_index);
    let mut v = Vec::new();
    if c.row_number {
        v.push(Arc::new(Field::new("__row_number", DataType::Int64, false).with_extension_type(RowNumber)));
    }
    if c.row_group_index {
        v.push(Arc::new(Field::new("__row_group_index", DataType::Int64, false).with_extension_type(RowGroupIndex)));
    }
    if !v.is_empty() {
        o = o.with_virtual_columns(v).map_err(|e| e.to_string())?;
    }
    Ok(o)
}

/// In-memory `AsyncFileReader`; optionally every request is `Pending` once before it resolves.
struct MemReader {
    data: Bytes,
    pending_io: bool,
    requests: Arc<Mutex<u64>>,
}

struct YieldOnce(bool);
impl std::future::Future for YieldOnce {
    type Output = ();
    fn poll(mut self: std::pin::Pin<&mut Self>, cx: &mut std::task::Context<'_>) -> std::task::Poll<()> {
        if self.0 {
            std::task::Poll::Ready(())
        } else {
            self.0 = true;
            cx.waker().wake_by_ref();
            std::task::Poll::Pending
        }
    }
}

impl AsyncFileReader for MemReader {
    fn get_bytes(&mut self, range: Range<u64>) -> BoxFuture<'_, parquet::errors::Result<Bytes>> {
        *self.requests.lock().unwrap() += 1;
        let pending = self.pending_io;
        let data = self.data.clone();
        async move {
            if pending {
                YieldOnce(false).await;
            }
            if range.end as usize > data.len() || range.start > range.end {
                return Err(parquet::errors::ParquetError::General(format!("model: request {range:?} beyond the file ({})", data.len())));
            }
            Ok(data.slice(range.start as usize..range.end as usize))
        }
        .boxed()
    }
    fn get_metadata<'a>(&'a mut self, options: Option<&'a ArrowReaderOptions>) -> BoxFuture<'a, parquet::errors::Result<Arc<ParquetMetaData>>> {
        let data = self.data.clone();
        async move {
            let o = options.cloned().unwrap_or_default();
            let m = ArrowReaderMetadata::load(&data, o)?;
            Ok(m.metadata().clone())
        }
        .boxed()
    }
}

type RunOut = (Option<SchemaRef>, Vec<RecordBatch>);
type RunErr = (&'static str, String);

fn e<T, E: std::fmt::Display>(stage: &'static str, r: Result<T, E>) -> Result<T, RunErr> {
    r.map_err(|x| (stage, x.to_string()))
}

fn run_reader(fc: &FileCtx, c: &Cfg, s: &mut Setup, rng: &mut Rng, io_requests: &mut u64) -> Result<RunOut, RunErr> {
    let bytes = fc.w.bytes.clone();
    let opts = e("options", reader_options(c))?;
    match &c.kind {
        Kind::Sync { via_options } => {
            let b = if *via_options {
                e("open", ParquetRecordBatchReaderBuilder::try_new_with_options(bytes, opts))?
            } else {
                let m = e("open", ArrowReaderMetadata::load(&bytes, opts))?;
                ParquetRecordBatchReaderBuilder::new_with_metadata(bytes, m)
            };
            let reader = e("build", configure(b, fc, c, s).build())?;
            let schema = reader.schema();
            let mut out = Vec::new();
            for x in reader {
                out.push(e("next", x)?);
            }
            Ok((Some(schema), out))
        }
        Kind::Async { pending_io, by_row_group, via_options } => {
            let req = Arc::new(Mutex::new(0u64));
            let mr = MemReader { data: bytes.clone(), pending_io: *pending_io, requests: req.clone() };
            let r = futures::executor::block_on(async {
                let b = if *via_options {
                    e("open", ParquetRecordBatchStreamBuilder::new_with_options(mr, opts).await)?
                } else {
                    let m = e("open", ArrowReaderMetadata::load(&bytes, opts))?;
                    ParquetRecordBatchStreamBuilder::new_with_metadata(mr, m)
                };
                let mut stream = e("build", configure(b, fc, c, s).build())?;
                let schema = stream.schema().clone();
                let mut out = Vec::new();
                if *by_row_group {
                    while let Some(reader) = e("next_row_group", stream.next_row_group().await)? {
                        for x in reader {
                            out.push(e("next", x)?);
                        }
                    }
                } else {
                    while let Some(x) = stream.next().await {
                        out.push(e("next", x)?);
                    }
                }
                Ok((Some(schema), out))
            });
            *io_requests += *req.lock().unwrap();
            r
        }
        Kind::Push { whole, drive, rebuild } => {
            let m = e("open", ArrowReaderMetadata::load(&bytes, opts))?;
            let b = ParquetPushDecoderBuilder::new_with_metadata(m);
            let mut dec = e("build", configure(b, fc, c, s).build())?;
            if *whole {
                e("push", dec.push_range(0..bytes.len() as u64, bytes.clone()))?;
            }
            let mut out: Vec<RecordBatch> = Vec::new();
            let mut deferred = Vec::new();
            let mut steps = 0usize;
            let bound = 20_000 + 50 * fc.rows * (1 + fc.nleaves);
            loop {
                steps += 1;
                if steps > bound {
                    return Err(("no-progress", format!("decoder did not finish within {bound} steps")));
                }
                let use_reader = match drive {
                    Drive::Decode => false,
                    Drive::Readers | Drive::ReadersDeferred => true,
                    Drive::Mixed => rng.bool(),
                };
                if use_reader {
                    match e("try_next_reader", dec.try_next_reader())? {
                        DecodeResult::NeedsData(ranges) => {
                            *io_requests += ranges.len() as u64;
                            let data: Vec<Bytes> = ranges.iter().map(|r| bytes.slice(r.start as usize..r.end as usize)).collect();
                            e("push", dec.push_ranges(ranges, data))?;
                        }
                        DecodeResult::Data(reader) => {
                            if *drive == Drive::ReadersDeferred {
                                deferred.push(reader);
                            } else {
                                for x in reader {
                                    out.push(e("next", x)?);
                                }
                            }
                            if *rebuild && dec.is_at_row_group_boundary() && dec.row_groups_remaining() > 0 && rng.chance(2, 3) {
                                dec = e("rebuild", e("into_builder", dec.into_builder())?.build())?;
                            }
                        }
                        DecodeResult::Finished => break,
                    }
                } else {
                    match e("try_decode", dec.try_decode())? {
                        DecodeResult::NeedsData(ranges) => {
                            *io_requests += ranges.len() as u64;
                            let data: Vec<Bytes> = ranges.iter().map(|r| bytes.slice(r.start as usize..r.end as usize)).collect();
                            e("push", dec.push_ranges(ranges, data))?;
                        }
                        DecodeResult::Data(b) => out.push(b),
                        DecodeResult::Finished => break,
                    }
                }
            }
            for reader in deferred {
                for x in reader {
                    out.push(e("next", x)?);
                }
            }
            Ok((out.first().map(|b| b.schema()), out))
        }
    }
}

// ------------------------------------------------------------------------------------------------
// one configuration: run + oracle
// ------------------------------------------------------------------------------------------------

fn witness(fc: &FileCtx, c: &Cfg, recipe: &str) -> String {
    let mut s = format!("{}\nrow groups {:?}\n{}\n", cfg_string(c, recipe), fc.rg_rows, fc.w.desc);
    for (i, col) in fc.table.iter().enumerate() {
        if s.len() > 4500 {
            break;
        }
        s.push_str(&format!("col{i} = {}\n", dump_vals(col)));
    }
    s
}

/// returns true if the configuration reached the oracle and held
fn one_config(ctx: &mut Ctx, fc: &FileCtx, rng: &mut Rng, section: &str) -> bool {
    let c = gen_cfg(rng, fc, section);
    let start = rng.clone();
    let before = ctx.violations;
    let ok = judge(ctx, fc, &c, rng);
    if ctx.violations > before && ctx.verbose {
        shrink(fc, &c, &start);
    }
    ok
}

/// What the oracle reports to: the real `Ctx`, or a recorder used while shrinking a witness.
trait Sink {
    fn eval(&mut self);
    fn count(&mut self, key: &str, n: u64);
    fn reject(&mut self);
    fn inconclusive(&mut self, why: &str);
    fn violation(&mut self, sig: &str, detail: String);
    fn class(&mut self, c: String);
    fn sample(&mut self, f: &dyn Fn() -> String);
    fn panic_violation(&mut self, op: &str, p: &PanicInfo, detail: String);
}

impl Sink for Ctx {
    fn eval(&mut self) {
        Ctx::eval(self)
    }
    fn count(&mut self, key: &str, n: u64) {
        Ctx::count(self, key, n)
    }
    fn reject(&mut self) {
        Ctx::reject(self)
    }
    fn inconclusive(&mut self, why: &str) {
        Ctx::inconclusive(self, why)
    }
    fn violation(&mut self, sig: &str, detail: String) {
        Ctx::violation(self, sig, detail)
    }
    fn class(&mut self, c: String) {
        Ctx::class(self, c)
    }
    fn sample(&mut self, f: &dyn Fn() -> String) {
        Ctx::sample(self, f)
    }
    fn panic_violation(&mut self, op: &str, p: &PanicInfo, detail: String) {
        Ctx::panic_violation(self, op, p, detail)
    }
}

#[derive(Default)]
struct Rec {
    sigs: Vec<String>,
}

impl Sink for Rec {
    fn eval(&mut self) {}
    fn count(&mut self, _: &str, _: u64) {}
    fn reject(&mut self) {}
    fn inconclusive(&mut self, _: &str) {}
    fn violation(&mut self, sig: &str, _: String) {
        self.sigs.push(sig.to_string());
    }
    fn class(&mut self, _: String) {}
    fn sample(&mut self, _: &dyn Fn() -> String) {}
    fn panic_violation(&mut self, op: &str, p: &PanicInfo, _: String) {
        self.sigs.push(format!("C06|{op}|panic|{}|{}", p.file(), strip_digits(&p.msg)));
    }
}

/// Replay aid (`--verbose`): greedily simplify a violating configuration while the first
/// signature stays the same, and print the result.
fn shrink(fc: &FileCtx, c: &Cfg, start: &Rng) {
    let first = |c: &Cfg| -> Option<String> {
        let mut r = Rec::default();
        judge(&mut r, fc, c, &mut start.clone());
        r.sigs.first().cloned()
    };
    let Some(target) = first(c) else { return };
    let mut cur = c.clone();
    let mut visited: std::collections::BTreeSet<String> = std::collections::BTreeSet::new();
    visited.insert(format!("{cur:?}"));
    let mut rounds = 0;
    let total = |c: &Cfg| -> usize { c.row_groups.clone().unwrap_or_else(|| (0..fc.rg_rows.len()).collect()).iter().map(|g| fc.rg_rows[*g]).sum() };
    loop {
        let mut cands: Vec<Cfg> = Vec::new();
        let mut push = |f: &dyn Fn(&mut Cfg)| {
            let mut x = cur.clone();
            f(&mut x);
            cands.push(x);
        };
        for k in 0..cur.preds.len() {
            push(&|x| {
                x.preds.remove(k);
            });
            push(&|x| x.preds[k].slice = false);
            push(&|x| x.preds[k].proj = Proj::Leaves(vec![0]));
            push(&|x| x.preds[k].d = Decide { salt: x.preds[k].d.salt, t: 1, n: 0, den: 2 });
        }
        if cur.proj != Proj::All {
            push(&|x| x.proj = Proj::All);
        }
        for l in 0..fc.nleaves {
            if cur.proj != Proj::Leaves(vec![l]) {
                push(&|x| x.proj = Proj::Leaves(vec![l]));
            }
        }
        if cur.row_groups.is_some() && cur.sel_bits.is_none() {
            push(&|x| x.row_groups = None);
        }
        let chosen: Vec<usize> = cur.row_groups.clone().unwrap_or_else(|| (0..fc.rg_rows.len()).collect());
        if chosen.len() > 1 {
            // a single row group, with the matching piece of the selection
            let mut at = 0usize;
            for g in &chosen {
                let (g, lo, hi) = (*g, at, at + fc.rg_rows[*g]);
                push(&|x| {
                    x.row_groups = Some(vec![g]);
                    x.sel_bits = x.sel_bits.as_ref().map(|b| b[lo..hi].to_vec());
                });
                at = hi;
            }
        }
        if cur.sel_bits.is_some() {
            push(&|x| x.sel_bits = None);
            let n = total(&cur);
            push(&|x| x.sel_bits = Some(vec![true; n]));
            push(&|x| x.sel_bits = x.sel_bits.as_ref().map(|b| b.iter().enumerate().map(|(i, v)| *v || i < b.len() / 2).collect()));
            push(&|x| x.sel_bits = x.sel_bits.as_ref().map(|b| b.iter().enumerate().map(|(i, v)| *v || i >= b.len() / 2).collect()));
        }
        if cur.offset.is_some() {
            push(&|x| x.offset = None);
        }
        if cur.limit.is_some() {
            push(&|x| x.limit = None);
        }
        if cur.policy.is_some() {
            push(&|x| x.policy = None);
        }
        if cur.policy != Some(RowSelectionPolicy::Selectors) {
            push(&|x| x.policy = Some(RowSelectionPolicy::Selectors));
        }
        if cur.policy != Some(RowSelectionPolicy::Mask) {
            push(&|x| x.policy = Some(RowSelectionPolicy::Mask));
        }
        if cur.row_number || cur.row_group_index {
            push(&|x| {
                x.row_number = false;
                x.row_group_index = false;
            });
        }
        if cur.cache.is_some() {
            push(&|x| x.cache = None);
        }
        if cur.batch_size != 1024 {
            push(&|x| x.batch_size = 1024);
        }
        if cur.column_index != PageIndexPolicy::Skip {
            push(&|x| x.column_index = PageIndexPolicy::Skip);
        }
        if cur.offset_index != PageIndexPolicy::Skip {
            push(&|x| x.offset_index = PageIndexPolicy::Skip);
        }
        match &cur.kind {
            Kind::Async { pending_io, by_row_group, via_options } if *pending_io || *by_row_group || *via_options => {
                push(&|x| x.kind = Kind::Async { pending_io: false, by_row_group: false, via_options: false })
            }
            Kind::Push { whole, drive, rebuild } if *whole || *drive != Drive::Decode || *rebuild => push(&|x| x.kind = Kind::Push { whole: false, drive: Drive::Decode, rebuild: false }),
            _ => {}
        }
        let mut changed = false;
        rounds += 1;
        if rounds > 60 {
            break;
        }
        for x in cands {
            if !visited.insert(format!("{x:?}")) {
                continue;
            }
            if first(&x).as_deref() == Some(target.as_str()) {
                cur = x;
                changed = true;
                break;
            }
        }
        if !changed {
            break;
        }
    }
    eprintln!("SHRUNK witness for {target}\n{}\nrow groups {:?}\n", cfg_string(&cur, "(random recipe)"), fc.rg_rows);
}

fn judge<S: Sink>(ctx: &mut S, fc: &FileCtx, c: &Cfg, rng: &mut Rng) -> bool {
    let c = c.clone();
    let fam = c.kind.family();
    // --- the reference
    let md = fc.w.metadata.clone();
    let out_pm = proj_model(&fc.full_schema, &c.proj.leaf_mask(fc));
    let pred_pms: Vec<ProjModel> = c.preds.iter().map(|p| proj_model(&fc.full_schema, &p.proj.leaf_mask(fc))).collect();
    let mcfg = ModelCfg {
        rg_start: &fc.rg_start,
        rg_rows: &fc.rg_rows,
        row_groups: c.row_groups.as_deref(),
        sel: c.sel_bits.as_deref(),
        preds: pred_pms.iter().zip(&c.preds).map(|(pm, p)| (pm, &p.d)).collect(),
        offset: c.offset,
        limit: c.limit,
    };
    let exp: Expected = model::expected(&fc.table, &mcfg);
    // --- the real selection / filter
    let mut issues: Vec<Issue> = Vec::new();
    let mut recipe = String::from("-");
    let mut top = "none";
    let mut sel_repr = "-";
    let sel = c.sel_bits.as_ref().map(|bits| {
        let b = build_sel(rng, bits, 2, &mut issues);
        recipe = b.recipe.clone();
        top = b.top;
        sel_repr = selm::repr(&b.sel);
        b.sel
    });
    if !issues.is_empty() {
        ctx.eval();
        for i in &issues {
            ctx.violation(&i.sig, i.detail.clone());
        }
        return false;
    }
    let logs: Vec<Arc<Mutex<PredLog>>> = c.preds.iter().map(|_| Arc::new(Mutex::new(PredLog::default()))).collect();
    let filter = if c.preds.is_empty() {
        None
    } else {
        Some(RowFilter::new(c.preds.iter().zip(&pred_pms).zip(&logs).map(|((p, pm), l)| make_predicate(fc, &md, p, pm.cols.len(), l.clone(), rng)).collect()))
    };
    let mut setup = Setup { sel, filter, logs };
    let mut io = 0u64;
    let res = guard(|| run_reader(fc, &c, &mut setup, rng, &mut io));
    ctx.eval();
    ctx.count("reader_configs", 1);
    ctx.count(&format!("reader_configs:{}", c.kind.tag()), 1);
    ctx.count("io_requests", io);
    let (schema, batches) = match res {
        Ok(Ok(x)) => x,
        Ok(Err((stage, msg))) => {
            if msg.contains("model:") {
                ctx.inconclusive(&format!("{stage}: {msg}"));
            } else if is_rejection_msg(&msg) {
                ctx.reject();
                ctx.count(&format!("rejected@{stage}: {}", strip_digits(&msg).chars().take(80).collect::<String>()), 1);
            } else {
                let st = match stage {
                    "next" | "next_row_group" | "try_decode" | "try_next_reader" | "rebuild" | "into_builder" | "push" => "read",
                    other => other,
                };
                ctx.violation(&format!("C06|{fam}|err|{st}|{}", err_sig(&msg)), format!("{stage} failed on a valid configuration: {msg}\n{}", witness(fc, &c, &recipe)));
            }
            return false;
        }
        Err(p) => {
            report_panic(ctx, &format!("{fam}|read"), &p, witness(fc, &c, &recipe));
            return false;
        }
    };
    // --- oracle
    let mut ok = true;
    // expected schema and columns: projection + virtual columns
    let mut fields: Vec<Field> = out_pm.schema.fields().iter().map(|f| f.as_ref().clone()).collect();
    let mut cols = out_pm.columns(&fc.table, &exp.rows);
    if c.row_number {
        fields.push(Field::new("__row_number", DataType::Int64, false));
        cols.push(exp.rows.iter().map(|r| Val::Int(*r as i128)).collect());
    }
    if c.row_group_index {
        fields.push(Field::new("__row_group_index", DataType::Int64, false));
        cols.push(exp.rows.iter().map(|r| Val::Int(fc.rg_start.iter().rposition(|s| s <= r).unwrap_or(0) as i128)).collect());
    }
    let exp_schema = Schema::new(fields);
    if let Some(bad) = batches.iter().find(|b| b.num_rows() > c.batch_size) {
        ok = false;
        ctx.violation(
            &format!("C06|{fam}|batch-size-exceeded"),
            format!("a batch of {} rows with batch_size {} (batches {:?})\n{}", bad.num_rows(), c.batch_size, batches.iter().map(|b| b.num_rows()).collect::<Vec<_>>(), witness(fc, &c, &recipe)),
        );
    }
    let virt = if c.row_number || c.row_group_index { "|virtual" } else { "" };
    if let Some(s) = schema.as_ref().filter(|_| !out_pm.partial_map) {
        // the schema the reader / stream announces
        if let Err(d) = compare_schema(&exp_schema, s, false) {
            ok = false;
            // known causes get their own signature so that any other difference is still reported
            let cause = if !virt.is_empty() && compare_schema(&out_pm.schema, s, false).is_ok() {
                "virtual-columns-missing".to_string()
            } else if fc.full_schema.fields().iter().any(|f| list_view_over_several_leaves(f.data_type())) {
                "file-has-list-view-over-several-leaves".to_string()
            } else {
                format!("other|{}", d.what)
            };
            ctx.violation(
                &format!("C06|{fam}|reader-schema|{cause}"),
                format!("the reader's schema() differs from the projected file schema at {}: {} ({})\nexpected {}\nreader   {}\n{}", d.path, d.what, d.detail, pq::schema_string(&exp_schema), pq::schema_string(s), witness(fc, &c, &recipe)),
            );
        }
    }
    // the schema the batches carry
    let mut batches_ok = true;
    if let Some((b, d)) = batches.iter().find_map(|b| compare_schema(&exp_schema, &b.schema(), false).err().map(|d| (b, d))) {
        ok = false;
        batches_ok = false;
        ctx.violation(
            &format!("C06|{fam}|batch-schema|{}|{}{virt}", c.proj.class(), d.what),
            format!("a batch carries fields different from the projected file schema at {}: {} ({})\nbatch    {}\nexpected {}\n{}", d.path, d.what, d.detail, pq::schema_string(&b.schema()), pq::schema_string(&exp_schema), witness(fc, &c, &recipe)),
        );
    }
    let got_rows: usize = batches.iter().map(|b| b.num_rows()).sum();
    let what_on = format!(
        "{}{}{}{}{}",
        if c.row_groups.is_some() { "G" } else { "" },
        if c.sel_bits.is_some() { "S" } else { "" },
        if c.preds.is_empty() { "" } else { "P" },
        if c.offset.is_some() { "O" } else { "" },
        if c.limit.is_some() { "L" } else { "" }
    );
    if batches_ok && got_rows != exp.rows.len() {
        batches_ok = false;
        ok = false;
        ctx.violation(
            &format!("C06|{fam}|row-count|{what_on}"),
            format!("{} rows expected {:?}, {got_rows} rows returned (batches {:?})\n{}", exp.rows.len(), head(&exp.rows), batches.iter().map(|b| b.num_rows()).collect::<Vec<_>>(), witness(fc, &c, &recipe)),
        );
    }
    if batches_ok && !exp_schema.fields().is_empty() {
        match compare_rows(&exp_schema, &cols, &batches) {
            Ok(Ok(())) => {}
            Ok(Err(d)) => {
                ok = false;
                let virt = d.col >= out_pm.cols.len();
                ctx.violation(
                    &format!("C06|{fam}|rows|{what_on}|{}|{}", if virt { exp_schema.field(d.col).name().clone() } else { d.path.clone() }, d.kind),
                    format!("{}\nexpected file rows {:?}\n{}", d.detail, head(&exp.rows), witness(fc, &c, &recipe)),
                );
            }
            Err(p) => {
                ok = false;
                report_panic(ctx, &format!("{fam}|accessors-on-read-array"), &p, witness(fc, &c, &recipe));
            }
        }
    }
    // predicates only ever see rows that survive the earlier stages, in order
    let mut seen_total = 0u64;
    for (k, l) in setup.logs.iter().enumerate() {
        let l = l.lock().unwrap();
        seen_total += l.hashes.len() as u64;
        if let Some(b) = &l.bad_columns {
            ok = false;
            ctx.violation(&format!("C06|{fam}|predicate-batch-columns"), format!("predicate {k}: {b}\n{}", witness(fc, &c, &recipe)));
        } else if ok && !model::is_subsequence(&l.hashes, &exp.reach[k]) {
            ok = false;
            ctx.violation(
                &format!("C06|{fam}|predicate-saw-other-rows"),
                format!("predicate {k} was shown {} rows that are not an in-order subset of the {} rows surviving the earlier stages\n{}", l.hashes.len(), exp.reach[k].len(), witness(fc, &c, &recipe)),
            );
        } else if ok {
            ctx.count(if l.hashes.len() == exp.reach[k].len() { "predicates_shown_exactly_the_surviving_rows" } else { "predicates_shown_fewer_rows" }, 1);
        }
    }
    ctx.count("predicate_rows_seen", seen_total);
    ctx.count("rows_returned", got_rows as u64);
    ctx.count("rows_surviving_selection_and_predicates_in_the_model", exp.after_preds as u64);
    ctx.count("batches_returned", batches.len() as u64);
    if ok && fc.rows > 0 {
        let pol = match c.policy {
            None => "default",
            Some(RowSelectionPolicy::Selectors) => "selectors",
            Some(RowSelectionPolicy::Mask) => "mask",
            Some(RowSelectionPolicy::Auto { .. }) => "auto",
        };
        let pi = if fc.has_offset_index && c.offset_index != PageIndexPolicy::Skip { "oi" } else { "no-oi" };
        let rg = match &c.row_groups {
            None => "all",
            Some(v) if v.windows(2).any(|w| w[0] > w[1]) => "unordered",
            Some(v) if v.is_empty() => "empty",
            _ => "subset",
        };
        ctx.class(format!("{}|sel:{top}/{sel_repr}|p{}|{}|{pol}|{pi}|rg:{rg}", c.kind.tag(), c.preds.len(), if c.offset.is_some() || c.limit.is_some() { "OL" } else { "-" }));
        let out_class = if exp.rows.is_empty() { "empty" } else if exp.rows.len() == fc.rows { "everything" } else { "some" };
        for (i, _) in &out_pm.cols {
            ctx.class(format!("col|{}|{fam}|{}|{what_on}|{out_class}", shape_class(fc.full_schema.field(*i).data_type()), c.proj.class()));
        }
        if c.row_number || c.row_group_index {
            ctx.class(format!("virtual|{fam}|{what_on}|{out_class}|{rg}"));
        }
        if !exp.rows.is_empty() && exp.rows.len() < fc.rows {
            ctx.count("configs_returning_a_strict_nonempty_subset", 1);
        }
    }
    ctx.sample(&|| witness(fc, &c, &recipe));
    ok
}

/// error message without the wrapper prefixes the different readers add, digits stripped
fn err_sig(msg: &str) -> String {
    let mut m = msg.trim();
    loop {
        let before = m;
        for p in ["External: ", "Arrow: ", "Parquet argument error: ", "Parquet error: ", "External error: "] {
            if let Some(r) = m.strip_prefix(p) {
                m = r;
            }
        }
        if m == before {
            break;
        }
    }
    strip_digits(m).chars().take(110).collect()
}

fn count_leaves(dt: &DataType) -> usize {
    let mut v = Vec::new();
    pq::arrow_leaves(dt, &mut v);
    v.len()
}

/// a ListView / LargeListView (at any depth) with more than one leaf column below it
fn list_view_over_several_leaves(dt: &DataType) -> bool {
    use DataType::*;
    match dt {
        ListView(f) | LargeListView(f) => count_leaves(f.data_type()) > 1 || list_view_over_several_leaves(f.data_type()),
        List(f) | LargeList(f) | FixedSizeList(f, _) | Map(f, _) => list_view_over_several_leaves(f.data_type()),
        Struct(fs) => fs.iter().any(|f| list_view_over_several_leaves(f.data_type())),
        _ => false,
    }
}

fn head(v: &[usize]) -> String {
    if v.len() > 60 { format!("{:?}..({})", &v[..60], v.len()) } else { format!("{v:?}") }
}

fn report_panic<S: Sink>(ctx: &mut S, op: &str, p: &PanicInfo, detail: String) {
    if p.msg.starts_with("model:") || p.loc.contains("/harness/v") {
        ctx.inconclusive(&format!("harness panic in {op}: {} @ {}", p.msg, p.loc));
    } else if p.is_rejection() {
        ctx.reject();
    } else {
        ctx.panic_violation(op, p, detail);
    }
}

/// `scan_ranges` on the real offset index of a random column chunk.
fn real_scan_ranges(ctx: &mut Ctx, fc: &FileCtx, rng: &mut Rng) {
    if !fc.has_offset_index || fc.rg_rows.is_empty() {
        return;
    }
    let opts = ArrowReaderOptions::new().with_page_index_policy(PageIndexPolicy::Optional);
    let Ok(m) = ArrowReaderMetadata::load(&fc.w.bytes, opts) else { return };
    let Some(pi) = m.metadata().page_index() else { return };
    let g = rng.below(fc.rg_rows.len());
    let c = rng.below(fc.nleaves);
    let Some(oi) = pi.offset_index(g, c) else { return };
    let pages = oi.page_locations().clone();
    let marks: Vec<usize> = pages.iter().map(|p| p.first_row_index as usize).collect();
    let bits = gen_bits(rng, fc.rg_rows[g], &marks);
    let mut issues = Vec::new();
    let r = guard(|| {
        let b = build_sel(rng, &bits, 1, &mut issues);
        (selm::repr(&b.sel), selm::check_scan_ranges(&b.sel, &bits, &pages))
    });
    ctx.eval();
    match r {
        Ok((rp, Ok(exact))) => {
            ctx.count(if exact { "scan_ranges_exact" } else { "scan_ranges_with_extra_pages" }, 1);
            if !bits.is_empty() {
                ctx.class(format!("real-ranges|{rp}|pages{}", pages.len().min(4)));
            }
        }
        Ok((rp, Err((what, d)))) => ctx.violation(&format!("C06|scan_ranges|{rp}|{what}"), format!("real offset index of row group {g} leaf {c}\n{d}\n{}", fc.w.desc)),
        Err(p) => report_panic(ctx, "scan_ranges", &p, format!("bits {}\npages {pages:?}", bits_str(&bits))),
    }
    report_issues(ctx, &issues);
}

// ------------------------------------------------------------------------------------------------
// driver
// ------------------------------------------------------------------------------------------------

fn file_case(ctx: &mut Ctx, rng: &mut Rng, section: &str, configs: usize) {
    let Some(fc) = prepare_file(ctx, rng) else { return };
    let configs = if fc.rows > 600 { configs / 2 } else { configs };
    for _ in 0..configs {
        if ctx.out_of_time() {
            break;
        }
        let mut crng = rng.fork();
        let t0 = std::time::Instant::now();
        one_config(ctx, &fc, &mut crng, section);
        if t0.elapsed().as_secs_f64() > 5.0 {
            ctx.count("configs_slower_than_5s", 1);
        }
    }
    if section == "sync" {
        let mut crng = rng.fork();
        real_scan_ranges(ctx, &fc, &mut crng);
    }
}

/// Hand-written minimal reproducers of the findings (`--section repro`, prints to stderr; not part
/// of a normal run).
fn repro() {
    use arrow_array::{ArrayRef, Int32Array};
    use parquet::arrow::ArrowWriter;
    use parquet::arrow::arrow_reader::RowSelector;
    use parquet::basic::Encoding;
    use parquet::file::properties::WriterProperties;
    let write = |vals: Vec<i32>, props: WriterProperties| -> Bytes {
        let a: ArrayRef = Arc::new(Int32Array::from(vals));
        let b = RecordBatch::try_from_iter(vec![("a", a)]).unwrap();
        let mut buf = Vec::new();
        let mut w = ArrowWriter::try_new(&mut buf, b.schema(), Some(props)).unwrap();
        w.write(&b).unwrap();
        w.close().unwrap();
        Bytes::from(buf)
    };
    let push_read = |bytes: &Bytes, opts: ArrowReaderOptions, sel: Option<RowSelection>| -> Result<usize, String> {
        let m = ArrowReaderMetadata::load(bytes, opts).map_err(|e| e.to_string())?;
        let mut b = ParquetPushDecoderBuilder::new_with_metadata(m);
        if let Some(s) = sel {
            b = b.with_row_selection(s);
        }
        let mut d = b.build().map_err(|e| e.to_string())?;
        let mut rows = 0;
        loop {
            match d.try_decode().map_err(|e| e.to_string())? {
                DecodeResult::NeedsData(r) => {
                    let data = r.iter().map(|x| bytes.slice(x.start as usize..x.end as usize)).collect();
                    d.push_ranges(r, data).map_err(|e| e.to_string())?;
                }
                DecodeResult::Data(b) => rows += b.num_rows(),
                DecodeResult::Finished => return Ok(rows),
            }
        }
    };
    let sync_read = |bytes: &Bytes, sel: Option<RowSelection>| -> Result<usize, String> {
        let mut b = ParquetRecordBatchReaderBuilder::try_new(bytes.clone()).map_err(|e| e.to_string())?;
        if let Some(s) = sel {
            b = b.with_row_selection(s);
        }
        let mut rows = 0;
        for x in b.build().map_err(|e| e.to_string())? {
            rows += x.map_err(|e| e.to_string())?.num_rows();
        }
        Ok(rows)
    };
    // R1: file without offset index but with column index, page index requested, row selection
    let f = write((0..100).collect(), WriterProperties::builder().set_offset_index_disabled(true).build());
    let sel = || RowSelection::from(vec![RowSelector::skip(10), RowSelector::select(5), RowSelector::skip(85)]);
    let with_pi = || ArrowReaderOptions::new().with_page_index_policy(PageIndexPolicy::Optional);
    eprintln!("R1 push decoder, offset index disabled in the file, page index Optional, selection: {:?}", push_read(&f, with_pi(), Some(sel())));
    eprintln!("R1 same without page index: {:?}", push_read(&f, ArrowReaderOptions::new(), Some(sel())));
    eprintln!("R1 same without selection : {:?}", push_read(&f, with_pi(), None));
    // R2: DELTA_BINARY_PACKED Int32, equal wrapping deltas, skip
    let p = WriterProperties::builder().set_dictionary_enabled(false).set_encoding(Encoding::DELTA_BINARY_PACKED).build();
    let f = write(vec![i32::MIN, -1, i32::MAX - 1, -3, i32::MAX - 3], p); // arithmetic progression mod 2^32, step i32::MAX
    eprintln!("R2 full read: {:?}", sync_read(&f, None));
    eprintln!("R2 skip 3, select 2: {:?}", sync_read(&f, Some(RowSelection::from(vec![RowSelector::skip(3), RowSelector::select(2)]))));
    // R3: stream schema() without the virtual columns its batches carry
    let f = write(vec![1, 2, 3], WriterProperties::builder().build());
    let rn = Arc::new(Field::new("rn", DataType::Int64, false).with_extension_type(RowNumber));
    let opts = ArrowReaderOptions::new().with_virtual_columns(vec![rn]).unwrap();
    let m = ArrowReaderMetadata::load(&f, opts).unwrap();
    let mr = MemReader { data: f.clone(), pending_io: false, requests: Default::default() };
    let mask = ProjectionMask::leaves(m.metadata().file_metadata().schema_descr(), [0]);
    let mut st = ParquetRecordBatchStreamBuilder::new_with_metadata(mr, m).with_projection(mask).build().unwrap();
    let announced = st.schema().clone();
    let b = futures::executor::block_on(st.next()).unwrap().unwrap();
    eprintln!("R3 stream.schema() = [{}]   batch schema = [{}]", pq::schema_string(&announced), pq::schema_string(&b.schema()));
    // R4: Fields::filter_leaves does not descend into list views
    let st = DataType::Struct(vec![Field::new("x", DataType::Int32, true), Field::new("y", DataType::Int32, true)].into());
    for (name, t) in [("List", DataType::List(Arc::new(Field::new("item", st.clone(), true)))), ("ListView", DataType::ListView(Arc::new(Field::new("item", st.clone(), true))))] {
        let s = Schema::new(vec![Field::new("l", t, true), Field::new("c", DataType::Int32, true)]);
        let kept = s.fields().filter_leaves(|i, _| i == 2);
        eprintln!("R4 filter_leaves(idx == 2) over [l: {name}<Struct<x,y>>, c: Int32] keeps [{}]", pq::schema_string(&Schema::new(kept)));
    }
}

pub fn run(ctx: &mut Ctx) {
    if ctx.only_section.as_deref() == Some("repro") {
        repro();
        return;
    }
    // (section, cases, reader configurations per file)
    let plan: Vec<(&str, u64, usize)> = vec![
        ("sync", ctx.tier.pick(6, 4_000, 40_000), ctx.tier.pick(6, 28, 30)),
        ("async", ctx.tier.pick(3, 1_400, 14_000), ctx.tier.pick(6, 28, 30)),
        ("push", ctx.tier.pick(3, 2_000, 20_000), ctx.tier.pick(6, 28, 30)),
        ("algebra", ctx.tier.pick(40, 160_000, 1_600_000), 0),
        ("ranges", ctx.tier.pick(20, 50_000, 500_000), 0),
    ];
    let lists: Vec<Vec<u64>> = plan.iter().map(|(s, n, _)| ctx.cases(s, *n)).collect();
    let mut idx = vec![0usize; plan.len()];
    let wmin = plan.iter().map(|p| p.1.max(1)).min().unwrap();
    let per_round: Vec<usize> = plan.iter().map(|p| ((p.1 / wmin) as usize).max(1)).collect();
    'outer: loop {
        let mut progressed = false;
        for (k, (section, _, configs)) in plan.iter().enumerate() {
            for _ in 0..per_round[k] {
                if idx[k] >= lists[k].len() {
                    break;
                }
                if ctx.out_of_time() {
                    break 'outer;
                }
                let i = lists[k][idx[k]];
                idx[k] += 1;
                progressed = true;
                let mut rng = ctx.begin(section, i);
                match *section {
                    "algebra" => selm::algebra_case(ctx, &mut rng),
                    "ranges" => selm::ranges_case(ctx, &mut rng),
                    s => file_case(ctx, &mut rng, s, *configs),
                }
            }
        }
        if !progressed {
            break;
        }
    }
}
