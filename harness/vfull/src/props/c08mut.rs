//! C08 mutators: generic byte-level corruption and structure-aware field rewrites.
//!
//! A *base* input (a valid file) is described by [`Hints`]: precise positions of
//! length / offset / count / type-tag fields found by walking the real structure
//! (flatbuffers tables and vectors of an IPC message or footer, thrift compact
//! protocol structs of a Parquet footer / page header / page index, Avro OCF
//! header and block framing, variant headers) plus coarse regions (page bodies,
//! IPC message bodies, text). A mutation is one of
//!
//! * `field:*`  – rewrite ONE located field with a boundary value (0, 1, -1, v±1,
//!   2^31-1, 2^31, 2^63-1, file size ±1, 2^30.., sign flip, ...), thrift field
//!   header type/id nibble rewrites, thrift list header rewrites, flatbuffer
//!   vtable entry rewrites, sync marker damage;
//! * `byte` / `bit` – one byte set to {0x00, 0x7F, 0x80, 0xFF, ±1, random} or one bit flipped;
//! * `int32` / `int64` / `varint` – a field found by *scanning* for a plausible
//!   little-endian integer / LEB128 varint, rewritten with a boundary value;
//! * `trunc` – truncation at any length (biased to the tail and to structure edges);
//! * `del` / `dup` / `zero` / `rand` / `swap` / `insert` – block operations;
//! * `splice` – prefix of A + suffix of B, or a window of B pasted into A (B = a second valid file);
//! * `text:*` – token level damage of CSV / JSON text.
//!
//! Everything is a pure function of the `Rng`.

use vcore::rng::Rng;

#[derive(Clone, Copy, Debug, PartialEq, Eq)]
pub enum FK {
    U8,
    U16,
    U32,
    U64,
    /// unsigned LEB128
    VarU,
    /// zigzag LEB128
    VarZ,
    /// thrift compact field header byte (delta << 4 | type)
    ThriftHdr,
    /// thrift compact list header byte (size << 4 | elem type)
    ThriftList,
    /// 16 raw bytes (Avro sync marker)
    Sync16,
}

#[derive(Clone, Debug)]
pub struct FieldPos {
    pub off: usize,
    pub kind: FK,
    pub label: &'static str,
}

#[derive(Clone, Debug)]
pub struct Region {
    pub start: usize,
    pub end: usize,
    pub label: &'static str,
}

#[derive(Clone, Debug, Default)]
pub struct Hints {
    pub fields: Vec<FieldPos>,
    pub regions: Vec<Region>,
    pub text: bool,
}

impl Hints {
    pub fn field(&mut self, off: usize, kind: FK, label: &'static str) {
        if self.fields.len() < 50_000 {
            self.fields.push(FieldPos { off, kind, label });
        }
    }
    pub fn region(&mut self, start: usize, end: usize, label: &'static str) {
        if end > start && self.regions.len() < 10_000 {
            self.regions.push(Region { start, end, label });
        }
    }
    /// shift every position (the structure was parsed on a sub-slice)
    pub fn shifted(mut self, by: usize) -> Hints {
        for f in &mut self.fields {
            f.off += by;
        }
        for r in &mut self.regions {
            r.start += by;
            r.end += by;
        }
        self
    }
    pub fn merge(&mut self, o: Hints) {
        self.fields.extend(o.fields);
        self.regions.extend(o.regions);
    }
}

pub struct Mutation {
    /// coarse mutator class (part of the evidence classes, never of signatures)
    pub name: String,
    /// exact, replayable description
    pub desc: String,
    pub bytes: Vec<u8>,
}

// ------------------------------------------------------------------ varints

pub fn read_uleb(b: &[u8], mut p: usize) -> Option<(u64, usize)> {
    let mut v = 0u64;
    let mut shift = 0u32;
    let start = p;
    loop {
        let c = *b.get(p)?;
        p += 1;
        if shift < 64 {
            v |= ((c & 0x7f) as u64) << shift;
        }
        shift += 7;
        if c & 0x80 == 0 {
            return Some((v, p - start));
        }
        if p - start >= 10 {
            return None;
        }
    }
}

pub fn write_uleb(mut v: u64, out: &mut Vec<u8>) {
    loop {
        let c = (v & 0x7f) as u8;
        v >>= 7;
        if v == 0 {
            out.push(c);
            return;
        }
        out.push(c | 0x80);
    }
}

pub fn zigzag(v: i64) -> u64 {
    ((v << 1) ^ (v >> 63)) as u64
}
pub fn unzigzag(v: u64) -> i64 {
    ((v >> 1) as i64) ^ -((v & 1) as i64)
}

// ------------------------------------------------------------------ boundary values

/// A boundary value for a `bits`-wide field whose current value is `old`, in a file of `n` bytes.
pub fn special(rng: &mut Rng, old: u64, bits: u32, n: usize) -> u64 {
    let n = n as u64;
    let mask = if bits >= 64 { u64::MAX } else { (1u64 << bits) - 1 };
    let sign = 1u64 << (bits - 1);
    let v = match rng.below(30) {
        0 => 0,
        1 => 1,
        2 => u64::MAX,
        3 => old.wrapping_add(1),
        4 => old.wrapping_sub(1),
        5 => (1u64 << 31) - 1,
        6 => 1u64 << 31,
        7 => (1u64 << 32) - 1,
        8 => i64::MAX as u64,
        9 => 1u64 << 63,
        10 => n,
        11 => n + 1,
        12 => n.wrapping_sub(1),
        13 => old.wrapping_mul(2),
        14 => old / 2,
        15 => old ^ sign,
        16 => old.wrapping_add(n),
        17 => 1u64 << 30,
        18 => (1u64 << 33) + 7,
        19 => sign - 1,
        20 => sign,
        21 => old.wrapping_add(8),
        22 => old.wrapping_sub(8),
        23 => old.wrapping_neg(),
        24 => rng.below(300) as u64,
        25 => old.wrapping_add(rng.below(64) as u64 + 2),
        26 => (1u64 << 40) + 1,
        27 => old << 8,
        28 => n.wrapping_sub(old),
        _ => rng.u64(),
    };
    let v = v & mask;
    if v == old & mask { (old ^ 1) & mask } else { v }
}

fn rd_le(b: &[u8], off: usize, w: usize) -> Option<u64> {
    let s = b.get(off..off.checked_add(w)?)?;
    let mut v = 0u64;
    for (i, c) in s.iter().enumerate() {
        v |= (*c as u64) << (8 * i);
    }
    Some(v)
}

fn wr_le(b: &mut [u8], off: usize, w: usize, v: u64) {
    for i in 0..w {
        b[off + i] = (v >> (8 * i)) as u8;
    }
}

// ------------------------------------------------------------------ field rewrites

/// Rewrite one located field. Returns `None` when the field does not fit the buffer.
pub fn mutate_field(rng: &mut Rng, base: &[u8], f: &FieldPos) -> Option<Mutation> {
    let n = base.len();
    let mut out = base.to_vec();
    let name = format!("field:{}", f.label);
    match f.kind {
        FK::U8 | FK::U16 | FK::U32 | FK::U64 => {
            let w = match f.kind {
                FK::U8 => 1,
                FK::U16 => 2,
                FK::U32 => 4,
                _ => 8,
            };
            let old = rd_le(base, f.off, w)?;
            let new = special(rng, old, 8 * w as u32, n);
            wr_le(&mut out, f.off, w, new);
            Some(Mutation { name, desc: format!("{} u{} @{}: {old:#x} -> {new:#x}", f.label, 8 * w, f.off), bytes: out })
        }
        FK::VarU | FK::VarZ => {
            let (raw, len) = read_uleb(base, f.off)?;
            let zz = f.kind == FK::VarZ;
            let old = if zz { unzigzag(raw) as u64 } else { raw };
            let bits = *rng.pick(&[32u32, 32, 64]);
            let mut new = special(rng, old, bits, n);
            if bits == 32 && zz {
                new = new as u32 as i32 as i64 as u64;
            }
            let mut enc = Vec::new();
            write_uleb(if zz { zigzag(new as i64) } else { new }, &mut enc);
            out.splice(f.off..f.off + len, enc);
            Some(Mutation {
                name,
                desc: format!("{} {} @{}: {} -> {}", f.label, if zz { "zigzag" } else { "uleb" }, f.off, old as i64, new as i64),
                bytes: out,
            })
        }
        FK::ThriftHdr => {
            let old = *base.get(f.off)?;
            let new = match rng.below(6) {
                // another wire type, same field id delta
                0 | 1 | 2 => (old & 0xf0) | (*rng.pick(&[1u8, 2, 3, 4, 5, 6, 7, 8, 9, 10, 11, 12, 13, 15])),
                // another field id (delta), same type
                3 | 4 => (old & 0x0f) | ((rng.below(16) as u8) << 4),
                // stop
                _ => 0,
            };
            let new = if new == old { old ^ 0x10 } else { new };
            out[f.off] = new;
            Some(Mutation { name, desc: format!("{} thrift field header @{}: {old:#04x} -> {new:#04x}", f.label, f.off), bytes: out })
        }
        FK::ThriftList => {
            let old = *base.get(f.off)?;
            let new = match rng.below(4) {
                0 => (old & 0x0f) | 0xe0,
                1 => (old & 0xf0) | (*rng.pick(&[1u8, 2, 3, 4, 5, 6, 7, 8, 9, 12])),
                2 => (old & 0x0f) | ((rng.below(15) as u8) << 4),
                _ => {
                    // long form with a huge varint size
                    out[f.off] = (old & 0x0f) | 0xf0;
                    let mut enc = Vec::new();
                    write_uleb(special(rng, (old >> 4) as u64, 32, n), &mut enc);
                    let at = f.off + 1;
                    // replace an existing long-form size, otherwise insert
                    let old_len = if old >> 4 == 15 { read_uleb(base, at).map(|x| x.1).unwrap_or(0) } else { 0 };
                    out.splice(at..at + old_len, enc);
                    return Some(Mutation { name, desc: format!("{} thrift list header @{}: long form size", f.label, f.off), bytes: out });
                }
            };
            let new = if new == old { old ^ 0x10 } else { new };
            out[f.off] = new;
            Some(Mutation { name, desc: format!("{} thrift list header @{}: {old:#04x} -> {new:#04x}", f.label, f.off), bytes: out })
        }
        FK::Sync16 => {
            if f.off + 16 > n {
                return None;
            }
            let k = rng.below(16);
            out[f.off + k] ^= 1 << rng.below(8);
            Some(Mutation { name, desc: format!("{} sync marker @{} byte {k} flipped", f.label, f.off), bytes: out })
        }
    }
}

// ------------------------------------------------------------------ generic mutators

/// a position, biased to the hinted regions when there are any
fn pick_pos(rng: &mut Rng, n: usize, h: &Hints) -> usize {
    if n == 0 {
        return 0;
    }
    if !h.regions.is_empty() && rng.chance(2, 3) {
        let r = rng.pick(&h.regions);
        let (s, e) = (r.start.min(n - 1), r.end.min(n));
        if e > s {
            // the first bytes of a region are its header (levels length, encoding bit width, frame magic)
            return if rng.chance(1, 3) { s + rng.below((e - s).min(16)) } else { s + rng.below(e - s) };
        }
    }
    match rng.below(6) {
        0 => rng.below(n.min(64)),
        1 => n - 1 - rng.below(n.min(64)),
        _ => rng.below(n),
    }
}

fn block_len(rng: &mut Rng, avail: usize) -> usize {
    if avail == 0 {
        return 0;
    }
    let l = match rng.below(4) {
        0 => 1 + rng.below(8),
        1 => 1 + rng.below(64),
        2 => 1 + rng.below(512),
        _ => 1 + rng.below(avail),
    };
    l.min(avail)
}

pub const GENERIC: [&str; 12] = ["byte", "bit", "int32", "int64", "varint", "trunc", "del", "dup", "zero", "rand", "swap", "insert"];

/// One generic mutation of class `which` (see [`GENERIC`], plus `"splice"` when `other` is given).
pub fn mutate_generic(rng: &mut Rng, base: &[u8], other: Option<&[u8]>, h: &Hints, which: &str) -> Mutation {
    let n = base.len();
    let mut out = base.to_vec();
    let name = which.to_string();
    if n == 0 {
        let l0 = 1 + rng.below(16);
        let ins = rng.bytes(l0);
        return Mutation { name: "insert".into(), desc: format!("insert {} random bytes into the empty input", ins.len()), bytes: ins };
    }
    match which {
        "byte" => {
            let p = pick_pos(rng, n, h);
            let old = out[p];
            let new = match rng.below(7) {
                0 => 0x00,
                1 => 0x7f,
                2 => 0x80,
                3 => 0xff,
                4 => old.wrapping_add(1),
                5 => old.wrapping_sub(1),
                _ => rng.u8(),
            };
            let new = if new == old { old ^ 0x55 } else { new };
            out[p] = new;
            Mutation { name, desc: format!("byte @{p}: {old:#04x} -> {new:#04x}"), bytes: out }
        }
        "bit" => {
            let p = pick_pos(rng, n, h);
            let k = rng.below(8);
            out[p] ^= 1 << k;
            Mutation { name, desc: format!("bit {k} @{p} flipped"), bytes: out }
        }
        "int32" | "int64" => {
            let w = if which == "int32" { 4 } else { 8 };
            if n < w {
                return mutate_generic(rng, base, other, h, "byte");
            }
            // scan: prefer positions holding a plausible length / offset / count
            let mut best = pick_pos(rng, n - w + 1, h);
            for _ in 0..24 {
                let p = pick_pos(rng, n - w + 1, h);
                let p = if rng.chance(3, 4) { p & !3 } else { p };
                let v = rd_le(base, p, w).unwrap_or(0);
                if v != 0 && v <= 8 * n as u64 {
                    best = p;
                    break;
                }
            }
            let old = rd_le(base, best, w).unwrap_or(0);
            let new = special(rng, old, 8 * w as u32, n);
            wr_le(&mut out, best, w, new);
            Mutation { name, desc: format!("le{} @{best}: {old:#x} -> {new:#x}", 8 * w), bytes: out }
        }
        "varint" => {
            let p = pick_pos(rng, n, h);
            match read_uleb(base, p) {
                Some((raw, len)) => {
                    let zz = rng.bool();
                    let old = if zz { unzigzag(raw) as u64 } else { raw };
                    let bits = *rng.pick(&[32u32, 64]);
                    let new = special(rng, old, bits, n);
                    let mut enc = Vec::new();
                    write_uleb(if zz { zigzag(new as i64) } else { new }, &mut enc);
                    out.splice(p..p + len, enc);
                    Mutation { name, desc: format!("varint({}) @{p}: {} -> {}", if zz { "zigzag" } else { "uleb" }, old as i64, new as i64), bytes: out }
                }
                None => mutate_generic(rng, base, other, h, "byte"),
            }
        }
        "trunc" => {
            let keep = match rng.below(6) {
                0 => n - 1,
                1 => n - 1 - rng.below(n.min(16)),
                2 => rng.below(n.min(32)),
                3 if !h.regions.is_empty() => {
                    let r = rng.pick(&h.regions);
                    (if rng.bool() { r.start } else { r.end }).min(n - 1)
                }
                4 if !h.fields.is_empty() => rng.pick(&h.fields).off.min(n - 1),
                _ => rng.below(n),
            };
            out.truncate(keep);
            Mutation { name, desc: format!("truncate {n} -> {keep}"), bytes: out }
        }
        "del" => {
            let p = pick_pos(rng, n, h);
            let l = block_len(rng, n - p);
            out.drain(p..p + l);
            Mutation { name, desc: format!("delete [{p}, {})", p + l), bytes: out }
        }
        "dup" => {
            let p = pick_pos(rng, n, h);
            let l = block_len(rng, (n - p).min(4096));
            let blk = base[p..p + l].to_vec();
            let at = if rng.bool() { p + l } else { pick_pos(rng, n, h) };
            out.splice(at..at, blk);
            Mutation { name, desc: format!("duplicate [{p}, {}) at {at}", p + l), bytes: out }
        }
        "zero" | "rand" => {
            let p = pick_pos(rng, n, h);
            let l = block_len(rng, (n - p).min(256));
            let fill = if which == "zero" { *rng.pick(&[0u8, 0, 0xff]) } else { 0 };
            let mut changed = false;
            for b in &mut out[p..p + l] {
                let new = if which == "zero" { fill } else { rng.u8() };
                changed |= *b != new;
                *b = new;
            }
            if !changed {
                out[p] ^= 0xff;
            }
            Mutation { name, desc: format!("{which} fill [{p}, {})", p + l), bytes: out }
        }
        "swap" => {
            if n < 4 {
                return mutate_generic(rng, base, other, h, "byte");
            }
            let l = block_len(rng, n / 2);
            let a = rng.below(n - 2 * l + 1);
            let b = a + l + rng.below(n - a - 2 * l + 1);
            for i in 0..l {
                out.swap(a + i, b + i);
            }
            if out == base {
                out[a] ^= 0xff;
            }
            Mutation { name, desc: format!("swap [{a}, {}) with [{b}, {})", a + l, b + l), bytes: out }
        }
        "insert" => {
            let p = pick_pos(rng, n + 1, h).min(n);
            let lmax = *rng.pick(&[4usize, 16, 256]);
            let l = 1 + rng.below(lmax);
            let ins = match rng.below(3) {
                0 => vec![0u8; l],
                1 => vec![0xffu8; l],
                _ => rng.bytes(l),
            };
            out.splice(p..p, ins);
            Mutation { name, desc: format!("insert {l} bytes at {p}"), bytes: out }
        }
        "splice" => {
            let b = match other {
                Some(b) if !b.is_empty() => b,
                _ => return mutate_generic(rng, base, None, h, "dup"),
            };
            let m = b.len();
            match rng.below(4) {
                // head of A + tail of B, cut at the same relative / absolute / random position
                0 | 1 => {
                    let i = pick_pos(rng, n, h);
                    let j = match rng.below(3) {
                        0 => i.min(m),
                        1 => m - (n - i).min(m),
                        _ => rng.below(m + 1),
                    };
                    out.truncate(i);
                    out.extend_from_slice(&b[j..]);
                    if out == base {
                        out.push(0);
                    }
                    Mutation { name, desc: format!("splice A[..{i}] + B[{j}..] (|A|={n}, |B|={m})"), bytes: out }
                }
                // head of B + tail of A
                2 => {
                    let i = pick_pos(rng, n, h);
                    let j = i.min(m);
                    let mut v = b[..j].to_vec();
                    v.extend_from_slice(&base[i..]);
                    if v == base {
                        v.push(0);
                    }
                    Mutation { name, desc: format!("splice B[..{j}] + A[{i}..] (|A|={n}, |B|={m})"), bytes: v }
                }
                // window of B pasted over A
                _ => {
                    let l = block_len(rng, n.min(m));
                    let i = rng.below(n - l + 1);
                    let j = if rng.bool() { i.min(m - l) } else { rng.below(m - l + 1) };
                    out[i..i + l].copy_from_slice(&b[j..j + l]);
                    if out == base {
                        out[i] ^= 0xff;
                    }
                    Mutation { name, desc: format!("paste B[{j}, {}) over A[{i}, {})", j + l, i + l), bytes: out }
                }
            }
        }
        _ => mutate_generic(rng, base, other, h, "byte"),
    }
}

/// Draw one mutation: a located field with probability `field_w`/10 (when there are any), else generic.
pub fn mutate(rng: &mut Rng, base: &[u8], other: Option<&[u8]>, h: &Hints, field_w: u32) -> Mutation {
    if !h.fields.is_empty() && rng.chance(field_w, 10) {
        // pick the label first so that rare structures are not drowned by frequent ones
        let f = if rng.bool() {
            let l = rng.pick(&h.fields).label;
            let same: Vec<&FieldPos> = h.fields.iter().filter(|f| f.label == l).collect();
            (*rng.pick(&same)).clone()
        } else {
            let mut labels: Vec<&'static str> = h.fields.iter().map(|f| f.label).collect();
            labels.sort();
            labels.dedup();
            let l = *rng.pick(&labels);
            let same: Vec<&FieldPos> = h.fields.iter().filter(|f| f.label == l).collect();
            (*rng.pick(&same)).clone()
        };
        if let Some(m) = mutate_field(rng, base, &f) {
            if m.bytes != base {
                return m;
            }
        }
    }
    if h.text && rng.chance(7, 10) {
        return mutate_text(rng, base);
    }
    let which = if other.is_some() && rng.chance(1, 8) { "splice" } else { *rng.pick(&GENERIC) };
    mutate_generic(rng, base, other, h, which)
}

// ------------------------------------------------------------------ text

const TOKENS: [&str; 46] = [
    "\"", "\"\"", ",", "\n", "\r", "\r\n", "\\", "\\\"", "{", "}", "[", "]", ":", "null", "true", "false", "NaN", "inf", "-", "+", ".", "e",
    "E999", "1e999", "-0", "0x10", "99999999999999999999999999999999999999999", "-9223372036854775809", "18446744073709551616", "1.7976931348623157e309",
    "\\u0000", "\\ud800", "\\uDFFF\\uD800", "\u{feff}", "\t", " ", "\0", "\u{7f}", "9999-99-99", "0000-00-00T25:61:61", "+99:99", "Z", "{}", "[]", "\"\\", "'",
];

/// Token level damage of CSV / JSON text.
pub fn mutate_text(rng: &mut Rng, base: &[u8]) -> Mutation {
    let n = base.len();
    let mut out = base.to_vec();
    let lines: Vec<(usize, usize)> = {
        let mut v = vec![];
        let mut s = 0;
        for (i, c) in base.iter().enumerate() {
            if *c == b'\n' {
                v.push((s, i + 1));
                s = i + 1;
            }
        }
        if s < n {
            v.push((s, n));
        }
        v
    };
    let p = if n == 0 { 0 } else { rng.below(n + 1) };
    match rng.below(14) {
        0 | 1 | 2 => {
            let t = *rng.pick(&TOKENS);
            out.splice(p..p, t.bytes());
            Mutation { name: "text:insert".into(), desc: format!("insert {t:?} at {p}"), bytes: out }
        }
        3 | 4 if n > 0 => {
            let p = p.min(n - 1);
            let t = *rng.pick(&TOKENS);
            out.splice(p..p + 1, t.bytes());
            Mutation { name: "text:replace".into(), desc: format!("replace byte @{p} ({:?}) by {t:?}", base[p] as char), bytes: out }
        }
        5 if n > 0 => {
            let p = p.min(n - 1);
            let l = 1 + rng.below((n - p).min(6));
            out.drain(p..p + l);
            Mutation { name: "text:delete".into(), desc: format!("delete [{p}, {})", p + l), bytes: out }
        }
        6 if !lines.is_empty() => {
            let (s, e) = *rng.pick(&lines);
            let l = base[s..e].to_vec();
            let k = 1 + rng.below(3);
            for _ in 0..k {
                out.splice(e..e, l.iter().copied());
            }
            Mutation { name: "text:dup-line".into(), desc: format!("duplicate line [{s}, {e}) x{k}"), bytes: out }
        }
        7 if !lines.is_empty() => {
            let (s, e) = *rng.pick(&lines);
            out.drain(s..e);
            Mutation { name: "text:del-line".into(), desc: format!("delete line [{s}, {e})"), bytes: out }
        }
        8 if n > 0 => {
            // replace a run of digits by an extreme number
            let start = (0..n).map(|i| (p + i) % n).find(|i| base[*i].is_ascii_digit());
            match start {
                Some(s) => {
                    let mut e = s;
                    while e < n && (base[e].is_ascii_digit() || base[e] == b'.') {
                        e += 1;
                    }
                    let t = *rng.pick(&[
                        "0", "-1", "255", "256", "65536", "2147483648", "4294967296", "9223372036854775807", "9223372036854775808", "-9223372036854775809",
                        "340282366920938463463374607431768211456", "1e400", "-1e-400", "0.1e1", "00012", "1.", ".5", "1e", "12345678901234567890123456789012345678901234567890123456789012345678901234567890",
                        "3.999999999999999999999999999999999", "1_000",
                    ]);
                    out.splice(s..e, t.bytes());
                    Mutation { name: "text:number".into(), desc: format!("number [{s}, {e}) -> {t}"), bytes: out }
                }
                None => mutate_generic(rng, base, None, &Hints::default(), "byte"),
            }
        }
        9 => {
            // nesting bomb
            let depth = *rng.pick(&[8usize, 64, 200, 2000]);
            let open = *rng.pick(&["[", "{\"a\":", "[{\"a\":[", "\""]);
            let bomb: String = open.repeat(depth);
            out.splice(p..p, bomb.bytes());
            Mutation { name: "text:nest".into(), desc: format!("insert {open:?} x{depth} at {p}"), bytes: out }
        }
        10 => {
            // invalid UTF-8
            let bad: &[u8] = *rng.pick(&[&[0xff][..], &[0xc0, 0x80], &[0xed, 0xa0, 0x80], &[0xf4, 0x90, 0x80, 0x80], &[0xe2, 0x82], &[0x80]]);
            out.splice(p..p, bad.iter().copied());
            Mutation { name: "text:utf8".into(), desc: format!("insert invalid utf-8 {bad:02x?} at {p}"), bytes: out }
        }
        11 => {
            // very long token
            let l = *rng.pick(&[300usize, 5_000, 70_000]);
            let c = *rng.pick(&[b'a', b'9', b' ', b'"', b',']);
            out.splice(p..p, std::iter::repeat_n(c, l));
            Mutation { name: "text:long".into(), desc: format!("insert {:?} x{l} at {p}", c as char), bytes: out }
        }
        12 if n > 0 => {
            let keep = rng.below(n);
            out.truncate(keep);
            Mutation { name: "trunc".into(), desc: format!("truncate {n} -> {keep}"), bytes: out }
        }
        _ => {
            let which = *rng.pick(&["byte", "bit", "del", "dup", "swap", "rand"]);
            mutate_generic(rng, base, None, &Hints::default(), which)
        }
    }
}

// ------------------------------------------------------------------ thrift compact protocol walker

/// Walks a thrift compact-protocol struct of a *valid* buffer and records where its field headers,
/// integers, lengths and list headers are. Returns the end position and the integer fields of the
/// outermost struct (`(field id, value)`).
pub struct Thrift<'a> {
    pub b: &'a [u8],
    pub pos: usize,
    pub hints: Hints,
    pub label: &'static str,
    depth: u32,
    budget: u32,
}

impl<'a> Thrift<'a> {
    pub fn new(b: &'a [u8], pos: usize, label: &'static str) -> Self {
        Thrift { b, pos, hints: Hints::default(), label, depth: 0, budget: 200_000 }
    }
    fn lab(&self, what: &'static str) -> &'static str {
        // label = "<structure>:<what>", interned through a small static table
        intern(self.label, what)
    }
    fn varint(&mut self, kind: FK, what: &'static str) -> Option<u64> {
        let (v, l) = read_uleb(self.b, self.pos)?;
        let lab = self.lab(what);
        self.hints.field(self.pos, kind, lab);
        self.pos += l;
        Some(v)
    }
    pub fn walk_struct(&mut self) -> Option<Vec<(i16, i64)>> {
        self.depth += 1;
        if self.depth > 32 {
            return None;
        }
        let mut top = vec![];
        let mut last: i16 = 0;
        loop {
            if self.budget == 0 {
                return None;
            }
            self.budget -= 1;
            let hp = self.pos;
            let h = *self.b.get(hp)?;
            self.pos += 1;
            if h == 0 {
                break;
            }
            let lab = self.lab("hdr");
            self.hints.field(hp, FK::ThriftHdr, lab);
            let ty = h & 0x0f;
            let delta = h >> 4;
            let id = if delta == 0 { unzigzag(self.varint(FK::VarZ, "id")?) as i16 } else { last.wrapping_add(delta as i16) };
            last = id;
            if let Some(v) = self.walk_value(ty, false)? {
                top.push((id, v));
            }
        }
        self.depth -= 1;
        Some(top)
    }
    /// `Some(Some(v))` for integers
    fn walk_value(&mut self, ty: u8, in_list: bool) -> Option<Option<i64>> {
        match ty {
            1 | 2 => {
                if in_list {
                    let lab = self.lab("bool");
                    self.hints.field(self.pos, FK::U8, lab);
                    self.pos += 1;
                }
                Some(None)
            }
            3 => {
                let lab = self.lab("byte");
                self.hints.field(self.pos, FK::U8, lab);
                self.pos += 1;
                Some(None)
            }
            4 | 5 | 6 => {
                let v = self.varint(FK::VarZ, "int")?;
                Some(Some(unzigzag(v)))
            }
            7 => {
                let lab = self.lab("double");
                self.hints.field(self.pos, FK::U64, lab);
                self.pos += 8;
                Some(None)
            }
            8 => {
                let l = self.varint(FK::VarU, "binlen")? as usize;
                let end = self.pos.checked_add(l)?;
                if end > self.b.len() {
                    return None;
                }
                let lab = self.lab("bin");
                self.hints.region(self.pos, end, lab);
                self.pos = end;
                Some(None)
            }
            9 | 10 => {
                let hp = self.pos;
                let h = *self.b.get(hp)?;
                self.pos += 1;
                let lab = self.lab("list");
                self.hints.field(hp, FK::ThriftList, lab);
                let et = h & 0x0f;
                let n = if h >> 4 == 15 { self.varint(FK::VarU, "listlen")? } else { (h >> 4) as u64 };
                for _ in 0..n {
                    if self.budget == 0 {
                        return None;
                    }
                    self.budget -= 1;
                    self.walk_value(et, true)?;
                }
                Some(None)
            }
            11 => {
                let n = self.varint(FK::VarU, "maplen")?;
                if n > 0 {
                    let kv = *self.b.get(self.pos)?;
                    self.pos += 1;
                    for _ in 0..n {
                        self.walk_value(kv >> 4, true)?;
                        self.walk_value(kv & 0x0f, true)?;
                    }
                }
                Some(None)
            }
            12 => {
                self.walk_struct()?;
                Some(None)
            }
            _ => None,
        }
    }
}

/// `"<a>:<b>"` as a `&'static str` (leaks at most a few hundred short strings per process).
pub fn intern(a: &str, b: &str) -> &'static str {
    use std::collections::BTreeMap;
    use std::sync::Mutex;
    static TABLE: Mutex<BTreeMap<String, &'static str>> = Mutex::new(BTreeMap::new());
    let key = format!("{a}:{b}");
    let mut t = TABLE.lock().unwrap();
    if let Some(s) = t.get(&key) {
        return s;
    }
    let s: &'static str = Box::leak(key.clone().into_boxed_str());
    t.insert(key, s);
    s
}

// ------------------------------------------------------------------ flatbuffers (hand walked on valid buffers)

fn u16_at(b: &[u8], p: usize) -> Option<u16> {
    rd_le(b, p, 2).map(|v| v as u16)
}
fn u32_at(b: &[u8], p: usize) -> Option<u32> {
    rd_le(b, p, 4).map(|v| v as u32)
}

/// Records the vtable entries, the vtable back-offset and every present inline field of the table
/// at `loc` of flatbuffer `b`. Returns the absolute positions of the present fields by slot.
pub fn fb_table(b: &[u8], loc: usize, h: &mut Hints, label: &'static str) -> Vec<Option<usize>> {
    let mut slots = vec![];
    let Some(so) = u32_at(b, loc) else { return slots };
    let vt = (loc as i64 - so as i32 as i64) as usize;
    let (Some(vt_len), Some(_obj)) = (u16_at(b, vt), u16_at(b, vt + 2)) else { return slots };
    h.field(loc, FK::U32, intern(label, "soffset"));
    h.field(vt, FK::U16, intern(label, "vt-len"));
    h.field(vt + 2, FK::U16, intern(label, "vt-objlen"));
    let n = (vt_len as usize).saturating_sub(4) / 2;
    for i in 0..n.min(64) {
        let ep = vt + 4 + 2 * i;
        let Some(o) = u16_at(b, ep) else { break };
        h.field(ep, FK::U16, intern(label, "vt-entry"));
        if o != 0 {
            let fp = loc + o as usize;
            h.field(fp, FK::U32, intern(label, "field"));
            slots.push(Some(fp));
        } else {
            slots.push(None);
        }
    }
    slots
}

/// follow the uoffset stored at `p`
pub fn fb_follow(b: &[u8], p: usize) -> Option<usize> {
    let o = u32_at(b, p)? as usize;
    let t = p.checked_add(o)?;
    if t + 4 <= b.len() { Some(t) } else { None }
}

/// A vector of fixed-size structs/scalars at `vec_pos` (position of its u32 length): records the
/// length and every `width`-byte element word.
pub fn fb_vector(b: &[u8], vec_pos: usize, elem: usize, words: usize, kind: FK, h: &mut Hints, label: &'static str) {
    let Some(n) = u32_at(b, vec_pos) else { return };
    h.field(vec_pos, FK::U32, intern(label, "veclen"));
    let w = match kind {
        FK::U64 => 8,
        FK::U32 => 4,
        FK::U16 => 2,
        _ => 1,
    };
    for i in 0..(n as usize).min(4096) {
        for k in 0..words {
            let p = vec_pos + 4 + i * elem + k * w;
            if p + w <= b.len() {
                h.field(p, kind, intern(label, "elem"));
            }
        }
    }
}

/// Hints for one IPC `Message` flatbuffer (`b` = the metadata bytes, without framing).
pub fn ipc_message_hints(b: &[u8]) -> Hints {
    let mut h = Hints::default();
    h.region(0, b.len(), "fb-meta");
    h.field(0, FK::U32, "fb-root");
    let Some(msg) = fb_follow(b, 0) else { return h };
    // Message { version:0, header_type:1, header:2, bodyLength:3, custom_metadata:4 }
    let s = fb_table(b, msg, &mut h, "msg");
    if let Some(Some(p)) = s.get(0) {
        h.field(*p, FK::U16, "msg:version");
    }
    let ht = s.get(1).copied().flatten().and_then(|p| b.get(p).copied()).unwrap_or(0);
    if let Some(Some(p)) = s.get(1) {
        h.field(*p, FK::U8, "msg:header-type");
    }
    if let Some(Some(p)) = s.get(3) {
        h.field(*p, FK::U64, "msg:bodyLength");
    }
    let Some(hdr) = s.get(2).copied().flatten().and_then(|p| fb_follow(b, p)) else { return h };
    match ht {
        // Schema { endianness:0, fields:1, custom_metadata:2, features:3 }
        1 => {
            let s = fb_table(b, hdr, &mut h, "schema");
            if let Some(fv) = s.get(1).copied().flatten().and_then(|p| fb_follow(b, p)) {
                ipc_fields(b, fv, &mut h, 0);
            }
        }
        // DictionaryBatch { id:0, data:1, isDelta:2 }
        2 => {
            let s = fb_table(b, hdr, &mut h, "dict");
            if let Some(Some(p)) = s.get(0) {
                h.field(*p, FK::U64, "dict:id");
            }
            if let Some(Some(p)) = s.get(2) {
                h.field(*p, FK::U8, "dict:isDelta");
            }
            if let Some(rb) = s.get(1).copied().flatten().and_then(|p| fb_follow(b, p)) {
                ipc_record_batch(b, rb, &mut h);
            }
        }
        3 => ipc_record_batch(b, hdr, &mut h),
        _ => {}
    }
    h
}

/// vector of Field tables at `vec_pos`
fn ipc_fields(b: &[u8], vec_pos: usize, h: &mut Hints, depth: u32) {
    if depth > 6 {
        return;
    }
    let Some(n) = u32_at(b, vec_pos) else { return };
    h.field(vec_pos, FK::U32, "field:veclen");
    for i in 0..(n as usize).min(64) {
        let ep = vec_pos + 4 + 4 * i;
        h.field(ep, FK::U32, "field:uoffset");
        let Some(f) = fb_follow(b, ep) else { continue };
        // Field { name:0, nullable:1, type_type:2, type:3, dictionary:4, children:5, custom_metadata:6 }
        let s = fb_table(b, f, h, "field");
        if let Some(Some(p)) = s.get(1) {
            h.field(*p, FK::U8, "field:nullable");
        }
        if let Some(Some(p)) = s.get(2) {
            h.field(*p, FK::U8, "field:type-tag");
        }
        if let Some(t) = s.get(3).copied().flatten().and_then(|p| fb_follow(b, p)) {
            // type table: Int{bitWidth,is_signed} / Decimal{precision,scale,bitWidth} / FixedSizeBinary{byteWidth} / ...
            let ts = fb_table(b, t, h, "type");
            for p in ts.into_iter().flatten() {
                h.field(p, FK::U32, "type:param");
                h.field(p, FK::U8, "type:param8");
            }
        }
        if let Some(d) = s.get(4).copied().flatten().and_then(|p| fb_follow(b, p)) {
            // DictionaryEncoding { id:0, indexType:1, isOrdered:2, dictionaryKind:3 }
            let ds = fb_table(b, d, h, "dictenc");
            if let Some(Some(p)) = ds.first() {
                h.field(*p, FK::U64, "dictenc:id");
            }
            if let Some(it) = ds.get(1).copied().flatten().and_then(|p| fb_follow(b, p)) {
                let is = fb_table(b, it, h, "dictenc-index");
                for p in is.into_iter().flatten() {
                    h.field(p, FK::U32, "dictenc-index:param");
                }
            }
        }
        if let Some(c) = s.get(5).copied().flatten().and_then(|p| fb_follow(b, p)) {
            ipc_fields(b, c, h, depth + 1);
        }
    }
}

/// RecordBatch { length:0, nodes:1, buffers:2, compression:3, variadicBufferCounts:4 }
fn ipc_record_batch(b: &[u8], loc: usize, h: &mut Hints) {
    let s = fb_table(b, loc, h, "rb");
    if let Some(Some(p)) = s.first() {
        h.field(*p, FK::U64, "rb:length");
    }
    if let Some(v) = s.get(1).copied().flatten().and_then(|p| fb_follow(b, p)) {
        fb_vector(b, v, 16, 2, FK::U64, h, "rb-nodes");
    }
    if let Some(v) = s.get(2).copied().flatten().and_then(|p| fb_follow(b, p)) {
        fb_vector(b, v, 16, 2, FK::U64, h, "rb-buffers");
    }
    if let Some(c) = s.get(3).copied().flatten().and_then(|p| fb_follow(b, p)) {
        let cs = fb_table(b, c, h, "rb-compression");
        for p in cs.into_iter().flatten() {
            h.field(p, FK::U8, "rb-compression:codec");
        }
    }
    if let Some(v) = s.get(4).copied().flatten().and_then(|p| fb_follow(b, p)) {
        fb_vector(b, v, 8, 1, FK::U64, h, "rb-variadic");
    }
}

/// `(offset, length)` pairs of the body buffers declared by a RecordBatch / DictionaryBatch message
pub fn ipc_body_buffers(meta: &[u8]) -> Vec<(u64, u64)> {
    let mut out = vec![];
    let mut h = Hints::default();
    let Some(msg) = fb_follow(meta, 0) else { return out };
    let s = fb_table(meta, msg, &mut h, "x");
    let ht = s.get(1).copied().flatten().and_then(|p| meta.get(p).copied()).unwrap_or(0);
    let Some(mut hdr) = s.get(2).copied().flatten().and_then(|p| fb_follow(meta, p)) else { return out };
    if ht == 2 {
        let d = fb_table(meta, hdr, &mut h, "x");
        match d.get(1).copied().flatten().and_then(|p| fb_follow(meta, p)) {
            Some(rb) => hdr = rb,
            None => return out,
        }
    } else if ht != 3 {
        return out;
    }
    let r = fb_table(meta, hdr, &mut h, "x");
    if let Some(v) = r.get(2).copied().flatten().and_then(|p| fb_follow(meta, p)) {
        let n = u32_at(meta, v).unwrap_or(0) as usize;
        for i in 0..n.min(4096) {
            if let (Some(o), Some(l)) = (rd_le(meta, v + 4 + 16 * i, 8), rd_le(meta, v + 12 + 16 * i, 8)) {
                out.push((o, l));
            }
        }
    }
    out
}

/// Hints for the body of a message: every buffer is a region; its first 8 bytes are a field
/// (uncompressed length prefix of compressed buffers; first offsets / validity word otherwise).
pub fn ipc_body_hints(meta: &[u8], body_start: usize, body_len: usize, h: &mut Hints) {
    h.region(body_start, body_start + body_len, "ipc-body");
    for (o, l) in ipc_body_buffers(meta) {
        let (o, l) = (o as usize, l as usize);
        if l == 0 || o.checked_add(l).is_none_or(|e| e > body_len) {
            continue;
        }
        h.region(body_start + o, body_start + o + l, "ipc-buffer");
        if l >= 8 {
            h.field(body_start + o, FK::U64, "ipc-buffer:first8");
            h.field(body_start + o + l - 4, FK::U32, "ipc-buffer:last4");
        }
        if l >= 4 {
            h.field(body_start + o, FK::U32, "ipc-buffer:first4");
        }
    }
}

/// Walk the encapsulated-message framing of an IPC stream starting at `pos`.
pub fn ipc_stream_hints(b: &[u8], mut pos: usize) -> Hints {
    let mut h = Hints::default();
    for _ in 0..10_000 {
        let Some(w) = u32_at(b, pos) else { break };
        let (len_pos, legacy) = if w == 0xFFFF_FFFF { (pos + 4, false) } else { (pos, true) };
        if !legacy {
            h.field(pos, FK::U32, "ipc-continuation");
        }
        let Some(mlen) = u32_at(b, len_pos) else { break };
        h.field(len_pos, FK::U32, "ipc-meta-len");
        if mlen == 0 {
            break; // end of stream marker
        }
        let ms = len_pos + 4;
        let me = ms + mlen as usize;
        if me > b.len() {
            break;
        }
        let meta = &b[ms..me];
        h.merge(ipc_message_hints(meta).shifted(ms));
        // bodyLength
        let mut body = 0usize;
        if let Some(msg) = fb_follow(meta, 0) {
            let mut tmp = Hints::default();
            let s = fb_table(meta, msg, &mut tmp, "x");
            if let Some(Some(p)) = s.get(3) {
                body = rd_le(meta, *p, 8).unwrap_or(0) as usize;
            }
        }
        if me.checked_add(body).is_none_or(|e| e > b.len()) {
            break;
        }
        if body > 0 {
            ipc_body_hints(meta, me, body, &mut h);
        }
        pos = me + body;
    }
    h
}

/// IPC file: magic, embedded stream, footer flatbuffer (blocks), footer length, magic.
pub fn ipc_file_hints(b: &[u8]) -> Hints {
    let n = b.len();
    let mut h = Hints::default();
    if n < 18 {
        return h;
    }
    h.region(0, 8, "ipc-magic");
    h.region(n - 10, n, "ipc-trailer");
    h.field(n - 10, FK::U32, "ipc-footer-len");
    h.merge(ipc_stream_hints(b, 8));
    let flen = u32_at(b, n - 10).unwrap_or(0) as usize;
    if flen + 10 > n {
        return h;
    }
    let fs = n - 10 - flen;
    let f = &b[fs..n - 10];
    let mut fh = Hints::default();
    fh.region(0, f.len(), "fb-footer");
    fh.field(0, FK::U32, "fb-root");
    if let Some(t) = fb_follow(f, 0) {
        // Footer { version:0, schema:1, dictionaries:2, recordBatches:3, custom_metadata:4 }
        let s = fb_table(f, t, &mut fh, "footer");
        if let Some(Some(p)) = s.first() {
            fh.field(*p, FK::U16, "footer:version");
        }
        if let Some(sc) = s.get(1).copied().flatten().and_then(|p| fb_follow(f, p)) {
            let ss = fb_table(f, sc, &mut fh, "schema");
            if let Some(fv) = ss.get(1).copied().flatten().and_then(|p| fb_follow(f, p)) {
                ipc_fields(f, fv, &mut fh, 0);
            }
        }
        for (slot, lab) in [(2usize, "footer-dict-blocks"), (3, "footer-batch-blocks")] {
            if let Some(v) = s.get(slot).copied().flatten().and_then(|p| fb_follow(f, p)) {
                // Block { offset: i64, metaDataLength: i32, pad, bodyLength: i64 } = 24 bytes
                let cnt = u32_at(f, v).unwrap_or(0) as usize;
                fh.field(v, FK::U32, intern(lab, "veclen"));
                for i in 0..cnt.min(1024) {
                    let p = v + 4 + 24 * i;
                    fh.field(p, FK::U64, intern(lab, "offset"));
                    fh.field(p + 8, FK::U32, intern(lab, "metaLen"));
                    fh.field(p + 16, FK::U64, intern(lab, "bodyLen"));
                }
            }
        }
    }
    h.merge(fh.shifted(fs));
    h
}

// ------------------------------------------------------------------ Avro OCF framing

/// Header (magic, metadata map, sync) and block framing (count, size, data, sync) of an Avro OCF.
/// Returns the hints and the byte range of the `avro.schema` value (for schema-text mutations).
pub fn avro_ocf_hints(b: &[u8]) -> (Hints, Option<(usize, usize, usize)>) {
    let mut h = Hints::default();
    let mut schema = None;
    if b.len() < 4 || &b[..4] != b"Obj\x01" {
        return (h, schema);
    }
    h.region(0, 4, "avro-magic");
    let mut p = 4usize;
    // metadata map: blocks of (count, [key, value]...) terminated by 0
    'map: loop {
        let Some((c, l)) = read_uleb(b, p) else { return (h, schema) };
        h.field(p, FK::VarZ, "avro-hdr:map-count");
        p += l;
        let mut cnt = unzigzag(c);
        if cnt == 0 {
            break 'map;
        }
        if cnt < 0 {
            // negative count is followed by a byte size
            let Some((_, l)) = read_uleb(b, p) else { return (h, schema) };
            h.field(p, FK::VarZ, "avro-hdr:map-bytes");
            p += l;
            cnt = -cnt;
        }
        for _ in 0..cnt.min(256) {
            let Some((kl, l)) = read_uleb(b, p) else { return (h, schema) };
            h.field(p, FK::VarZ, "avro-hdr:key-len");
            p += l;
            let kl = unzigzag(kl) as usize;
            let Some(key) = b.get(p..p + kl) else { return (h, schema) };
            p += kl;
            let lenpos = p;
            let Some((vl, l)) = read_uleb(b, p) else { return (h, schema) };
            h.field(p, FK::VarZ, "avro-hdr:value-len");
            p += l;
            let vl = unzigzag(vl) as usize;
            if p + vl > b.len() {
                return (h, schema);
            }
            if key == b"avro.schema" {
                schema = Some((lenpos, p, p + vl));
                h.region(p, p + vl, "avro-schema-json");
            } else {
                h.region(p, p + vl, "avro-hdr-value");
            }
            p += vl;
        }
    }
    if p + 16 > b.len() {
        return (h, schema);
    }
    h.field(p, FK::Sync16, "avro-hdr:sync");
    p += 16;
    for _ in 0..4096 {
        if p >= b.len() {
            break;
        }
        let Some((_, l)) = read_uleb(b, p) else { break };
        h.field(p, FK::VarZ, "avro-block:count");
        p += l;
        let Some((sz, l)) = read_uleb(b, p) else { break };
        h.field(p, FK::VarZ, "avro-block:size");
        p += l;
        let sz = unzigzag(sz);
        if sz < 0 || p + sz as usize + 16 > b.len() {
            break;
        }
        h.region(p, p + sz as usize, "avro-block-data");
        p += sz as usize;
        h.field(p, FK::Sync16, "avro-block:sync");
        p += 16;
    }
    (h, schema)
}

/// Replace one JSON token of the embedded writer schema (type names, sizes, precision/scale, names),
/// fixing up the length prefix so that the header stays well-formed.
pub fn avro_schema_mutation(rng: &mut Rng, b: &[u8], (lenpos, s, e): (usize, usize, usize)) -> Option<Mutation> {
    let text = std::str::from_utf8(&b[s..e]).ok()?;
    const SWAPS: [&str; 30] = [
        "\"null\"", "\"boolean\"", "\"int\"", "\"long\"", "\"float\"", "\"double\"", "\"bytes\"", "\"string\"", "\"record\"", "\"enum\"", "\"array\"", "\"map\"",
        "\"fixed\"", "\"decimal\"", "\"uuid\"", "\"date\"", "\"time-millis\"", "\"time-micros\"", "\"timestamp-millis\"", "\"timestamp-micros\"",
        "\"local-timestamp-millis\"", "\"local-timestamp-micros\"", "\"duration\"", "\"timestamp-nanos\"", "\"items\"", "\"values\"", "\"symbols\"", "\"size\"",
        "\"precision\"", "\"scale\"",
    ];
    let mut new = text.to_string();
    let desc;
    match rng.below(4) {
        // swap a known token
        0 | 1 => {
            let present: Vec<(usize, &str)> = SWAPS.iter().flat_map(|t| text.match_indices(t).map(|(i, _)| (i, *t)).collect::<Vec<_>>()).collect();
            if present.is_empty() {
                return None;
            }
            let (i, t) = *rng.pick(&present);
            let to = *rng.pick(&SWAPS[..24]);
            new.replace_range(i..i + t.len(), to);
            desc = format!("avro schema token {t} @{i} -> {to}");
        }
        // rewrite a number (size / precision / scale)
        2 => {
            let digits: Vec<usize> = text.char_indices().filter(|(i, c)| c.is_ascii_digit() && (*i == 0 || !text.as_bytes()[i - 1].is_ascii_digit())).map(|x| x.0).collect();
            if digits.is_empty() {
                return None;
            }
            let i = *rng.pick(&digits);
            let mut j = i;
            while j < text.len() && text.as_bytes()[j].is_ascii_digit() {
                j += 1;
            }
            let to = *rng.pick(&["0", "1", "-1", "2147483647", "2147483648", "9223372036854775807", "77", "39", "255", "1e3", "4294967296"]);
            new.replace_range(i..j, to);
            desc = format!("avro schema number {} -> {to}", &text[i..j]);
        }
        // structural damage
        _ => {
            let i = rng.below(text.len().max(1));
            let i = (0..=i).rev().find(|k| text.is_char_boundary(*k)).unwrap_or(0);
            let t = *rng.pick(&["[", "]", "{", "}", ",", "\"", ":", "null", "[\"null\",", "{\"type\":\"array\",\"items\":"]);
            new.insert_str(i, t);
            desc = format!("avro schema insert {t:?} @{i}");
        }
    }
    let mut out = b[..lenpos].to_vec();
    write_uleb(zigzag(new.len() as i64), &mut out);
    out.extend_from_slice(new.as_bytes());
    out.extend_from_slice(&b[e..]);
    Some(Mutation { name: "avro-schema".into(), desc, bytes: out })
}
