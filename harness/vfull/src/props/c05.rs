//! C05: Parquet write then read returns the same Arrow types and values.
//!
//! Events: files produced by the real `ArrowWriter` (random write()/flush() partition of the
//! rows) and by `ArrowColumnWriter`s on worker threads (one per leaf, random yields, random
//! close order, `ArrowColumnChunk::append_to_row_group` in schema order), optionally re-spliced
//! with `SerializedRowGroupWriter::append_column`; batches from `ParquetRecordBatchReader` at
//! random batch sizes.
//!
//! Oracle: the reader's schema has the written field names / nullability / data types
//! (run-end encoded columns as their value type; field metadata ignored), every batch carries
//! that schema, and the concatenated rows equal the model rows in order (`extract`: dictionary
//! arrays by the values they denote, floats by bit pattern, nulls at every level, empty lists).
//!
//! Sections
//! * `serial`   – nested schemas, `ArrowWriter`, every WriterProperties knob incl. CDC
//! * `parallel` – the same schemas through `create_column_writers` on threads (manual
//!                `SerializedFileWriter` or `ArrowWriter::into_serialized_writer`)
//! * `flat`     – one flat / dictionary / run-end column, up to ~4k rows: delta block edges,
//!                byte-stream-split, dictionary fallback, page boundaries
//! * `concat`   – a file from any mode re-spliced chunk by chunk with `append_column`
//! * `compat`   – flat declared schema, batches presented in the logically equivalent physical types
//!                the `ArrowWriter` rustdoc promises to accept (String/LargeString/StringView,
//!                Binary/LargeBinary/BinaryView, native vs dictionary); read back = declared schema
//!
//! not asserted:
//! * reads with `skip_arrow_metadata` / without the embedded schema (documented coercions);
//! * Date64 values that are not whole days, Time values outside a day, decimals beyond the declared
//!   precision (outside the Arrow value domain: never generated);
//! * byte identity of files, page / row-group layout, statistics, bloom filter content;
//! * the sizes of the batches the reader returns (only their concatenation);
//! * field metadata; names of list-element / map-entry fields when `coerce_types` is set (documented
//!   renaming);
//! * which error a declined schema/option combination produces: schema-converter / `try_new` errors and
//!   "not supported / not implemented" outcomes (Err or panic) of writer or reader are rejections; any
//!   other Err of write/flush/close on an accepted schema is reported as `C05|write-err|..`;
//! * identity of dictionary keys / dictionary content (only the denoted values).

use super::pq_common::{
    self as pq, FailKind, GenCfg, ReadOutcome, WriteCfg, WriteMode, Written, compare_rows, compare_schema,
    concat_via_append_column, gen_read_cfg, leaf_class, read_file, shape_class,
};
use parquet::basic::{Encoding, PageType};
use std::collections::BTreeSet;
use vcore::mon::{Ctx, guard, is_rejection_msg, strip_digits};
use vcore::rng::Rng;
use vcore::val::dump_vals;

#[derive(Default)]
struct Stats {
    orders: BTreeSet<String>,
    non_identity_orders: u64,
    parallel_row_groups: u64,
}

/// Replace Arrow data type names (with their parenthesised arguments) in an error / panic message
/// by `<type>`, so that one defect that is reachable with several types keeps one signature.
fn norm_types(msg: &str) -> String {
    const NAMES: [&str; 31] = [
        "FixedSizeBinary", "LargeBinary", "BinaryView", "LargeUtf8", "Utf8View", "Decimal256", "Decimal128",
        "Decimal64", "Decimal32", "Timestamp", "Dictionary", "Duration", "Interval", "Time32", "Time64", "Date32",
        "Date64", "Float16", "Float32", "Float64", "UInt64", "UInt32", "UInt16", "UInt8", "Int64", "Int32", "Int16",
        "Int8", "Boolean", "Binary", "Utf8",
    ];
    let b = msg.as_bytes();
    let mut out = String::with_capacity(msg.len());
    let mut i = 0usize;
    'outer: while i < b.len() {
        let boundary_before = i == 0 || !(b[i - 1].is_ascii_alphanumeric() || b[i - 1] == b'_');
        if boundary_before {
            for n in NAMES {
                if msg[i..].starts_with(n) {
                    let mut j = i + n.len();
                    if j < b.len() && (b[j].is_ascii_alphanumeric() || b[j] == b'_') {
                        continue;
                    }
                    if j < b.len() && b[j] == b'(' {
                        let mut depth = 0i32;
                        while j < b.len() {
                            if b[j] == b'(' {
                                depth += 1;
                            } else if b[j] == b')' {
                                depth -= 1;
                                if depth == 0 {
                                    j += 1;
                                    break;
                                }
                            }
                            j += 1;
                        }
                    }
                    out.push_str("<type>");
                    i = j;
                    continue 'outer;
                }
            }
        }
        let ch = msg[i..].chars().next().unwrap();
        out.push(ch);
        i += ch.len_utf8();
    }
    out
}

fn norm_panic(p: &vcore::mon::PanicInfo) -> vcore::mon::PanicInfo {
    vcore::mon::PanicInfo { msg: norm_types(&p.msg), loc: p.loc.clone() }
}

fn mode_sig(w: &Written, concat: bool, compat: bool) -> &'static str {
    if concat {
        "cat"
    } else if compat {
        "cmp"
    } else if w.mode.is_parallel() {
        "par"
    } else {
        "ser"
    }
}

fn witness(w: &Written) -> String {
    let mut s = format!("{}\n", w.desc);
    for (i, c) in w.logical.cols.iter().enumerate() {
        s.push_str(&format!("col{i} = {}\n", dump_vals(c)));
        if s.len() > 4000 {
            break;
        }
    }
    s
}

/// Oracle self-test (env `C05_BREAK_MODEL=value|swap|null|type|name|nullable`): perturb the expectation.
fn break_model(w: &mut Written, how: &str, rng: &mut Rng) {
    use arrow_schema::{DataType, Field, Schema};
    use vcore::val::Val;
    let ncols = w.logical.cols.len();
    if ncols == 0 {
        return;
    }
    let c = rng.below(ncols);
    let rows = w.logical.rows;
    match how {
        "value" | "null" if rows > 0 => {
            let r = rng.below(rows);
            let v = &mut w.logical.cols[c][r];
            *v = if how == "null" && !v.is_null() { Val::Null } else if v.is_null() { Val::Int(12345) } else { Val::Null };
        }
        "swap" if rows > 1 => {
            let r = rng.below(rows - 1);
            w.logical.cols[c].swap(r, r + 1);
        }
        "type" | "name" | "nullable" => {
            let mut fs: Vec<Field> = w.schema.fields().iter().map(|f| f.as_ref().clone()).collect();
            fs[c] = match how {
                "type" => fs[c].clone().with_data_type(if fs[c].data_type() == &DataType::Int8 { DataType::Int16 } else { DataType::Int8 }),
                "name" => fs[c].clone().with_name("renamed"),
                _ => { let n = !fs[c].is_nullable(); fs[c].clone().with_nullable(n) }
            };
            w.schema = std::sync::Arc::new(Schema::new(fs));
        }
        _ => {}
    }
}

fn observe_metadata(ctx: &mut Ctx, w: &Written) {
    let md = &w.metadata;
    ctx.count("row_groups", md.num_row_groups() as u64);
    let mut data_pages = 0u64;
    let mut dict_pages = 0u64;
    let mut fallback = 0u64;
    let mut chunks = 0u64;
    for rg in md.row_groups() {
        for c in rg.columns() {
            chunks += 1;
            if let Some(st) = c.page_encoding_stats() {
                let mut d = 0u64;
                let mut nd = 0u64;
                for s in st {
                    match s.page_type {
                        PageType::DICTIONARY_PAGE => dict_pages += s.count as u64,
                        PageType::DATA_PAGE | PageType::DATA_PAGE_V2 => {
                            data_pages += s.count as u64;
                            if matches!(s.encoding, Encoding::RLE_DICTIONARY | Encoding::PLAIN_DICTIONARY) {
                                d += s.count as u64;
                            } else {
                                nd += s.count as u64;
                            }
                        }
                        _ => {}
                    }
                }
                if d > 0 && nd > 0 {
                    fallback += 1;
                }
            }
        }
    }
    ctx.count("column_chunks", chunks);
    ctx.count("data_pages", data_pages);
    ctx.count("dictionary_pages", dict_pages);
    ctx.count("chunks_with_mid_chunk_dictionary_fallback", fallback);
}

fn one_case(ctx: &mut Ctx, rng: &mut Rng, cfg: &WriteCfg, concat: bool, compat: bool, st: &mut Stats) {
    let res = if compat { pq::write_compat(rng, cfg) } else { pq::write_file(rng, cfg) };
    let w = match res {
        Ok(w) => w,
        Err(f) => {
            match &f.kind {
                FailKind::Rejected => {
                    ctx.reject();
                    let m: String = strip_digits(&f.msg).chars().take(90).collect();
                    ctx.count(&format!("rejected@{}: {m}", f.stage), 1);
                }
                FailKind::Model => ctx.inconclusive(&format!("model failure at {}: {}", f.stage, f.msg)),
                FailKind::Err => {
                    // write()/flush()/close() returned an Err that is not a "not supported" style refusal
                    // although try_new accepted the schema and the batches are valid for it: the writer
                    // neither rejected the configuration nor produced the file. Reported under its own
                    // signature family so that it can be triaged separately from value mismatches.
                    ctx.eval();
                    let sig = format!("C05|write-err|{}", strip_digits(&norm_types(&f.msg)));
                    ctx.violation(
                        &sig,
                        format!("the writer accepted the schema but {} failed on valid input: {}\ntags {:?}\n{}", f.stage, f.msg, f.tags, f.desc),
                    );
                }
                FailKind::Panic(p) => {
                    ctx.eval();
                    if f.tags.contains(&"cdc")
                        && f.tags.contains(&"unordered-listview")
                        && f.tags.contains(&"ok-without-cdc")
                        && matches!(f.stage.as_str(), "write" | "flush" | "close")
                    {
                        // (the same batches are written fine without CDC: tag "ok-without-cdc")
                        // one defect class, open-ended set of panic sites: the content-defined chunker
                        // (and ArrayLevels::slice_for_chunk) assume the leaf values of a chunk are
                        // visited in increasing order, which an out-of-order ListView breaks
                        ctx.violation(
                            "C05|write|panic|cdc+unordered-listview",
                            format!("panic: {} @ {}\n{}", p.msg, p.loc, f.desc),
                        );
                    } else {
                        ctx.panic_violation("write", &norm_panic(p), format!("panic: {}\nstage {}\ntags {:?}\n{}", p.msg, f.stage, f.tags, f.desc));
                    }
                }
            }
            return;
        }
    };
    let mut w = w;
    if let Ok(how) = std::env::var("C05_BREAK_MODEL") {
        // oracle self-test: corrupt the *expectation* (never arrow-rs) and see the check fire
        break_model(&mut w, &how, rng);
    }
    let w = w;
    let ms = mode_sig(&w, concat, compat);
    observe_metadata(ctx, &w);
    if w.mode.is_parallel() {
        for o in &w.completion_orders {
            st.parallel_row_groups += 1;
            if o.windows(2).any(|p| p[0] > p[1]) {
                st.non_identity_orders += 1;
            }
            if st.orders.len() < 100_000 {
                st.orders.insert(format!("{o:?}"));
            }
        }
    }
    let mut bytes = w.bytes.clone();
    if concat {
        let with_index = rng.bool();
        match guard(|| concat_via_append_column(&bytes, with_index)) {
            Ok(Ok(b)) => bytes = b,
            Ok(Err(e)) => {
                ctx.eval();
                if is_rejection_msg(&e) {
                    ctx.reject();
                } else {
                    ctx.violation(
                        &format!("C05|append_column-err|{}", strip_digits(&norm_types(&e))),
                        format!("re-splicing a file the writer produced failed: {e}\n{}", witness(&w)),
                    );
                }
                return;
            }
            Err(p) => {
                ctx.eval();
                ctx.panic_violation("append_column", &p, witness(&w));
                return;
            }
        }
    }
    ctx.eval();
    let reads = 1 + rng.below(2);
    let mut ok = true;
    for _ in 0..reads {
        let rc = gen_read_cfg(rng, w.logical.rows);
        match read_file(&bytes, &rc) {
            ReadOutcome::Err(stage, msg) => {
                ok = false;
                if is_rejection_msg(&msg) {
                    ctx.reject();
                    let m: String = strip_digits(&msg).chars().take(90).collect();
                    ctx.count(&format!("rejected@read-{stage}: {m}"), 1);
                } else {
                    ctx.violation(
                        &format!("C05|read-err|{}", strip_digits(&norm_types(&msg))),
                        format!("reading back a file the writer produced (mode `{ms}`) failed at {stage}: {msg}\nread {rc:?}\n{}", witness(&w)),
                    );
                }
                break;
            }
            ReadOutcome::Panic(p) => {
                ok = false;
                if p.is_rejection() {
                    ctx.reject();
                    ctx.count("rejected@read-panic", 1);
                } else {
                    ctx.panic_violation("read", &norm_panic(&p), format!("panic: {}\nfile written in mode `{ms}`\nread {rc:?}\n{}", p.msg, witness(&w)));
                }
                break;
            }
            ReadOutcome::Ok(schema, batches) => {
                ctx.count("batches_read", batches.len() as u64);
                if let Err(d) = compare_schema(&w.schema, &schema, w.props.coerce_types) {
                    ok = false;
                    ctx.violation(
                        &format!("C05|schema|{}|{}", d.sig_path(), d.what),
                        format!("[mode `{ms}`] schema read back differs at {}: {} ({})\nexpected {}\nread     {}\nread {rc:?}\n{}", d.path, d.what, d.detail, pq::schema_string(&w.expected_schema), pq::schema_string(&schema), w.desc),
                    );
                    break;
                }
                // every batch must carry the reader's fields (schema-level metadata is not asserted)
                if let Some((b, d)) = batches.iter().find_map(|b| compare_schema(&schema, &b.schema(), false).err().map(|d| (b, d))) {
                    ok = false;
                    ctx.violation(
                        &format!("C05|batch-schema|{}", d.what),
                        format!("[mode `{ms}`] a batch carries fields different from the reader's schema at {}: {}\nbatch  {}\nreader {}\n{}", d.path, d.detail, pq::schema_string(&b.schema()), pq::schema_string(&schema), w.desc),
                    );
                    break;
                }
                match compare_rows(&w.expected_schema, &w.logical.cols, &batches) {
                    Ok(Ok(())) => {}
                    Ok(Err(d)) => {
                        ok = false;
                        ctx.violation(
                            &format!("C05|rows|{}|{}", d.path, d.kind),
                            format!("[mode `{ms}`] {}\nread {rc:?}\n{}", d.detail, witness(&w)),
                        );
                        break;
                    }
                    Err(p) => {
                        ok = false;
                        if p.msg.starts_with("model:") {
                            ctx.inconclusive(&format!("extract: {} @ {}", p.msg, p.loc));
                        } else {
                            ctx.panic_violation("accessors-on-read-array", &p, format!("file written in mode `{ms}`\nread {rc:?}\n{}", witness(&w)));
                        }
                        break;
                    }
                }
            }
        }
    }
    if ok && w.logical.rows > 0 {
        let opt = format!(
            "v{}|{}|{}|{}{}{}",
            if w.props.version2 { 2 } else { 1 },
            w.props.compression,
            w.props.stats,
            if w.props.cdc { "cdc" } else { "-" },
            if w.props.bloom { "+bloom" } else { "" },
            if w.props.coerce_types { "+coerce" } else { "" }
        );
        let tag = if concat {
            format!("cat-{}", w.mode.tag())
        } else if compat {
            format!("compat-{}", w.mode.tag())
        } else {
            w.mode.tag().to_string()
        };
        for f in w.schema.fields() {
            ctx.class(format!("{tag}|col|{}|{opt}", shape_class(f.data_type())));
        }
        for i in 0..w.props.leaves.len() {
            ctx.class(format!("{tag}|leaf|{}|v{}", leaf_class(&w.props, i), if w.props.version2 { 2 } else { 1 }));
        }
        ctx.count("rows_round_tripped", w.logical.rows as u64);
        ctx.count("leaf_columns", w.props.leaves.len() as u64);
    }
    ctx.sample(|| w.desc.clone());
}

pub fn run(ctx: &mut Ctx) {
    let mut st = Stats::default();
    // (section, total cases, cfg, concat)
    let serial = ctx.tier.pick(24, 11_000, 150_000);
    let parallel = ctx.tier.pick(16, 5_000, 70_000);
    let flat = ctx.tier.pick(16, 4_000, 50_000);
    let concat = ctx.tier.pick(8, 2_000, 25_000);
    let compat = ctx.tier.pick(8, 2_000, 25_000);
    let plan: Vec<(&str, u64, WriteCfg, bool)> = vec![
        ("serial", serial, WriteCfg::standard().with_mode(WriteMode::Serial), false),
        ("parallel", parallel, WriteCfg::standard(), false),
        ("flat", flat, { let mut c = WriteCfg::standard(); c.gen_cfg = GenCfg::flat_long(); c }, false),
        ("concat", concat, WriteCfg::standard(), true),
        ("compat", compat, { let mut c = WriteCfg::standard(); c.gen_cfg = GenCfg::flat_compat(); c }, false),
    ];
    // interleave the sections so that a deadline cuts all of them proportionally
    let lists: Vec<Vec<u64>> = plan.iter().map(|(s, n, _, _)| ctx.cases(s, *n)).collect();
    let mut idx = vec![0usize; plan.len()];
    let weights: Vec<usize> = plan.iter().map(|p| (p.1 as usize).max(1)).collect();
    let wmin = *weights.iter().min().unwrap();
    let per_round: Vec<usize> = weights.iter().map(|w| (w / wmin).max(1)).collect();
    'outer: loop {
        let mut progressed = false;
        for (k, (section, _, cfg, cat)) in plan.iter().enumerate() {
            for _ in 0..per_round[k] {
                if idx[k] >= lists[k].len() {
                    break;
                }
                if ctx.out_of_time() {
                    break 'outer;
                }
                let i = lists[k][idx[k]];
                idx[k] += 1;
                progressed = true;
                let mut rng = ctx.begin(section, i);
                let mut cfg = cfg.clone();
                if *section == "parallel" {
                    cfg.mode = Some(if rng.bool() { WriteMode::ParallelManual } else { WriteMode::ParallelInto });
                }
                let t0 = std::time::Instant::now();
                one_case(ctx, &mut rng, &cfg, *cat, *section == "compat", &mut st);
                let dt = t0.elapsed();
                if dt.as_secs_f64() > 5.0 {
                    ctx.count("cases_slower_than_5s", 1);
                    if std::env::var("C05_TIMING").is_ok() {
                        eprintln!("slow case {section} {i}: {:.1}s", dt.as_secs_f64());
                    }
                }
            }
        }
        if !progressed {
            break;
        }
    }
    ctx.count("parallel_row_groups", st.parallel_row_groups);
    ctx.count("distinct_completion_orders", st.orders.len() as u64);
    ctx.count("non_schema_order_completions", st.non_identity_orders);
}
