//! C08: untrusted bytes yield an error or valid data, never an invalid array; no panic, no
//! endless loop, no allocation unrelated to the input size.
//!
//! Events: for every corrupted input and every safe reader of arrow-rs (`c08rd.rs`): the `Result`,
//! any panic (message, location), the peak additional heap of the calling thread (a counting
//! `#[global_allocator]`, below), the CPU time, and on `Ok` every returned batch / array.
//!
//! Readers (signatures key on the decoding core: ipc, parquet, avro, csv, json, variant; the fine reader is in the witness):
//! * IPC file: `FileReader::try_new` / `try_new_buffered` + `set_index` / `FileReaderBuilder`, and the
//!   zero-copy `FileDecoder` path [ipc-file]; IPC stream: `StreamReader::try_new` / `try_new_buffered`
//!   (with projections), `StreamDecoder` whole and chunked, with / without alignment requirement
//!   [ipc-stream]; `try_schema_from_ipc_buffer` / `try_schema_from_flatbuffer_bytes` [ipc-schema];
//! * Flight: `FlightRecordBatchStream`, `flight_data_to_batches`, `flight_data_to_arrow_batch` [flight];
//! * Parquet: `ParquetMetaDataReader` (+ `decode_metadata`, `decode_schema`), `ParquetMetaDataPushDecoder`
//!   [pq-meta]; `ParquetRecordBatchReader` (page index policies, projection, row selection, limit /
//!   offset, skip_arrow_metadata), `ParquetPushDecoder` [pq-arrow]; `SerializedFileReader` page readers
//!   (get / peek / skip), typed `ColumnReader::read_records`, `RowIter` [pq-file]; bases cover every
//!   encoding, codec, page version and writer option of `pq_common::gen_props`;
//! * Avro: OCF `Reader` (all codecs) [avro-ocf], single-object `Decoder` whole and chunked [avro-soe];
//! * CSV: `Reader`, buffered reader, push `Decoder`, `Format::infer_schema` [csv]; JSON: `Reader`, push
//!   `Decoder`, `infer_json_schema` [json];
//! * Variant: `VariantMetadata::try_new`, `Variant::try_new` + complete traversal through the
//!   infallible accessors [variant].
//!
//! Oracle (per reader call):
//! * no panic (`C08|<family>|panic|<file>|<message>`), whatever the message says: for untrusted
//!   bytes "not implemented" panics are panics too;
//! * `Ok` => every batch passes `vcore::validate::check_batch` (independent spec validator +
//!   `validate_full`), carries exactly the fields of the schema the reader announced, and every
//!   column survives the accessor exercise (`..|invalid|<rule>`, `..|invalid-panic|..`);
//!   Variant: `try_new` => the traversal neither panics nor contradicts itself (`len` vs `iter`,
//!   `field_name(i)` / `get`, strictly increasing object keys, metadata strings readable);
//! * peak additional heap <= 1 GiB for inputs <= 1 MiB (`..|alloc|peak>1GiB`); no single request
//!   > 8 GiB: the allocator refuses it, which a reader either handles (still reported) or dies of
//!   (`..|alloc|single-request>8GiB`); other deaths of the worker are `..|abort|<cause>`
//!   (stack-overflow, SIGSEGV, ...);
//! * the documented consumption loop makes progress (`..|no-progress|..`);
//! * time: the supervisor cuts a reader call that has burnt more than the watchdog (2 CPU-seconds;
//!   CPU time, because wall-clock says nothing on a loaded machine; a call that burns no CPU is cut at
//!   20x) and reports `..|hang` only after three isolated reproductions (separate processes) each burnt
//!   10x the watchdog without returning; otherwise the case is inconclusive. A cut call during which
//!   the allocator saw a request > 1 GiB is an allocation finding, not a time verdict.
//!
//! Process structure: the process started by the driver is a *supervisor*; it re-executes itself as
//! a worker (env `C08_WORKER`) over chunks of the case schedule. The worker publishes
//! (position, case, mutation, reader, input length) in a progress file before every reader call and
//! a cumulative summary after every case, so that an abort or a hang is attributed exactly, nothing is
//! lost, and the case is resumed behind the fatal mutation. `C08_INPROC=1` runs everything in one
//! process (debugging).
//!
//! A case = one valid base input + N mutations (`c08mut.rs`), every mutation through the readers of
//! its format; sections `variant-exh` / `ipc-exh` sweep every position x {8 bit flips, 0x00, 0x7F,
//! 0x80, 0xFF} and every truncation length of small inputs. Replay: `--section S --case N`;
//! `C08_ONLY_MUT=k` / `C08_ONLY_READER=r` narrow it, `C08_DUMP_DIR=d` writes the offending input next
//! to the report, `C08_SELFTEST=..` sabotages a reader call (see `selftest_reader`).
//!
//! not asserted:
//! * which error is returned, or that a corrupted input is rejected at all (valid-but-different data is fine);
//! * the `unsafe` skip-validation paths of the IPC readers;
//! * content equality with the uncorrupted file;
//! * time of calls that return (only counted as `slow_calls`); hangs that burn no CPU are inconclusive;
//! * requests of the push decoders for byte ranges outside the file (answered with an I/O style error by
//!   the harness, as a real source would);
//! * base inputs the writers reject or that do not read back (`base_rejected*` counters): other properties;
//! * 16-byte alignment of `Interval(MonthDayNano)` buffers (vcore's validator asks more than the native
//!   type needs; such verdicts are dropped and counted as `validator_declined|mdn-alignment`).

use std::collections::BTreeMap;
use std::io::Write as _;
use std::sync::Arc;
use std::time::{Duration, Instant};

use arrow_array::RecordBatch;
use arrow_schema::SchemaRef;
use bytes::Bytes;
use vcore::mon::{Ctx, PanicInfo, guard, strip_digits};
use vcore::rng::{Rng, mix};
use vcore::validate;

use super::c04gen::{self, IpcKind, SeqCfg};
use super::c08gen as cg;
use super::c08mut::{self as mu, FK, Hints, Mutation, Thrift};
use super::c08rd::{self as rd, Got};
use super::pq_common as pq;

// ------------------------------------------------------------------ heap monitor

#[cfg(not(vsan))]
pub mod heap {
    use std::alloc::{GlobalAlloc, Layout, System};
    use std::cell::Cell;
    use std::sync::atomic::{AtomicU64, Ordering};

    /// single requests above this are refused (null => `handle_alloc_error` => abort)
    pub const MAX_SINGLE: usize = 8 << 30;
    /// live bytes of one thread above this are refused as well (protects the machine)
    pub const MAX_LIVE: isize = 24 << 30;

    thread_local! {
        static LIVE: Cell<isize> = const { Cell::new(0) };
        static PEAK: Cell<isize> = const { Cell::new(0) };
    }
    /// size of the last refused request (0 = none)
    pub static REFUSED: AtomicU64 = AtomicU64::new(0);
    /// raw fd of the worker's progress file (-1 = none): requests above 1 GiB are noted there, so that
    /// the supervisor knows about them even when it has to kill the worker in the middle of the call
    pub static PROG_FD: std::sync::atomic::AtomicI32 = std::sync::atomic::AtomicI32::new(-1);

    fn fmt_num(pre: &[u8], mut n: usize, buf: &mut [u8; 64]) -> usize {
        buf[..pre.len()].copy_from_slice(pre);
        let mut digits = [0u8; 20];
        let mut k = 0;
        loop {
            digits[k] = b'0' + (n % 10) as u8;
            n /= 10;
            k += 1;
            if n == 0 {
                break;
            }
        }
        let mut p = pre.len();
        while k > 0 {
            k -= 1;
            buf[p] = digits[k];
            p += 1;
        }
        buf[p] = b'\n';
        p + 1
    }

    fn note_big(size: usize) {
        let fd = PROG_FD.load(Ordering::Relaxed);
        if fd < 0 {
            return;
        }
        use std::os::unix::fs::FileExt;
        use std::os::unix::io::FromRawFd;
        let mut buf = [b' '; 64];
        let n = fmt_num(b"BIG=", size, &mut buf);
        let f = std::mem::ManuallyDrop::new(unsafe { std::fs::File::from_raw_fd(fd) });
        let _ = f.write_at(&buf[..n], 256);
    }

    pub struct Counting;

    #[inline]
    fn add(n: isize) {
        let _ = LIVE.try_with(|l| {
            let v = l.get() + n;
            l.set(v);
            if n > 0 {
                let _ = PEAK.try_with(|p| {
                    if v > p.get() {
                        p.set(v)
                    }
                });
            }
        });
    }

    fn refuse(size: usize) -> bool {
        let live = LIVE.try_with(|l| l.get()).unwrap_or(0);
        if size <= MAX_SINGLE && live.saturating_add(size as isize) <= MAX_LIVE {
            return false;
        }
        REFUSED.store(size as u64, Ordering::SeqCst);
        // no allocation here: format into a stack buffer
        let mut buf = [b' '; 64];
        let n = fmt_num(b"C08-ALLOC-REFUSED size=", size, &mut buf);
        use std::io::Write;
        let _ = std::io::stderr().write_all(&buf[..n]);
        true
    }

    unsafe impl GlobalAlloc for Counting {
        unsafe fn alloc(&self, l: Layout) -> *mut u8 {
            if l.size() > (1 << 28) && refuse(l.size()) {
                return std::ptr::null_mut();
            }
            if l.size() > (1 << 30) {
                note_big(l.size());
            }
            let p = unsafe { System.alloc(l) };
            if !p.is_null() {
                add(l.size() as isize);
            }
            p
        }
        unsafe fn alloc_zeroed(&self, l: Layout) -> *mut u8 {
            if l.size() > (1 << 28) && refuse(l.size()) {
                return std::ptr::null_mut();
            }
            if l.size() > (1 << 30) {
                note_big(l.size());
            }
            let p = unsafe { System.alloc_zeroed(l) };
            if !p.is_null() {
                add(l.size() as isize);
            }
            p
        }
        unsafe fn dealloc(&self, p: *mut u8, l: Layout) {
            unsafe { System.dealloc(p, l) };
            add(-(l.size() as isize));
        }
        unsafe fn realloc(&self, p: *mut u8, l: Layout, new: usize) -> *mut u8 {
            if new > (1 << 28) && new > l.size() && refuse(new) {
                return std::ptr::null_mut();
            }
            if new > (1 << 30) && new > l.size() {
                note_big(new);
            }
            let q = unsafe { System.realloc(p, l, new) };
            if !q.is_null() {
                add(new as isize - l.size() as isize);
            }
            q
        }
    }

    #[global_allocator]
    static A: Counting = Counting;

    /// start of a measurement: returns the live bytes of this thread and resets its peak
    pub fn mark() -> isize {
        REFUSED.store(0, Ordering::SeqCst);
        let v = LIVE.with(|l| l.get());
        PEAK.with(|p| p.set(v));
        v
    }
    pub fn peak_above(mark: isize) -> usize {
        (PEAK.with(|p| p.get()) - mark).max(0) as usize
    }
    pub fn refused() -> u64 {
        REFUSED.load(Ordering::SeqCst)
    }
    pub const ACTIVE: bool = true;
}

#[cfg(vsan)]
pub mod heap {
    pub fn mark() -> isize {
        0
    }
    pub fn peak_above(_: isize) -> usize {
        0
    }
    pub fn refused() -> u64 {
        0
    }
    pub static PROG_FD: std::sync::atomic::AtomicI32 = std::sync::atomic::AtomicI32::new(-1);
    pub const ACTIVE: bool = false;
}

const GIB: usize = 1 << 30;
const MIB: usize = 1 << 20;

// ------------------------------------------------------------------ signatures

/// first line, quoted text and digits removed, bounded
fn norm_msg(m: &str) -> String {
    let line = m.lines().next().unwrap_or("");
    let mut out = String::new();
    let mut in_q = false;
    let mut prev_bs = false;
    for c in line.chars() {
        if c == '"' && !prev_bs {
            in_q = !in_q;
            out.push(if in_q { '"' } else { '"' });
            if in_q {
                out.push_str("..");
            }
            prev_bs = false;
            continue;
        }
        prev_bs = c == '\\' && !prev_bs;
        if !in_q {
            out.push(c);
        }
    }
    // pointers / hex values: 0x55bd.. -> 0x#
    let mut dehex = String::with_capacity(out.len());
    let b: Vec<char> = out.chars().collect();
    let mut i = 0;
    while i < b.len() {
        if b[i] == '0' && i + 1 < b.len() && b[i + 1] == 'x' && i + 2 < b.len() && b[i + 2].is_ascii_hexdigit() {
            dehex.push_str("0x#");
            i += 2;
            while i < b.len() && b[i].is_ascii_hexdigit() {
                i += 1;
            }
        } else {
            dehex.push(b[i]);
            i += 1;
        }
    }
    let s = strip_digits(&dehex);
    s.chars().take(110).collect()
}

/// validator message -> rule: the `batch N` / `column N` / `slice(..)` / `[type]` prefixes and concrete types dropped
fn norm_rule(e: &str) -> String {
    let mut s = e.trim();
    loop {
        let before = s;
        s = s.trim_start_matches([' ', ':']);
        for kw in ["batch ", "column "] {
            if let Some(rest) = s.strip_prefix(kw) {
                let rest2 = rest.trim_start_matches(|c: char| c.is_ascii_digit());
                if rest2.len() < rest.len() {
                    s = rest2;
                }
            }
        }
        if let Some(rest) = s.strip_prefix("slice(") {
            if let Some(i) = rest.find(')') {
                s = &rest[i + 1..];
            }
        }
        if s.starts_with('[') {
            // (brackets inside quoted metadata / field names do not count)
            let mut depth = 0i32;
            let mut in_q = false;
            let mut esc = false;
            for (i, c) in s.char_indices() {
                if in_q {
                    if esc {
                        esc = false;
                    } else if c == '\\' {
                        esc = true;
                    } else if c == '"' {
                        in_q = false;
                    }
                    continue;
                }
                match c {
                    '"' => in_q = true,
                    '[' => depth += 1,
                    ']' => {
                        depth -= 1;
                        if depth == 0 {
                            s = &s[i + 1..];
                            break;
                        }
                    }
                    _ => {}
                }
            }
        }
        if s == before {
            break;
        }
    }
    // arrow-rs' own validate_full nests "<type> child #N invalid: <kind> error: ..." per level: keep the innermost message
    let inner;
    if let Some(rest) = s.strip_prefix("validate_full rejected:") {
        let last = rest.rsplit("error: ").next().unwrap_or(rest);
        inner = format!("validate_full rejected: {}", last.trim());
        s = &inner;
    }
    let mut r = norm_msg(s);
    for cut in [" has type ", " of type ", " data type ", " for type "] {
        if let Some(i) = r.find(cut) {
            r.truncate(i + cut.len());
            r.push_str("..");
        }
    }
    r
}

/// Decoding core used in signatures: every entry point that shares a decoding core is keyed alike, so
/// that one defect is ONE signature whichever entry point a seed happens to reach it through (the
/// witness text names the exact reader).
fn family(reader: &str) -> &'static str {
    match reader {
        // arrow-ipc message / record batch decoder (file, stream, schema bytes, Flight)
        "ipc-file" | "ipc-filedecoder" | "ipc-stream" | "ipc-decoder" | "ipc-schema" | "flight-stream" | "flight-utils" => "ipc",
        // thrift metadata, page reader, value decoders, arrow array readers
        "pq-meta" | "pq-metapush" | "pq-arrow" | "pq-push" | "pq-pages" | "pq-column" | "pq-rows" => "parquet",
        "avro-ocf" | "avro-soe" => "avro",
        "csv" | "csv-infer" => "csv",
        "json" | "json-infer" => "json",
        "variant" => "variant",
        _ => "other",
    }
}

fn panic_file(p: &PanicInfo) -> String {
    let f = p.file();
    let f = if let Some(i) = f.find("/registry/src/") {
        let rest = &f[i + "/registry/src/".len()..];
        rest.split_once('/').map(|x| x.1).unwrap_or(rest).to_string()
    } else if let Some(i) = f.find("/library/") {
        f[i + 1..].to_string()
    } else {
        f
    };
    strip_digits(&f)
}

// ------------------------------------------------------------------ worker state

struct Wk<'a> {
    ctx: &'a mut Ctx,
    prog: Option<std::fs::File>,
    pos: usize,
    section: &'static str,
    case: u64,
    only_mut: Option<usize>,
    /// (schedule position, k): at that position skip the mutations up to and including k (the
    /// supervisor resumes a case behind the mutation that killed the previous worker)
    resume: Option<(usize, usize)>,
    only_reader: Option<String>,
    dump_dir: Option<String>,
    slow_s: f64,
    /// oracle self-test (env `C08_SELFTEST`): sabotage the reader call of mutation #2 of every case
    selftest: Option<String>,
    /// reader and message of the last Err / panic / invalid outcome (base rejection evidence)
    last_bad: String,
}

/// Oracle self-test: what the monitors must catch when a reader misbehaves. `how` =
/// `panic` | `invalid` (an array with out-of-range offsets built through the unsafe unchecked path) |
/// `schema` (batch with other fields than announced) | `alloc` (2 GiB) | `alloc9` (one 9 GiB request) |
/// `overflow` (unbounded recursion) | `hang` (spins forever) | `sleep-hang` (blocks forever) | `slow` (3 s).
fn selftest_reader(how: &str, f: impl FnOnce() -> Result<Got, String>) -> Result<Got, String> {
    use arrow_array::{ArrayRef, Int32Array, make_array};
    use arrow_buffer::Buffer;
    use arrow_data::ArrayData;
    use arrow_schema::{DataType, Field, Schema};
    match how {
        "panic" => panic!("index out of bounds: the len is 3 but the index is 7 (selftest)"),
        "invalid" => {
            let offsets = Buffer::from_slice_ref([0i32, 5, 3, 900]);
            let values = Buffer::from_slice_ref(b"abcdefgh");
            let d = unsafe { ArrayData::builder(DataType::Utf8).len(3).add_buffer(offsets).add_buffer(values).build_unchecked() };
            let a: ArrayRef = make_array(d);
            let schema = Arc::new(Schema::new(vec![Field::new("x", DataType::Utf8, true)]));
            let b = unsafe { RecordBatch::new_unchecked(schema.clone(), vec![a], 3) };
            Ok(Got { schema: Some(schema), batches: vec![b], ..Default::default() })
        }
        "schema" => {
            let announced = Arc::new(Schema::new(vec![Field::new("x", DataType::Int32, false)]));
            let actual = Arc::new(Schema::new(vec![Field::new("x", DataType::Int32, true)]));
            let b = RecordBatch::try_new(actual, vec![Arc::new(Int32Array::from(vec![1, 2, 3]))]).unwrap();
            Ok(Got { schema: Some(announced), batches: vec![b], ..Default::default() })
        }
        "alloc" => {
            let v: Vec<u8> = Vec::with_capacity(2 * GIB);
            std::hint::black_box(&v);
            drop(v);
            f()
        }
        "alloc9" => {
            let v: Vec<u8> = Vec::with_capacity(9 * GIB);
            std::hint::black_box(&v);
            f()
        }
        "overflow" => {
            fn rec(n: u64) -> u64 {
                let pad = [n; 64];
                if n == u64::MAX { 0 } else { std::hint::black_box(pad)[7] + rec(n + 1) }
            }
            Err(format!("{}", rec(0)))
        }
        "hang" => loop {
            std::hint::spin_loop();
        },
        "sleep-hang" => loop {
            std::thread::sleep(Duration::from_millis(50));
        },
        "slow" => {
            std::thread::sleep(Duration::from_secs(3));
            f()
        }
        _ => f(),
    }
}

/// the input under test
struct Cur<'a> {
    fmt: &'static str,
    /// mutation index, `usize::MAX` = the unmutated base
    k: usize,
    mutator: &'a str,
    mdesc: &'a str,
    base_desc: &'a str,
    input: &'a [u8],
}

#[derive(Clone, Copy, PartialEq, Eq, Debug)]
enum Out {
    Ok,
    OkEmpty,
    Err,
    Panic,
    Invalid,
    Skipped,
}

impl Out {
    fn name(&self) -> &'static str {
        match self {
            Out::Ok => "ok",
            Out::OkEmpty => "ok-empty",
            Out::Err => "err",
            Out::Panic => "panic",
            Out::Invalid => "invalid",
            Out::Skipped => "skipped",
        }
    }
    fn is_ok(&self) -> bool {
        matches!(self, Out::Ok | Out::OkEmpty)
    }
}

impl Wk<'_> {
    fn progress(&self, phase: &str, k: usize, reader: &str) {
        self.progress_len(phase, k, reader, 0)
    }

    /// line 1: where the worker is; line 2 (offset 256): cleared here, written by the allocator
    fn progress_len(&self, phase: &str, k: usize, reader: &str, input_len: usize) {
        if let Some(f) = &self.prog {
            use std::os::unix::fs::FileExt;
            let mut s = format!("pos={} section={} case={} mut={} reader={} phase={} len={}", self.pos, self.section, self.case, k as i64, reader, phase, input_len);
            s.truncate(250);
            while s.len() < 255 {
                s.push(' ');
            }
            s.push('\n');
            while s.len() < 319 {
                s.push(' ');
            }
            s.push('\n');
            let _ = f.write_at(s.as_bytes(), 0);
        }
    }

    fn detail(&self, cur: &Cur, reader: &str, what: &str) -> String {
        let mut s = format!(
            "{what}\nformat={} reader={reader} mutation#{} [{}] {}\ninput: {} bytes\nbase: {}\nreplay: --section {} --case {}{}\n",
            cur.fmt,
            cur.k as i64,
            cur.mutator,
            cur.mdesc,
            cur.input.len(),
            cur.base_desc.chars().take(1500).collect::<String>(),
            self.section,
            self.case,
            if cur.k == usize::MAX { String::new() } else { format!("  (env C08_ONLY_MUT={} C08_ONLY_READER={reader})", cur.k) }
        );
        if cur.input.len() <= 320 {
            s.push_str("input hex: ");
            for b in cur.input {
                s.push_str(&format!("{b:02x}"));
            }
            s.push('\n');
        }
        if let Some(d) = &self.dump_dir {
            let p = format!("{d}/{}-{}-{}-{reader}.bin", self.section, self.case, cur.k as i64);
            if std::fs::write(&p, cur.input).is_ok() {
                s.push_str(&format!("input written to {p}\n"));
            }
        }
        s
    }

    /// One reader call under all monitors.
    fn observe(&mut self, cur: &Cur, reader: &'static str, f: impl FnOnce() -> Result<Got, String>) -> Out {
        if let Some(r) = &self.only_reader {
            if r != reader {
                return Out::Skipped;
            }
        }
        self.progress_len("read", cur.k, reader, cur.input.len());
        self.ctx.count("reader_calls", 1);
        let sabotage = if cur.k == 2 { self.selftest.clone() } else { None };
        let mark = heap::mark();
        let t0 = Instant::now();
        let res = guard(|| match sabotage.as_deref() {
            None => f(),
            Some(how) => selftest_reader(how, f),
        });
        let dt = t0.elapsed().as_secs_f64();
        let peak = heap::peak_above(mark);
        if dt > self.slow_s {
            self.ctx.count("slow_calls", 1);
            self.ctx.count(&format!("slow_calls|{reader}"), 1);
        }
        let mut out = match res {
            Err(p) => {
                let own = p.loc.starts_with("vfull/src/") || p.loc.starts_with("vcore/src/") || p.loc.contains("/harness/");
                if p.is_model() || (own && !p.msg.contains("(selftest)")) {
                    self.ctx.inconclusive(&format!("harness panic in {reader}: {} @ {}", p.msg, p.loc));
                } else {
                    // keyed on the decoding core and the SOURCE FILE of the panic: the set of
                    // (file, message) pairs kept growing by about one per fresh seed, the set of
                    // panicking files does not; the message stays in the witness text
                    let sig = format!("C08|{}|panic|{}", family(reader), panic_file(&p));
                    let d = self.detail(cur, reader, &format!("reader panicked: {} @ {}", p.msg, p.loc));
                    self.ctx.violation(&sig, d);
                }
                Out::Panic
            }
            Ok(Err(e)) => {
                if let Some(rule) = e.strip_prefix("INVALID: ") {
                    let sig = format!("C08|{}|invalid|{}", family(reader), norm_rule(rule));
                    let d = self.detail(cur, reader, &format!("reader returned Ok with invalid content: {rule}"));
                    self.ctx.violation(&sig, d);
                    Out::Invalid
                } else if let Some(what) = e.strip_prefix("NOPROGRESS: ") {
                    let sig = format!("C08|{}|no-progress|{}", family(reader), norm_msg(what));
                    let d = self.detail(cur, reader, &format!("the documented consumption loop does not terminate: {what}"));
                    self.ctx.violation(&sig, d);
                    Out::Invalid
                } else {
                    if self.ctx.verbose {
                        eprintln!("  mut#{} {reader}: Err {}", cur.k as i64, e.chars().take(160).collect::<String>());
                    }
                    self.last_bad = format!("{reader}: {e}");
                    Out::Err
                }
            }
            Ok(Ok(got)) => self.validate(cur, reader, got),
        };
        if heap::ACTIVE {
            let refused = heap::refused();
            if refused > 0 {
                let sig = format!("C08|{}|alloc|single-request>8GiB", family(reader));
                let d = self.detail(cur, reader, &format!("the reader requested {refused} bytes in one allocation (refused by the monitor; outcome {})", out.name()));
                self.ctx.violation(&sig, d);
                out = Out::Invalid;
            } else if peak > GIB && cur.input.len() <= MIB {
                let sig = format!("C08|{}|alloc|peak>1GiB", family(reader));
                let d = self.detail(cur, reader, &format!("peak additional heap {peak} bytes for an input of {} bytes (outcome {})", cur.input.len(), out.name()));
                self.ctx.violation(&sig, d);
                out = Out::Invalid;
            } else if peak > 64 * MIB {
                self.ctx.count("calls_peak_over_64MiB", 1);
            }
        }
        if matches!(out, Out::Panic | Out::Invalid) {
            self.last_bad = format!("{reader}: {} (reported)", out.name());
        }
        if self.ctx.verbose && out != Out::Err {
            eprintln!("  mut#{} {reader}: {} ({:.1} ms, peak {} KiB)", cur.k as i64, out.name(), dt * 1e3, peak / 1024);
        }
        self.ctx.eval();
        self.ctx.count(&format!("outcome|{}|{reader}|{}", cur.fmt, out.name()), 1);
        if cur.k != usize::MAX {
            self.ctx.class(format!("{}|{reader}|{}|{}", cur.fmt, cur.mutator, out.name()));
        }
        out
    }

    fn validate(&mut self, cur: &Cur, reader: &'static str, got: Got) -> Out {
        let nb = got.batches.len();
        let rows: usize = got.batches.iter().map(|b| b.num_rows().min(1 << 20)).sum();
        self.ctx.count("ok_results_validated", 1);
        self.ctx.count("batches_validated", nb as u64);
        self.ctx.count("rows_validated", rows as u64);
        self.ctx.count("items_traversed", got.items);
        // bounded: the first 48 and the last 8 batches
        let idx: Vec<usize> = (0..nb).filter(|i| *i < 48 || *i + 8 >= nb).collect();
        self.progress("validate", cur.k, reader);
        let schema = got.schema.clone();
        let declined = std::cell::Cell::new(0u64);
        let r = guard(|| -> Result<(), String> {
            for i in &idx {
                let b = &got.batches[*i];
                if let Some(s) = &schema {
                    if s.fields() != b.schema().fields() {
                        return Err(format!("batch {i} carries fields different from the schema announced by the reader: batch {:?} reader {:?}", b.schema().fields(), s.fields()));
                    }
                }
                if let Err(e) = validate::check_batch(b) {
                    // vcore's validator only looks at the direct parent of a non-nullable struct field; a null
                    // below a null GRANDparent is legal. Re-check with all struct ancestors before reporting.
                    if e.contains("non-nullable field") && e.contains("has a null at child index") && !b.columns().iter().any(|c| nonnull_struct_violation(c.as_ref(), None)) {
                        declined.set(declined.get() + 1);
                    } else {
                        return Err(format!("batch {i}: {e}"));
                    }
                }
                for (c, col) in b.columns().iter().enumerate() {
                    if let Err(e) = validate::exercise(col) {
                        if e.contains("non-nullable field") && e.contains("has a null at child index") && !nonnull_struct_violation(col.as_ref(), None) {
                            declined.set(declined.get() + 1);
                        } else {
                            return Err(format!("batch {i} column {c} [{}]: {e}", col.data_type()));
                        }
                    }
                }
            }
            for a in &got.arrays {
                validate::check_and_exercise(a)?;
            }
            Ok(())
        });
        if declined.get() > 0 {
            self.ctx.count("validator_declined|nested-non-nullable-struct", declined.get());
        }
        match r {
            Ok(Ok(())) => {
                if rows == 0 && got.items == 0 {
                    Out::OkEmpty
                } else {
                    Out::Ok
                }
            }
            Ok(Err(e)) if e.contains("[Interval(MonthDayNano)] values: buffer pointer") && e.contains("not aligned to 16") => {
                // vcore's validator asks 16-byte alignment for MonthDayNano, whose native type
                // (`IntervalMonthDayNano`, repr(C) {i32, i32, i64}) only needs 8: not a finding
                self.ctx.count("validator_declined|mdn-alignment", 1);
                Out::Ok
            }
            Ok(Err(e)) => {
                let rule = if e.contains("carries fields different") { "batch carries fields different from the schema announced by the reader".to_string() } else { norm_rule(&e) };
                let sig = format!("C08|{}|invalid|{rule}", family(reader));
                let d = self.detail(cur, reader, &format!("reader returned Ok but the result is not valid: {}", e.chars().take(1500).collect::<String>()));
                self.ctx.violation(&sig, d);
                Out::Invalid
            }
            Err(p) => {
                if p.msg.starts_with("model:") {
                    self.ctx.inconclusive(&format!("validator: {} @ {}", p.msg, p.loc));
                    return Out::Ok;
                }
                let sig = format!("C08|{}|invalid-panic|{}", family(reader), panic_file(&p));
                let d = self.detail(cur, reader, &format!("reader returned Ok but validating / reading the returned arrays panicked: {} @ {}", p.msg, p.loc));
                self.ctx.violation(&sig, d);
                Out::Invalid
            }
        }
    }

    fn base_rejected(&mut self, fmt: &str, why: &str) {
        self.ctx.reject();
        self.ctx.count(&format!("base_rejected|{fmt}|{}", norm_msg(why).chars().take(100).collect::<String>()), 1);
        if self.ctx.verbose {
            eprintln!("base rejected ({fmt}): {why}");
        }
    }
}

/// Some non-nullable struct field holds a null at a row where ALL enclosing structs are valid.
/// (List-like children are indexed differently: the walk restarts below them.)
fn nonnull_struct_violation(a: &dyn arrow_array::Array, anc: Option<&arrow_buffer::NullBuffer>) -> bool {
    use arrow_array::Array;
    use arrow_array::cast::AsArray;
    use arrow_buffer::NullBuffer;
    use arrow_schema::DataType;
    match a.data_type() {
        DataType::Struct(fields) => {
            let st = a.as_struct();
            let valid = NullBuffer::union(anc, st.nulls());
            for (f, c) in fields.iter().zip(st.columns()) {
                if !f.is_nullable() {
                    if let Some(cn) = c.nulls() {
                        for i in 0..c.len() {
                            if cn.is_null(i) && valid.as_ref().is_none_or(|v| v.is_valid(i)) {
                                return true;
                            }
                        }
                    }
                }
                if nonnull_struct_violation(c.as_ref(), valid.as_ref()) {
                    return true;
                }
            }
            false
        }
        DataType::List(_) => nonnull_struct_violation(a.as_list::<i32>().values().as_ref(), None),
        DataType::LargeList(_) => nonnull_struct_violation(a.as_list::<i64>().values().as_ref(), None),
        DataType::ListView(_) => nonnull_struct_violation(a.as_list_view::<i32>().values().as_ref(), None),
        DataType::LargeListView(_) => nonnull_struct_violation(a.as_list_view::<i64>().values().as_ref(), None),
        DataType::FixedSizeList(_, _) => nonnull_struct_violation(a.as_fixed_size_list().values().as_ref(), None),
        DataType::Map(_, _) => nonnull_struct_violation(a.as_map().entries(), None),
        _ => false,
    }
}

fn mutation_rng(mseed: u64, k: usize) -> Rng {
    Rng::new(mix(mseed, k as u64))
}

fn proj_for(rng: &mut Rng, ncols: usize) -> Option<Vec<usize>> {
    if ncols == 0 || !rng.chance(1, 3) {
        return None;
    }
    let mut v: Vec<usize> = (0..ncols).filter(|_| rng.bool()).collect();
    if v.is_empty() {
        v.push(rng.below(ncols));
    }
    Some(v)
}

/// generation under the panic monitor: `Err(reason)` = no base
fn gen_guard<T>(f: impl FnOnce() -> Result<T, String>) -> Result<T, String> {
    match guard(f) {
        Ok(r) => r,
        Err(p) => Err(format!("generator panicked: {} @ {}", p.msg, p.loc)),
    }
}

// ------------------------------------------------------------------ IPC

fn ipc_cfg(rng: &mut Rng) -> SeqCfg {
    let mut c = SeqCfg::ipc();
    c.max_rows = 40;
    c.max_batches = 3;
    c.max_cols = 3;
    c.dict_focus = rng.chance(1, 4);
    c.flat = rng.chance(1, 4);
    c
}

fn ipc_readers(w: &mut Wk, cur: &Cur, rng: &mut Rng, file: bool, ncols: usize) -> Vec<Out> {
    let b = cur.input;
    let mut outs = vec![];
    if file {
        let (mode, proj) = (rng.below(3) as u8, proj_for(rng, ncols));
        outs.push(w.observe(cur, "ipc-file", || rd::ipc_file(b, mode, proj)));
        let align = cur.k != usize::MAX && rng.chance(1, 4);
        outs.push(w.observe(cur, "ipc-filedecoder", || rd::ipc_filedecoder(b, align)));
        // the file embeds the stream format after the 8 byte magic
        if b.len() > 8 && (cur.k == usize::MAX || rng.chance(1, 3)) {
            let chunk = *rng.pick(&[0usize, 0, 1, 7, 64]);
            outs.push(w.observe(cur, "ipc-decoder", || rd::ipc_decoder(&b[8..], chunk, false)));
        }
    } else {
        let (buffered, proj) = (rng.bool(), proj_for(rng, ncols));
        outs.push(w.observe(cur, "ipc-stream", || rd::ipc_stream(b, buffered, proj)));
        // (the base is decoded in one piece without the alignment requirement)
        let chunk = if cur.k == usize::MAX { 0 } else { *rng.pick(&[0usize, 0, 1, 3, 8, 64, 1000]) };
        let align = cur.k != usize::MAX && rng.chance(1, 4);
        outs.push(w.observe(cur, "ipc-decoder", || rd::ipc_decoder(b, chunk, align)));
    }
    outs
}

fn case_ipc(w: &mut Wk, rng: &mut Rng, file: bool, n_mut: usize) {
    let fmt = if file { "ipc-file" } else { "ipc-stream" };
    w.progress("gen", 0, "-");
    let kind = if file {
        IpcKind::File
    } else if rng.bool() {
        IpcKind::Stream
    } else {
        IpcKind::StreamEncoder
    };
    let made = gen_guard(|| {
        let cfg = ipc_cfg(rng);
        let (seq, wo, bytes) = c04gen::gen_ipc_bytes(rng, &cfg, kind);
        let bytes = bytes.ok_or_else(|| "writer rejected the sequence".to_string())?;
        let other = if rng.chance(1, 3) { c04gen::gen_ipc_bytes(rng, &cfg, kind).2 } else { None };
        Ok((seq, wo, bytes, other))
    });
    let (seq, wo, bytes, other) = match made {
        Ok(x) => x,
        Err(e) => return w.base_rejected(fmt, &e),
    };
    let mseed = rng.u64();
    let hints = if file { mu::ipc_file_hints(&bytes) } else { mu::ipc_stream_hints(&bytes, 0) };
    let base_desc = format!("{} writer={} opts={} {} bytes, {} located fields; {}", kind.name(), kind.name(), wo.class(), bytes.len(), hints.fields.len(), seq.describe());
    let ncols = seq.schema.fields().len();
    w.ctx.count("located_fields", hints.fields.len() as u64);
    // base sanity
    let cur = Cur { fmt, k: usize::MAX, mutator: "none", mdesc: "unmutated base", base_desc: &base_desc, input: &bytes };
    let outs = ipc_readers(w, &cur, &mut Rng::new(mseed), file, ncols);
    // (the stream decoder over the body of a FILE sees the footer after the end-of-stream marker: not required)
    if !outs.iter().take(2).all(|o| o.is_ok() || *o == Out::Skipped) {
        {
            let why = format!("base not accepted by {}", w.last_bad);
            return w.base_rejected(fmt, &why);
        }
    }
    w.ctx.count(&format!("bases|{fmt}"), 1);
    w.ctx.sample(|| base_desc.clone());
    for k in 0..n_mut {
        if w.only_mut.is_some_and(|m| m != k) || w.resume.is_some_and(|(p, upto)| p == w.pos && k <= upto) {
            continue;
        }
        if w.ctx.out_of_time() {
            break;
        }
        let mut r = mutation_rng(mseed, k);
        let m = mu::mutate(&mut r, &bytes, other.as_deref(), &hints, 6);
        if m.bytes == bytes {
            w.ctx.count("noop_mutations", 1);
            continue;
        }
        w.ctx.count(&format!("inputs|{fmt}"), 1);
        let cur = Cur { fmt, k, mutator: &m.name, mdesc: &m.desc, base_desc: &base_desc, input: &m.bytes };
        ipc_readers(w, &cur, &mut r, file, ncols);
    }
}

// ------------------------------------------------------------------ Flight

fn flight_encode(rng: &mut Rng) -> Result<(rd::FlightMsgs, String), String> {
    use arrow_flight::encode::{DictionaryHandling, FlightDataEncoderBuilder};
    use arrow_flight::error::FlightError;
    use futures::StreamExt;
    let mut cfg = ipc_cfg(rng);
    cfg.zero_col = false;
    let seq = c04gen::gen_sequence(rng, &cfg);
    let wo = c04gen::gen_write_opts(rng);
    let o = wo.to_ipc().map_err(|e| e.to_string())?;
    let via_utils = rng.chance(1, 3);
    let data = if via_utils {
        arrow_flight::utils::batches_to_flight_data(&seq.schema, seq.batches.clone()).map_err(|e| e.to_string())?
    } else {
        let max = *rng.pick(&[64usize, 512, 2 * 1024 * 1024]);
        let resend = rng.bool();
        let mut enc = FlightDataEncoderBuilder::new()
            .with_options(o)
            .with_max_flight_data_size(max)
            .with_dictionary_handling(if resend { DictionaryHandling::Resend } else { DictionaryHandling::Hydrate })
            .with_schema(seq.schema.clone())
            .build(futures::stream::iter(seq.batches.clone().into_iter().map(Ok::<_, FlightError>)));
        let mut v = vec![];
        while let Some(x) = futures::executor::block_on(enc.next()) {
            v.push(x.map_err(|e| e.to_string())?);
        }
        v
    };
    let msgs: rd::FlightMsgs = data.into_iter().map(|d| (d.data_header.to_vec(), d.data_body.to_vec())).collect();
    Ok((msgs, format!("flight via={} opts={} {} messages; {}", if via_utils { "batches_to_flight_data" } else { "FlightDataEncoder" }, wo.class(), 0, seq.describe())))
}

fn flight_flat(msgs: &rd::FlightMsgs) -> Vec<u8> {
    let mut v = vec![];
    for (h, b) in msgs {
        v.extend_from_slice(&(h.len() as u32).to_le_bytes());
        v.extend_from_slice(h);
        v.extend_from_slice(&(b.len() as u32).to_le_bytes());
        v.extend_from_slice(b);
    }
    v
}

fn flight_readers(w: &mut Wk, cur: &Cur, msgs: &rd::FlightMsgs) -> Vec<Out> {
    let mut outs = vec![w.observe(cur, "flight-stream", || rd::flight_stream(msgs)), w.observe(cur, "flight-utils", || rd::flight_utils(msgs))];
    if let Some((h, _)) = msgs.first() {
        outs.push(w.observe(cur, "ipc-schema", || rd::ipc_schema_bytes(h)));
    }
    outs
}

fn case_flight(w: &mut Wk, rng: &mut Rng, n_mut: usize) {
    let fmt = "flight";
    w.progress("gen", 0, "-");
    let (msgs, base_desc) = match gen_guard(|| flight_encode(rng)) {
        Ok(x) => x,
        Err(e) => return w.base_rejected(fmt, &e),
    };
    if msgs.is_empty() {
        return w.base_rejected(fmt, "no messages");
    }
    let mseed = rng.u64();
    let flat = flight_flat(&msgs);
    let cur = Cur { fmt, k: usize::MAX, mutator: "none", mdesc: "unmutated base", base_desc: &base_desc, input: &flat };
    let outs = flight_readers(w, &cur, &msgs);
    // (flight_data_to_batches documents that it handles schema + record batch messages only)
    if !outs.iter().take(1).all(|o| o.is_ok() || *o == Out::Skipped) {
        {
            let why = format!("base not accepted by {}", w.last_bad);
            return w.base_rejected(fmt, &why);
        }
    }
    w.ctx.count("bases|flight", 1);
    w.ctx.sample(|| base_desc.clone());
    let hdr_hints: Vec<Hints> = msgs.iter().map(|(h, _)| mu::ipc_message_hints(h)).collect();
    for k in 0..n_mut {
        if w.only_mut.is_some_and(|m| m != k) || w.resume.is_some_and(|(p, upto)| p == w.pos && k <= upto) {
            continue;
        }
        if w.ctx.out_of_time() {
            break;
        }
        let mut r = mutation_rng(mseed, k);
        let mut mm = msgs.clone();
        let i = r.below(mm.len());
        let (name, desc) = match r.below(10) {
            // message level
            0 => {
                mm.remove(i);
                ("msg-drop".to_string(), format!("drop message {i}"))
            }
            1 => {
                let m = mm[i].clone();
                let at = r.below(mm.len() + 1);
                mm.insert(at, m);
                ("msg-dup".to_string(), format!("duplicate message {i} at {at}"))
            }
            2 if mm.len() > 1 => {
                let j = (i + 1 + r.below(mm.len() - 1)) % mm.len();
                if r.bool() {
                    mm.swap(i, j);
                    ("msg-swap".to_string(), format!("swap messages {i} and {j}"))
                } else {
                    mm[i].1 = msgs[j].1.clone();
                    ("msg-body-of".to_string(), format!("message {i} gets the body of message {j}"))
                }
            }
            // body
            3 | 4 if !mm[i].1.is_empty() => {
                let mut h = Hints::default();
                mu::ipc_body_hints(&msgs[i].0, 0, msgs[i].1.len(), &mut h);
                let m = mu::mutate(&mut r, &msgs[i].1, None, &h, 5);
                mm[i].1 = m.bytes;
                (format!("body:{}", m.name), format!("message {i} body: {}", m.desc))
            }
            // header flatbuffer
            _ => {
                let other = msgs.get((i + 1) % msgs.len()).map(|m| m.0.as_slice());
                let m = mu::mutate(&mut r, &msgs[i].0, other, &hdr_hints[i], 7);
                mm[i].0 = m.bytes;
                (format!("hdr:{}", m.name), format!("message {i} header: {}", m.desc))
            }
        };
        if mm == msgs {
            w.ctx.count("noop_mutations", 1);
            continue;
        }
        w.ctx.count("inputs|flight", 1);
        let flat = flight_flat(&mm);
        let cur = Cur { fmt, k, mutator: &name, mdesc: &desc, base_desc: &base_desc, input: &flat };
        flight_readers(w, &cur, &mm);
    }
}

// ------------------------------------------------------------------ Parquet

fn pq_hints(b: &[u8], md: &parquet::file::metadata::ParquetMetaData) -> Hints {
    let n = b.len();
    let mut h = Hints::default();
    if n < 12 {
        return h;
    }
    h.region(0, 4, "pq-magic");
    h.region(n - 8, n, "pq-trailer");
    h.field(n - 8, FK::U32, "pq-footer-len");
    let flen = u32::from_le_bytes(b[n - 8..n - 4].try_into().unwrap()) as usize;
    if flen + 8 <= n {
        let mut t = Thrift::new(&b[..n - 8], n - 8 - flen, "footer");
        let _ = t.walk_struct();
        h.merge(t.hints);
    }
    let mut pages = 0;
    for rg in md.row_groups() {
        for c in rg.columns() {
            let (start, len) = c.byte_range();
            let (start, end) = (start as usize, (start + len) as usize);
            if end > n {
                continue;
            }
            h.region(start, end, "pq-chunk");
            let mut p = start;
            while p < end && pages < 3000 {
                pages += 1;
                let mut t = Thrift::new(&b[..end], p, "pagehdr");
                let Some(top) = t.walk_struct() else { break };
                let body = t.pos;
                h.merge(t.hints);
                let Some(csize) = top.iter().find(|(id, _)| *id == 3).map(|x| x.1) else { break };
                if csize < 0 || body + csize as usize > end {
                    break;
                }
                let e = body + csize as usize;
                h.region(body, e, "pq-page-body");
                if csize >= 4 {
                    h.field(body, FK::U32, "pq-page-body:first4");
                    h.field(body, FK::U8, "pq-page-body:first1");
                    h.field(body, FK::VarU, "pq-page-body:first-varint");
                }
                p = e;
            }
            for (off, len, lab) in [
                (c.column_index_offset(), c.column_index_length(), "colindex"),
                (c.offset_index_offset(), c.offset_index_length(), "offindex"),
                (c.bloom_filter_offset(), c.bloom_filter_length(), "bloomhdr"),
            ] {
                if let Some(o) = off {
                    let o = o as usize;
                    let e = len.map(|l| o + l as usize).unwrap_or(n - 8).min(n - 8);
                    if o < e {
                        let mut t = Thrift::new(&b[..e], o, lab);
                        let _ = t.walk_struct();
                        h.merge(t.hints);
                    }
                }
            }
        }
    }
    h
}

fn pq_opts(rng: &mut Rng, rows: usize) -> rd::PqOpts {
    rd::PqOpts {
        policy: rng.below(3) as u8,
        skip_arrow_md: rng.chance(1, 4),
        batch_size: *rng.pick(&[1usize, 3, 64, 1024, rows.max(1), rows + 1]),
        leaves: if rng.chance(1, 4) { Some((0..1 + rng.below(3)).map(|_| rng.below(64)).collect()) } else { None },
        selection: if rng.chance(1, 5) { Some((0..1 + rng.below(6)).map(|i| (i % 2 == 0, rng.below(rows / 2 + 3))).collect()) } else { None },
        limit: if rng.chance(1, 8) { Some(rng.below(rows + 2)) } else { None },
        offset: if rng.chance(1, 8) { Some(rng.below(rows + 2)) } else { None },
    }
}

fn pq_readers(w: &mut Wk, cur: &Cur, rng: &mut Rng, bytes: &Bytes, rows: usize, all: bool) -> Vec<Out> {
    let mut outs = vec![];
    // on the base: options every valid file satisfies (no page index required)
    let pol = if all { 1 } else { rng.below(3) as u8 };
    outs.push(w.observe(cur, "pq-meta", || rd::pq_meta(bytes, pol)));
    let o = if all { rd::PqOpts { policy: 1, skip_arrow_md: false, batch_size: 64, leaves: None, selection: None, limit: None, offset: None } } else { pq_opts(rng, rows) };
    outs.push(w.observe(cur, "pq-arrow", || rd::pq_arrow(bytes, &o)));
    // two of the remaining five per input (all of them on the base)
    let mut rest = [0usize, 1, 2, 3, 4];
    rng.shuffle(&mut rest);
    let take = if all { 5 } else { 2 };
    for which in rest.iter().take(take) {
        let bs = *rng.pick(&[1usize, 7, 1024]);
        let (a, b2) = (rng.bool(), rng.bool());
        let pidx = a && !all;
        outs.push(match which {
            0 => w.observe(cur, "pq-metapush", || rd::pq_metapush(bytes, pol, a)),
            1 => w.observe(cur, "pq-pages", || rd::pq_pages(bytes, pidx, b2)),
            2 => w.observe(cur, "pq-column", || rd::pq_column(bytes, bs)),
            3 => w.observe(cur, "pq-rows", || rd::pq_rows(bytes)),
            _ => w.observe(cur, "pq-push", || rd::pq_push(bytes, bs)),
        });
    }
    outs
}

fn pq_write_cfg(rng: &mut Rng) -> pq::WriteCfg {
    let mut c = pq::WriteCfg::standard();
    c.gen_cfg.max_rows = if rng.chance(1, 6) { 300 } else { 60 };
    c.gen_cfg.max_cols = 3;
    c.gen_cfg.keep_unsupported = (0, 1);
    c.props.lzo = false;
    if rng.chance(3, 4) {
        c.mode = Some(pq::WriteMode::Serial);
    }
    if rng.chance(1, 5) {
        c.gen_cfg = pq::GenCfg::flat_long();
        c.gen_cfg.max_rows = 1500;
    }
    c
}

fn pq_base(rng: &mut Rng) -> Result<pq::Written, String> {
    let cfg = pq_write_cfg(rng);
    let f = pq::write_file(rng, &cfg).map_err(|e| format!("write@{}: {}", e.stage, e.msg))?;
    // own full read-and-compare: files whose plain round trip fails belong to C05
    let rc = pq::ReadCfg { batch_size: 1024, page_index: PageIndexPolicyAlias::Skip };
    match pq::read_file(&f.bytes, &rc) {
        pq::ReadOutcome::Ok(schema, batches) => {
            pq::compare_schema(&f.schema, &schema, f.props.coerce_types).map_err(|d| format!("round trip schema differs: {}", d.what))?;
            match pq::compare_rows(&f.expected_schema, &f.logical.cols, &batches) {
                Ok(Ok(())) => Ok(f),
                Ok(Err(d)) => Err(format!("round trip rows differ: {}", d.kind)),
                Err(p) => Err(format!("round trip compare panicked: {}", p.msg)),
            }
        }
        pq::ReadOutcome::Err(st, m) => Err(format!("round trip read failed at {st}: {m}")),
        pq::ReadOutcome::Panic(p) => Err(format!("round trip read panicked: {}", p.msg)),
    }
}
use parquet::file::metadata::PageIndexPolicy as PageIndexPolicyAlias;

fn case_parquet(w: &mut Wk, rng: &mut Rng, n_mut: usize) {
    let fmt = "parquet";
    w.progress("gen", 0, "-");
    let f = match gen_guard(|| pq_base(rng)) {
        Ok(f) => f,
        Err(e) => return w.base_rejected(fmt, &e),
    };
    let other: Option<Bytes> = if rng.chance(1, 4) { gen_guard(|| pq_base(rng)).ok().map(|f| f.bytes) } else { None };
    let mseed = rng.u64();
    let hints = pq_hints(&f.bytes, &f.metadata);
    let rows = f.logical.rows;
    let base_desc = format!("{} bytes, {} located fields, {} regions; {}", f.bytes.len(), hints.fields.len(), hints.regions.len(), f.desc);
    w.ctx.count("located_fields", hints.fields.len() as u64);
    let cur = Cur { fmt, k: usize::MAX, mutator: "none", mdesc: "unmutated base", base_desc: &base_desc, input: &f.bytes };
    let outs = pq_readers(w, &cur, &mut Rng::new(mseed), &f.bytes, rows, true);
    if !outs.iter().all(|o| o.is_ok() || *o == Out::Skipped) {
        {
            let why = format!("base not accepted by {}", w.last_bad);
            return w.base_rejected(fmt, &why);
        }
    }
    w.ctx.count("bases|parquet", 1);
    w.ctx.count(&format!("bases|parquet|{}|v{}", f.props.compression.chars().take(12).collect::<String>(), if f.props.version2 { 2 } else { 1 }), 1);
    w.ctx.sample(|| base_desc.clone());
    for k in 0..n_mut {
        if w.only_mut.is_some_and(|m| m != k) || w.resume.is_some_and(|(p, upto)| p == w.pos && k <= upto) {
            continue;
        }
        if w.ctx.out_of_time() {
            break;
        }
        let mut r = mutation_rng(mseed, k);
        let m = mu::mutate(&mut r, &f.bytes, other.as_deref(), &hints, 7);
        if m.bytes[..] == f.bytes[..] {
            w.ctx.count("noop_mutations", 1);
            continue;
        }
        w.ctx.count("inputs|parquet", 1);
        let Mutation { name, desc, bytes } = m;
        let mb = Bytes::from(bytes);
        let cur = Cur { fmt, k, mutator: &name, mdesc: &desc, base_desc: &base_desc, input: &mb };
        pq_readers(w, &cur, &mut r, &mb, rows, false);
    }
}

// ------------------------------------------------------------------ Avro

fn avro_opts(rng: &mut Rng) -> rd::AvroOpts {
    rd::AvroOpts { batch_size: *rng.pick(&[1usize, 4, 1024]), utf8_view: rng.chance(1, 3), strict: rng.chance(1, 3) }
}

fn case_avro(w: &mut Wk, rng: &mut Rng, soe: bool, n_mut: usize) {
    let fmt = if soe { "avro-soe" } else { "avro-ocf" };
    w.progress("gen", 0, "-");
    let base = match gen_guard(|| cg::avro_base(rng, soe)) {
        Ok(b) => b,
        Err(e) => return w.base_rejected(fmt, &e),
    };
    let other = if rng.chance(1, 3) { gen_guard(|| cg::avro_base(rng, soe)).ok().map(|b| b.bytes) } else { None };
    let mseed = rng.u64();
    let (hints, schema_pos) = if soe {
        let mut h = Hints::default();
        if base.bytes.len() >= 10 {
            h.field(0, FK::U16, "avro-soe:magic");
            h.field(2, FK::U64, "avro-soe:fingerprint");
        }
        (h, None)
    } else {
        mu::avro_ocf_hints(&base.bytes)
    };
    let base_desc = format!("{fmt} codec={} {} bytes rows={} schema={}", base.codec, base.bytes.len(), base.rows, pq::schema_string(&base.schema));
    let json = base.avro_json.clone().unwrap_or_default();
    let run = |w: &mut Wk, cur: &Cur, r: &mut Rng| -> Out {
        let o = avro_opts(r);
        let b = cur.input;
        if soe {
            let chunk = *r.pick(&[0usize, 0, 1, 5, 64]);
            w.observe(cur, "avro-soe", || rd::avro_soe(b, &json, &o, chunk))
        } else {
            w.observe(cur, "avro-ocf", || rd::avro_ocf(b, &o))
        }
    };
    let cur = Cur { fmt, k: usize::MAX, mutator: "none", mdesc: "unmutated base", base_desc: &base_desc, input: &base.bytes };
    let o = run(w, &cur, &mut Rng::new(mseed));
    if !(o.is_ok() || o == Out::Skipped) {
        {
            let why = format!("base not accepted by {}", w.last_bad);
            return w.base_rejected(fmt, &why);
        }
    }
    w.ctx.count(&format!("bases|{fmt}|{}", base.codec), 1);
    w.ctx.sample(|| base_desc.clone());
    for k in 0..n_mut {
        if w.only_mut.is_some_and(|m| m != k) || w.resume.is_some_and(|(p, upto)| p == w.pos && k <= upto) {
            continue;
        }
        if w.ctx.out_of_time() {
            break;
        }
        let mut r = mutation_rng(mseed, k);
        let m = match schema_pos {
            Some(sp) if r.chance(1, 6) => mu::avro_schema_mutation(&mut r, &base.bytes, sp),
            _ => None,
        };
        let m = m.unwrap_or_else(|| {
            if soe && r.chance(1, 3) {
                mu::mutate_generic(&mut r, &base.bytes, None, &hints, "varint")
            } else {
                mu::mutate(&mut r, &base.bytes, other.as_deref(), &hints, 5)
            }
        });
        if m.bytes == base.bytes {
            w.ctx.count("noop_mutations", 1);
            continue;
        }
        w.ctx.count(&format!("inputs|{fmt}"), 1);
        let cur = Cur { fmt, k, mutator: &m.name, mdesc: &m.desc, base_desc: &base_desc, input: &m.bytes };
        run(w, &cur, &mut r);
    }
}

// ------------------------------------------------------------------ CSV / JSON

fn csv_opts(rng: &mut Rng, rows: usize) -> rd::CsvOpts {
    rd::CsvOpts {
        mode: rng.below(3) as u8,
        batch_size: *rng.pick(&[1usize, 3, 1024]),
        truncated: rng.chance(1, 3),
        bounds: if rng.chance(1, 8) {
            let a = rng.below(rows + 2);
            Some((a, a + rng.below(rows + 3)))
        } else {
            None
        },
        projection: if rng.chance(1, 5) { Some((0..1 + rng.below(3)).map(|_| rng.below(16)).collect()) } else { None },
        chunk: *rng.pick(&[1usize, 2, 7, 64, 4096]),
        comment: rng.chance(1, 8),
    }
}

fn case_csv(w: &mut Wk, rng: &mut Rng, n_mut: usize) {
    let fmt = "csv";
    w.progress("gen", 0, "-");
    let base = match gen_guard(|| cg::csv_base(rng)) {
        Ok(b) => b,
        Err(e) => return w.base_rejected(fmt, &e),
    };
    let mseed = rng.u64();
    let base_desc = format!("csv {:?} rows={} schema={}\n{}", base.fmt, base.rows, pq::schema_string(&base.schema), String::from_utf8_lossy(&base.bytes).chars().take(600).collect::<String>());
    let hints = Hints { text: true, ..Default::default() };
    let run = |w: &mut Wk, cur: &Cur, r: &mut Rng, plain: bool| -> Out {
        let mut o = csv_opts(r, base.rows);
        if plain {
            o = rd::CsvOpts { mode: 0, batch_size: 1024, truncated: false, bounds: None, projection: None, chunk: 64, comment: false };
        }
        let b = cur.input;
        let out = w.observe(cur, "csv", || rd::csv_read(b, base.schema.clone(), &base.fmt, &o));
        if plain || r.chance(1, 3) {
            w.observe(cur, "csv-infer", || rd::csv_infer(b, &base.fmt, &o));
        }
        out
    };
    let cur = Cur { fmt, k: usize::MAX, mutator: "none", mdesc: "unmutated base", base_desc: &base_desc, input: &base.bytes };
    let o = run(w, &cur, &mut Rng::new(mseed), true);
    if !(o.is_ok() || o == Out::Skipped) {
        {
            let why = format!("base not accepted by {}", w.last_bad);
            return w.base_rejected(fmt, &why);
        }
    }
    w.ctx.count("bases|csv", 1);
    w.ctx.sample(|| base_desc.clone());
    for k in 0..n_mut {
        if w.only_mut.is_some_and(|m| m != k) || w.resume.is_some_and(|(p, upto)| p == w.pos && k <= upto) {
            continue;
        }
        if w.ctx.out_of_time() {
            break;
        }
        let mut r = mutation_rng(mseed, k);
        let m = mu::mutate(&mut r, &base.bytes, None, &hints, 0);
        if m.bytes == base.bytes {
            w.ctx.count("noop_mutations", 1);
            continue;
        }
        w.ctx.count("inputs|csv", 1);
        let cur = Cur { fmt, k, mutator: &m.name, mdesc: &m.desc, base_desc: &base_desc, input: &m.bytes };
        run(w, &cur, &mut r, false);
    }
}

fn case_json(w: &mut Wk, rng: &mut Rng, n_mut: usize) {
    let fmt = "json";
    w.progress("gen", 0, "-");
    let base = match gen_guard(|| cg::json_base(rng)) {
        Ok(b) => b,
        Err(e) => return w.base_rejected(fmt, &e),
    };
    let mseed = rng.u64();
    let base_desc = format!(
        "json list_mode={} array={} rows={} schema={}\n{}",
        base.list_mode,
        base.array_format,
        base.rows,
        pq::schema_string(&base.schema),
        String::from_utf8_lossy(&base.bytes).chars().take(600).collect::<String>()
    );
    let hints = Hints { text: true, ..Default::default() };
    let run = |w: &mut Wk, cur: &Cur, r: &mut Rng, plain: bool| -> Out {
        let o = if plain {
            rd::JsonOpts { batch_size: 1024, strict: false, coerce: false, list_mode: base.list_mode, ignore_conflicts: false, flatten: base.array_format, chunk: 0 }
        } else {
            rd::JsonOpts {
                batch_size: *r.pick(&[1usize, 3, 1024]),
                strict: r.chance(1, 3),
                coerce: r.chance(1, 3),
                list_mode: base.list_mode,
                ignore_conflicts: r.chance(1, 3),
                flatten: base.array_format || r.chance(1, 6),
                chunk: *r.pick(&[0usize, 0, 1, 3, 64]),
            }
        };
        let b = cur.input;
        let out = w.observe(cur, "json", || rd::json_read(b, base.schema.clone(), &o));
        if plain || r.chance(1, 3) {
            w.observe(cur, "json-infer", || rd::json_infer(b, &o));
        }
        out
    };
    let cur = Cur { fmt, k: usize::MAX, mutator: "none", mdesc: "unmutated base", base_desc: &base_desc, input: &base.bytes };
    let o = run(w, &cur, &mut Rng::new(mseed), true);
    if !(o.is_ok() || o == Out::Skipped) {
        {
            let why = format!("base not accepted by {}", w.last_bad);
            return w.base_rejected(fmt, &why);
        }
    }
    w.ctx.count("bases|json", 1);
    w.ctx.sample(|| base_desc.clone());
    for k in 0..n_mut {
        if w.only_mut.is_some_and(|m| m != k) || w.resume.is_some_and(|(p, upto)| p == w.pos && k <= upto) {
            continue;
        }
        if w.ctx.out_of_time() {
            break;
        }
        let mut r = mutation_rng(mseed, k);
        let m = mu::mutate(&mut r, &base.bytes, None, &hints, 0);
        if m.bytes == base.bytes {
            w.ctx.count("noop_mutations", 1);
            continue;
        }
        w.ctx.count("inputs|json", 1);
        let cur = Cur { fmt, k, mutator: &m.name, mdesc: &m.desc, base_desc: &base_desc, input: &m.bytes };
        run(w, &cur, &mut r, false);
    }
}

// ------------------------------------------------------------------ Variant

fn case_variant(w: &mut Wk, rng: &mut Rng, n_mut: usize) {
    let fmt = "variant";
    w.progress("gen", 0, "-");
    let base = cg::variant_base(rng);
    let other = if rng.chance(1, 3) { Some(cg::variant_base(rng)) } else { None };
    let mseed = rng.u64();
    let base_desc = format!("variant metadata {} bytes, value {} bytes; {}", base.metadata.len(), base.value.len(), base.desc);
    let flat = |m: &[u8], v: &[u8]| -> Vec<u8> {
        let mut x = (m.len() as u32).to_le_bytes().to_vec();
        x.extend_from_slice(m);
        x.extend_from_slice(v);
        x
    };
    let input = flat(&base.metadata, &base.value);
    let cur = Cur { fmt, k: usize::MAX, mutator: "none", mdesc: "unmutated base", base_desc: &base_desc, input: &input };
    let o = w.observe(&cur, "variant", || rd::variant(&base.metadata, &base.value));
    if !(o.is_ok() || o == Out::Skipped) {
        {
            let why = format!("hand-encoded base not accepted by {}", w.last_bad);
            return w.base_rejected(fmt, &why);
        }
    }
    w.ctx.count("bases|variant", 1);
    w.ctx.sample(|| base_desc.clone());
    for k in 0..n_mut {
        if w.only_mut.is_some_and(|m| m != k) || w.resume.is_some_and(|(p, upto)| p == w.pos && k <= upto) {
            continue;
        }
        if w.ctx.out_of_time() {
            break;
        }
        let mut r = mutation_rng(mseed, k);
        let (mut md, mut val) = (base.metadata.clone(), base.value.clone());
        let (name, desc);
        match r.below(10) {
            0 | 1 | 2 => {
                let m = mu::mutate(&mut r, &base.metadata, other.as_ref().map(|o| o.metadata.as_slice()), &base.meta_hints, 6);
                md = m.bytes;
                name = format!("meta:{}", m.name);
                desc = format!("metadata: {}", m.desc);
            }
            3 if other.is_some() => {
                let o = other.as_ref().unwrap();
                if r.bool() {
                    md = o.metadata.clone();
                    name = "cross:metadata-of-B".to_string();
                } else {
                    val = o.value.clone();
                    name = "cross:value-of-B".to_string();
                }
                desc = format!("{name} ({})", o.desc);
            }
            _ => {
                let m = mu::mutate(&mut r, &base.value, other.as_ref().map(|o| o.value.as_slice()), &base.value_hints, 6);
                val = m.bytes;
                name = format!("value:{}", m.name);
                desc = format!("value: {}", m.desc);
            }
        }
        if md == base.metadata && val == base.value {
            w.ctx.count("noop_mutations", 1);
            continue;
        }
        w.ctx.count("inputs|variant", 1);
        let input = flat(&md, &val);
        let cur = Cur { fmt, k, mutator: &name, mdesc: &desc, base_desc: &base_desc, input: &input };
        w.observe(&cur, "variant", || rd::variant(&md, &val));
    }
}


// ------------------------------------------------------------------ exhaustive single-byte / truncation sweeps

/// The `which`-th systematic corruption of position `pos`: 0..8 flip bit, 8..12 set to
/// {0x00, 0x7F, 0x80, 0xFF}, 12 truncate at `pos`. `None` when it would not change the input.
fn exh_mutation(base: &[u8], pos: usize, which: usize) -> Option<(Vec<u8>, &'static str, String)> {
    let mut v = base.to_vec();
    match which {
        0..=7 => {
            v[pos] ^= 1 << which;
            Some((v, "exh-bit", format!("bit {which} @{pos} flipped")))
        }
        8..=11 => {
            let nv = [0x00u8, 0x7f, 0x80, 0xff][which - 8];
            if v[pos] == nv {
                return None;
            }
            v[pos] = nv;
            Some((v, "exh-byte", format!("byte @{pos} -> {nv:#04x}")))
        }
        _ => {
            v.truncate(pos);
            Some((v, "exh-trunc", format!("truncate {} -> {pos}", base.len())))
        }
    }
}

/// every position x {8 bit flips, 0x00, 0x7F, 0x80, 0xFF} and every truncation length of a small
/// hand-encoded variant (both buffers)
fn case_variant_exh(w: &mut Wk, rng: &mut Rng) {
    let fmt = "variant";
    w.progress("gen", 0, "-");
    let mut base = cg::variant_base(rng);
    for _ in 0..20 {
        if base.metadata.len() + base.value.len() <= 160 {
            break;
        }
        base = cg::variant_base(rng);
    }
    if base.metadata.len() + base.value.len() > 160 {
        return w.base_rejected(fmt, "no small variant drawn");
    }
    let base_desc = format!("variant (exhaustive sweep) metadata {} bytes, value {} bytes; {}", base.metadata.len(), base.value.len(), base.desc);
    let flat = |m: &[u8], v: &[u8]| -> Vec<u8> {
        let mut x = (m.len() as u32).to_le_bytes().to_vec();
        x.extend_from_slice(m);
        x.extend_from_slice(v);
        x
    };
    let input = flat(&base.metadata, &base.value);
    let cur = Cur { fmt, k: usize::MAX, mutator: "none", mdesc: "unmutated base", base_desc: &base_desc, input: &input };
    let o = w.observe(&cur, "variant", || rd::variant(&base.metadata, &base.value));
    if !(o.is_ok() || o == Out::Skipped) {
        let why = format!("hand-encoded base not accepted by {}", w.last_bad);
        return w.base_rejected(fmt, &why);
    }
    w.ctx.count("bases|variant-exh", 1);
    let (ml, vl) = (base.metadata.len(), base.value.len());
    for pos in 0..ml + vl {
        for which in 0..13 {
            let k = pos * 13 + which;
            if w.only_mut.is_some_and(|m| m != k) || w.resume.is_some_and(|(p, upto)| p == w.pos && k <= upto) {
                continue;
            }
            let (in_meta, p) = if pos < ml { (true, pos) } else { (false, pos - ml) };
            let Some((bytes, name, desc)) = exh_mutation(if in_meta { &base.metadata } else { &base.value }, p, which) else { continue };
            let (md, val) = if in_meta { (bytes, base.value.clone()) } else { (base.metadata.clone(), bytes) };
            w.ctx.count("inputs|variant-exh", 1);
            let input = flat(&md, &val);
            let desc = format!("{}: {desc}", if in_meta { "metadata" } else { "value" });
            let cur = Cur { fmt, k, mutator: name, mdesc: &desc, base_desc: &base_desc, input: &input };
            w.observe(&cur, "variant", || rd::variant(&md, &val));
        }
        if w.ctx.out_of_time() {
            break;
        }
    }
}

/// the same sweep over a minimal IPC stream / file (one small batch, flat schema); long inputs are
/// swept with a stride so that a case stays below ~1000 inputs
fn case_ipc_exh(w: &mut Wk, rng: &mut Rng) {
    w.progress("gen", 0, "-");
    let file = rng.bool();
    let fmt = if file { "ipc-file" } else { "ipc-stream" };
    let kind = if file { IpcKind::File } else { IpcKind::Stream };
    let made = gen_guard(|| {
        let mut cfg = SeqCfg::ipc();
        cfg.max_rows = 4;
        cfg.max_batches = 1;
        cfg.max_cols = 2;
        cfg.metadata = false;
        cfg.zero_col = false;
        cfg.flat = rng.chance(2, 3);
        let (seq, wo, bytes) = c04gen::gen_ipc_bytes(rng, &cfg, kind);
        let bytes = bytes.ok_or_else(|| "writer rejected the sequence".to_string())?;
        Ok((seq, wo, bytes))
    });
    let (seq, wo, bytes) = match made {
        Ok(x) => x,
        Err(e) => return w.base_rejected(fmt, &e),
    };
    let mseed = rng.u64();
    let ncols = seq.schema.fields().len();
    let base_desc = format!("{} (exhaustive sweep) opts={} {} bytes; {}", kind.name(), wo.class(), bytes.len(), seq.describe());
    let cur = Cur { fmt, k: usize::MAX, mutator: "none", mdesc: "unmutated base", base_desc: &base_desc, input: &bytes };
    let outs = ipc_readers(w, &cur, &mut Rng::new(mseed), file, ncols);
    if !outs.iter().take(2).all(|o| o.is_ok() || *o == Out::Skipped) {
        let why = format!("base not accepted by {}", w.last_bad);
        return w.base_rejected(fmt, &why);
    }
    w.ctx.count(&format!("bases|{fmt}-exh"), 1);
    let n = bytes.len();
    let stride = (n * 13).div_ceil(1000).max(1);
    let start = rng.below(stride);
    w.ctx.count("exh_stride_sum", stride as u64);
    let mut pos = start;
    while pos < n {
        for which in 0..13 {
            let k = pos * 13 + which;
            if w.only_mut.is_some_and(|m| m != k) || w.resume.is_some_and(|(p, upto)| p == w.pos && k <= upto) {
                continue;
            }
            let Some((mb, name, desc)) = exh_mutation(&bytes, pos, which) else { continue };
            w.ctx.count(&format!("inputs|{fmt}-exh"), 1);
            let mut r = mutation_rng(mseed, k);
            let cur = Cur { fmt, k, mutator: name, mdesc: &desc, base_desc: &base_desc, input: &mb };
            ipc_readers(w, &cur, &mut r, file, ncols);
        }
        if w.ctx.out_of_time() {
            break;
        }
        pos += stride;
    }
}

// ------------------------------------------------------------------ schedule

/// (section, quick total, thorough total, mutations per case)
const SECTIONS: [(&str, u64, u64, usize); 11] = [
    ("ipc-file", 640, 12_800, 24),
    ("ipc-stream", 640, 12_800, 24),
    ("flight", 480, 9_600, 16),
    ("parquet", 560, 11_200, 16),
    ("avro-ocf", 416, 8_320, 24),
    ("avro-soe", 224, 4_480, 24),
    ("csv", 320, 6_400, 24),
    ("json", 416, 8_320, 24),
    ("variant", 640, 12_800, 40),
    ("variant-exh", 224, 4_480, 0),
    ("ipc-exh", 48, 960, 0),
];

fn schedule(ctx: &Ctx) -> Vec<(usize, u64)> {
    let lists: Vec<Vec<u64>> = SECTIONS.iter().map(|(s, q, t, _)| ctx.cases(s, ctx.tier.pick(3u64.min(*q), *q, *t))).collect();
    let wmin = SECTIONS.iter().map(|s| s.1).min().unwrap().max(1);
    let per_round: Vec<usize> = SECTIONS.iter().map(|s| ((s.1 / wmin) as usize).max(1)).collect();
    let mut idx = vec![0usize; SECTIONS.len()];
    let mut out = vec![];
    loop {
        let mut progressed = false;
        for k in 0..SECTIONS.len() {
            for _ in 0..per_round[k] {
                if idx[k] < lists[k].len() {
                    out.push((k, lists[k][idx[k]]));
                    idx[k] += 1;
                    progressed = true;
                }
            }
        }
        if !progressed {
            break;
        }
    }
    out
}

fn run_case(w: &mut Wk, sec: usize, case: u64) {
    let (section, _, _, n_mut) = SECTIONS[sec];
    w.section = section;
    w.case = case;
    let mut rng = w.ctx.begin(section, case);
    w.last_bad.clear();
    let n_mut = if w.ctx.tier == vcore::Tier::Tiny { 4 } else { n_mut };
    match section {
        "ipc-file" => case_ipc(w, &mut rng, true, n_mut),
        "ipc-stream" => case_ipc(w, &mut rng, false, n_mut),
        "flight" => case_flight(w, &mut rng, n_mut),
        "parquet" => case_parquet(w, &mut rng, n_mut),
        "avro-ocf" => case_avro(w, &mut rng, false, n_mut),
        "avro-soe" => case_avro(w, &mut rng, true, n_mut),
        "csv" => case_csv(w, &mut rng, n_mut),
        "json" => case_json(w, &mut rng, n_mut),
        "variant-exh" => case_variant_exh(w, &mut rng),
        "ipc-exh" => case_ipc_exh(w, &mut rng),
        _ => case_variant(w, &mut rng, n_mut),
    }
}

fn worker(ctx: &mut Ctx) {
    let sched = schedule(ctx);
    let (from, to) = std::env::var("C08_RANGE")
        .ok()
        .and_then(|r| r.split_once(':').map(|(a, b)| (a.parse().unwrap_or(0), b.parse().unwrap_or(usize::MAX))))
        .unwrap_or((0, usize::MAX));
    let prog = std::env::var("C08_PROGRESS").ok().and_then(|p| std::fs::OpenOptions::new().create(true).write(true).truncate(false).open(p).ok());
    if let Some(f) = &prog {
        use std::os::unix::io::AsRawFd;
        heap::PROG_FD.store(f.as_raw_fd(), std::sync::atomic::Ordering::SeqCst);
    }
    let mut w = Wk {
        ctx,
        prog,
        pos: from,
        section: "",
        case: 0,
        only_mut: std::env::var("C08_ONLY_MUT").ok().and_then(|v| v.parse().ok()),
        resume: std::env::var("C08_RESUME").ok().and_then(|v| v.split_once(':').and_then(|(a, b)| Some((a.parse().ok()?, b.parse().ok()?)))),
        only_reader: std::env::var("C08_ONLY_READER").ok(),
        dump_dir: std::env::var("C08_DUMP_DIR").ok(),
        slow_s: 2.0,
        selftest: std::env::var("C08_SELFTEST").ok(),
        last_bad: String::new(),
    };
    let mut pos = from;
    while pos < to.min(sched.len()) {
        if w.ctx.out_of_time() {
            break;
        }
        w.pos = pos;
        let (sec, case) = sched[pos];
        let t0 = Instant::now();
        run_case(&mut w, sec, case);
        let dt = t0.elapsed().as_secs_f64();
        w.ctx.count(&format!("case_ms|{}", SECTIONS[sec].0), (dt * 1e3) as u64);
        w.ctx.count(&format!("cases|{}", SECTIONS[sec].0), 1);
        pos += 1;
        // checkpoint: a cumulative summary after every completed case, so that nothing is lost (and
        // nothing has to be re-run) when a later case kills this process
        if w.prog.is_some() {
            w.ctx.finish();
        }
    }
    if let Some(f) = &w.prog {
        use std::os::unix::fs::FileExt;
        let mut s = format!("done={pos}");
        while s.len() < 255 {
            s.push(' ');
        }
        s.push('\n');
        let _ = f.write_at(s.as_bytes(), 0);
    }
}

// ------------------------------------------------------------------ supervisor

struct Progress {
    pos: usize,
    section: String,
    case: u64,
    k: i64,
    reader: String,
    phase: String,
    /// size of the input under test
    len: usize,
    /// largest request above 1 GiB the allocator saw during this call (0 = none)
    big: u64,
}

enum ChildEnd {
    /// clean exit; next schedule position
    Done(usize),
    Died(String, Option<Progress>),
    Hung(Option<Progress>),
}

fn read_progress(path: &str) -> (Option<usize>, Option<Progress>, String) {
    let s = std::fs::read_to_string(path).unwrap_or_default();
    let line = s.lines().next().unwrap_or("").trim().to_string();
    if let Some(d) = line.strip_prefix("done=") {
        return (d.trim().parse().ok(), None, line);
    }
    let mut m = BTreeMap::new();
    for kv in line.split_whitespace() {
        if let Some((k, v)) = kv.split_once('=') {
            m.insert(k.to_string(), v.to_string());
        }
    }
    let p = (|| {
        Some(Progress {
            pos: m.get("pos")?.parse().ok()?,
            section: m.get("section")?.clone(),
            case: m.get("case")?.parse().ok()?,
            k: m.get("mut")?.parse().ok()?,
            reader: m.get("reader")?.clone(),
            phase: m.get("phase")?.clone(),
            len: m.get("len").and_then(|v| v.parse().ok()).unwrap_or(0),
            big: s.lines().nth(1).and_then(|l| l.trim().strip_prefix("BIG=")).and_then(|v| v.trim().parse().ok()).unwrap_or(0),
        })
    })();
    (None, p, line)
}

/// user + system CPU seconds of a process (0 when it is gone)
fn cpu_secs(pid: u32) -> f64 {
    let Ok(s) = std::fs::read_to_string(format!("/proc/{pid}/stat")) else { return 0.0 };
    let Some(i) = s.rfind(')') else { return 0.0 };
    let f: Vec<&str> = s[i + 1..].split_whitespace().collect();
    let t = |k: usize| f.get(k).and_then(|x| x.parse::<f64>().ok()).unwrap_or(0.0);
    (t(11) + t(12)) / 100.0
}

struct Sup {
    exe: std::path::PathBuf,
    tmp: String,
    seq: u32,
    watchdog: Duration,
    /// a call that burns no CPU is cut after `wall_factor` x the CPU budget of wall-clock time
    wall_factor: u32,
    /// set by the supervisor to abandon a background confirmation
    cancel: Arc<std::sync::atomic::AtomicBool>,
}

struct ChildRun {
    end: ChildEnd,
    /// the watchdog fired because the CPU budget was used up (not merely the wall-clock cap)
    cpu_exhausted: bool,
    out_lines: Vec<String>,
    stderr_tail: String,
}

impl Sup {
    fn spawn(&mut self, ctx: &Ctx, range: (usize, usize), extra_env: &[(&str, String)], deadline_s: Option<u64>, watchdog: Duration, known_hangers: &std::collections::BTreeSet<String>) -> ChildRun {
        self.seq += 1;
        let base = format!("{}/c08-{}-{}", self.tmp, std::process::id(), self.seq);
        let (outp, errp, progp) = (format!("{base}.out"), format!("{base}.err"), format!("{base}.prog"));
        let _ = std::fs::write(&progp, " ".repeat(255) + "\n");
        let mut cmd = std::process::Command::new(&self.exe);
        cmd.arg(&ctx.prop).arg("--tier").arg(ctx.tier.name()).arg("--seed").arg(ctx.seed.to_string());
        cmd.arg("--shard").arg(format!("{}/{}", ctx.shard, ctx.nshards)).arg("--out").arg(&outp);
        if let Some(d) = deadline_s {
            cmd.arg("--deadline").arg(d.max(1).to_string());
        }
        if let (Some(s), Some(c)) = (&ctx.only_section, ctx.only_case) {
            cmd.arg("--section").arg(s).arg("--case").arg(c.to_string());
        }
        if ctx.verbose {
            cmd.arg("--verbose");
        }
        // no backtrace on abort: symbolising this binary takes seconds and would look like a hang
        cmd.env("C08_WORKER", "1").env("C08_RANGE", format!("{}:{}", range.0, range.1)).env("C08_PROGRESS", &progp).env("RUST_BACKTRACE", "0");
        for (k, v) in extra_env {
            cmd.env(k, v);
        }
        let errf = std::fs::File::create(&errp).ok();
        if let Some(f) = errf {
            if !ctx.verbose {
                cmd.stderr(f);
            }
        }
        cmd.stdout(std::process::Stdio::null());
        let mut end = ChildEnd::Died("spawn failed".into(), None);
        let mut cpu_exhausted = false;
        if let Ok(mut child) = cmd.spawn() {
            let mut last = String::new();
            let mut last_change = Instant::now();
            let mut cpu_at_change = 0.0f64;
            let pid = child.id();
            let mut polls = 0u32;
            loop {
                match child.try_wait() {
                    Ok(Some(st)) => {
                        let (done, p, _) = read_progress(&progp);
                        end = match (st.code(), done) {
                            (Some(0), Some(n)) | (Some(1), Some(n)) => ChildEnd::Done(n),
                            _ => {
                                use std::os::unix::process::ExitStatusExt;
                                let why = match st.signal() {
                                    Some(6) => "SIGABRT".to_string(),
                                    Some(11) => "SIGSEGV".to_string(),
                                    Some(9) => "SIGKILL".to_string(),
                                    Some(7) => "SIGBUS".to_string(),
                                    Some(4) => "SIGILL".to_string(),
                                    Some(s) => format!("signal-{s}"),
                                    None => format!("exit-{}", st.code().unwrap_or(-1)),
                                };
                                ChildEnd::Died(why, p)
                            }
                        };
                        break;
                    }
                    Ok(None) => {}
                    Err(_) => break,
                }
                std::thread::sleep(Duration::from_millis(if polls < 50 { 5 } else { 25 }));
                polls += 1;
                if self.cancel.load(std::sync::atomic::Ordering::Relaxed) {
                    let _ = child.kill();
                    let _ = child.wait();
                    end = ChildEnd::Died("cancelled".into(), None);
                    break;
                }
                if polls % 8 == 0 {
                    let (_, p, line) = read_progress(&progp);
                    if line != last {
                        last = line;
                        last_change = Instant::now();
                        cpu_at_change = cpu_secs(pid);
                    } else {
                        let limit = match &p {
                            // a reader whose hang is already being confirmed in this shard gets a third of the budget
                            Some(p) if (p.phase == "read" || p.phase == "validate") && known_hangers.contains(&p.reader) => watchdog / 3,
                            Some(p) if p.phase == "read" || p.phase == "validate" => watchdog,
                            _ => watchdog * 12,
                        };
                        // the watchdog counts the CPU time the worker spent in this one call (wall-clock says
                        // nothing on a loaded machine); a call that burns no CPU is cut at 20x the budget
                        let spent = cpu_secs(pid) - cpu_at_change;
                        if spent > limit.as_secs_f64() || last_change.elapsed() > limit * self.wall_factor {
                            cpu_exhausted = spent > limit.as_secs_f64();
                            let _ = child.kill();
                            let _ = child.wait();
                            end = ChildEnd::Hung(p);
                            break;
                        }
                    }
                }
            }
        }
        let out_lines: Vec<String> = std::fs::read_to_string(&outp).unwrap_or_default().lines().map(|s| s.to_string()).collect();
        let err = std::fs::read_to_string(&errp).unwrap_or_default();
        // head (message) and tail of the worker's stderr, plus every marker line the supervisor looks for
        let lines: Vec<&str> = err.lines().collect();
        let mut keep: Vec<&str> = lines.iter().take(8).copied().collect();
        if lines.len() > 8 {
            keep.push("...");
            keep.extend(lines.iter().skip(8.max(lines.len().saturating_sub(4))).copied());
        }
        for l in &lines {
            if (l.contains("C08-ALLOC-REFUSED") || l.contains("overflowed its stack") || l.contains("memory allocation of") || l.contains("cannot unwind") || l.contains("panicked")) && !keep.contains(l) {
                keep.push(l);
            }
        }
        let stderr_tail: String = keep.join("\n").chars().take(3000).collect();
        for p in [&outp, &errp, &progp] {
            let _ = std::fs::remove_file(p);
        }
        ChildRun { end, cpu_exhausted, out_lines, stderr_tail }
    }
}

/// Merge the JSONL a worker wrote into the supervisor's recorder: every violation / inconclusive
/// line, and the LAST (cumulative) summary checkpoint.
fn merge(ctx: &mut Ctx, lines: &[String]) {
    let mut viol_lines = 0u64;
    let mut last: Option<(serde_json::Value, u64)> = None;
    for l in lines {
        let Ok(v) = serde_json::from_str::<serde_json::Value>(l) else { continue };
        let t = v["t"].as_str().unwrap_or("");
        let (sec, case) = (v["section"].as_str().unwrap_or("").to_string(), v["case"].as_u64().unwrap_or(0));
        match t {
            "violation" => {
                let _ = ctx.begin(&sec, case);
                ctx.violation(v["sig"].as_str().unwrap_or("C08|?"), v["detail"].as_str().unwrap_or("").to_string());
                viol_lines += 1;
            }
            "inconclusive" => {
                let _ = ctx.begin(&sec, case);
                ctx.inconclusive(v["why"].as_str().unwrap_or(""));
            }
            "summary" => last = Some((v, viol_lines)),
            _ => {}
        }
    }
    if let Some((v, lines_before)) = last {
        ctx.evals_n(v["evals"].as_u64().unwrap_or(0));
        ctx.rejections += v["rejections"].as_u64().unwrap_or(0);
        // occurrences beyond the first of each signature are only counted by the worker
        ctx.violations += v["violations"].as_u64().unwrap_or(0).saturating_sub(lines_before);
        for c in v["classes"].as_array().into_iter().flatten() {
            if let Some(c) = c.as_str() {
                ctx.class(c.to_string());
            }
        }
        for s in v["samples"].as_array().into_iter().flatten() {
            if let Some(s) = s.as_str() {
                ctx.sample(|| s.to_string());
            }
        }
        if let Some(m) = v["counters"].as_object() {
            for (k, n) in m {
                ctx.count(k, n.as_u64().unwrap_or(0));
            }
        }
    }
}

fn abort_cause(why: &str, stderr: &str) -> String {
    if stderr.contains("C08-ALLOC-REFUSED") {
        "alloc-refused>8GiB".into()
    } else if stderr.contains("has overflowed its stack") {
        "stack-overflow".into()
    } else if stderr.contains("memory allocation of") {
        "alloc-failed".into()
    } else if stderr.contains("panic in a function that cannot unwind") || stderr.contains("panicked while panicking") || stderr.contains("panic in a destructor") {
        "double-panic".into()
    } else {
        why.to_string()
    }
}

fn supervise(ctx: &mut Ctx) {
    let sched = schedule(ctx);
    let exe = match std::env::current_exe() {
        Ok(e) => e,
        Err(_) => return worker(ctx),
    };
    let wd_s: u64 = std::env::var("C08_WATCHDOG_S").ok().and_then(|v| v.parse().ok()).unwrap_or(2);
    let mut sup = Sup { exe, tmp: std::env::temp_dir().to_string_lossy().to_string(), seq: 0, watchdog: Duration::from_secs(wd_s), wall_factor: 20, cancel: Default::default() };
    let cancel_confirmations: Arc<std::sync::atomic::AtomicBool> = Default::default();
    let start = Instant::now();
    // Ctx keeps its deadline private: read it from the command line again
    let args: Vec<String> = std::env::args().collect();
    let deadline: Option<u64> = args.iter().position(|a| a == "--deadline").and_then(|i| args.get(i + 1)).and_then(|v| v.parse().ok());
    // the Ctx deadline is private: learn it by probing out_of_time() is not possible in advance, so the
    // workers get chunks of bounded size and the loop stops as soon as the supervisor is out of time
    let chunk: usize = std::env::var("C08_CHUNK").ok().and_then(|v| v.parse().ok()).unwrap_or(ctx.tier.pick(4, 24, 48));
    let mut pos = 0usize;
    let mut stack: Vec<(usize, usize, u32, Option<usize>)> = vec![]; // pending (from, to, deaths so far, resume `from` behind mutation k)
    let mut hang_readers: std::collections::BTreeSet<String> = Default::default();
    let mut pending: Vec<(Progress, Vec<std::thread::JoinHandle<bool>>)> = vec![];
    while (pos < sched.len() || !stack.is_empty()) && !ctx.out_of_time() {
        let (from, to, depth, resume) = match stack.pop() {
            Some(r) => r,
            None => {
                let r = (pos, (pos + chunk).min(sched.len()), 0, None);
                pos = r.1;
                r
            }
        };
        if from >= to {
            continue;
        }
        let remaining = deadline.map(|d| d.saturating_sub(start.elapsed().as_secs()));
        let resume_env: Vec<(&str, String)> = resume.map(|k| ("C08_RESUME", format!("{from}:{k}"))).into_iter().collect();
        let run = sup.spawn(ctx, (from, to), &resume_env, remaining, sup.watchdog, &hang_readers);
        match run.end {
            ChildEnd::Done(next) => {
                merge(ctx, &run.out_lines);
                if next < to {
                    // the worker ran out of time (or was told to stop): keep the rest for the next round
                    if ctx.out_of_time() {
                        break;
                    }
                    stack.push((next, to, depth, None));
                    if next == from {
                        break;
                    }
                }
            }
            ChildEnd::Died(why, p) => {
                ctx.count("worker_deaths", 1);
                let cause = abort_cause(&why, &run.stderr_tail);
                match p {
                    Some(p) if p.pos >= from && p.pos < to => {
                        // what the dead worker had already reported about the fatal case
                        merge(ctx, &run.out_lines);
                        let _ = ctx.begin(&p.section, p.case);
                        if p.phase == "gen" {
                            ctx.inconclusive(&format!("worker died ({cause}) while generating the base of {} case {}: not attributable to a reader\n{}", p.section, p.case, run.stderr_tail));
                        } else {
                            // a refused request that the reader did not handle kills the process: same defect
                            // class (and signature) as the handled one seen in-process
                            let sig = if cause == "alloc-refused>8GiB" { format!("C08|{}|alloc|single-request>8GiB", family(&p.reader)) } else { format!("C08|{}|abort|{cause}", family(&p.reader)) };
                            ctx.violation(
                                &sig,
                                format!(
                                    "the worker process died ({why}; {cause}) inside reader {} (phase {}) on mutation#{} of section {} case {}\nreplay: --section {} --case {}  (env C08_ONLY_MUT={} C08_ONLY_READER={})\nstderr tail:\n{}",
                                    p.reader, p.phase, p.k, p.section, p.case, p.section, p.case, p.k, p.reader, run.stderr_tail
                                ),
                            );
                        }
                        // the cases before the fatal one lost their summary: run them again; then go on behind it
                        if depth < 64 {
                            stack.push(if p.k >= 0 && p.phase != "gen" { (p.pos, to, depth + 1, Some(p.k as usize)) } else { (p.pos + 1, to, depth + 1, None) });
                        } else {
                            ctx.inconclusive("worker keeps dying while re-running a prefix; range dropped");
                        }
                    }
                    _ => {
                        ctx.inconclusive(&format!("worker died ({cause}) without usable progress record for range {from}..{to}\n{}", run.stderr_tail));
                    }
                }
            }
            ChildEnd::Hung(p) => {
                ctx.count("worker_watchdog_kills", 1);
                match p {
                    Some(p) if p.phase != "gen" && p.pos >= from && p.pos < to && p.big > GIB as u64 && p.len <= MIB => {
                        // not a time verdict: the allocator saw a request above 1 GiB for a small input before the
                        // watchdog cut the call (zero-filling gigabytes is what made it slow)
                        merge(ctx, &run.out_lines);
                        let _ = ctx.begin(&p.section, p.case);
                        ctx.violation(
                            &format!("C08|{}|alloc|peak>1GiB", family(&p.reader)),
                            format!(
                                "reader {} requested {} bytes in one allocation for an input of {} bytes and was still busy after {wd_s} CPU-s (killed by the watchdog); mutation#{} of section {} case {}\nreplay: --section {} --case {}  (env C08_ONLY_MUT={} C08_ONLY_READER={})",
                                p.reader, p.big, p.len, p.k, p.section, p.case, p.section, p.case, p.k, p.reader
                            ),
                        );
                        stack.push(if p.k >= 0 && p.phase != "gen" { (p.pos, to, depth + 1, Some(p.k as usize)) } else { (p.pos + 1, to, depth + 1, None) });
                    }
                    Some(p) if p.phase != "gen" && p.pos >= from && p.pos < to => {
                        merge(ctx, &run.out_lines);
                        if hang_readers.contains(&p.reader) {
                            // one confirmation per reader and shard; further kills are only counted
                            let _ = ctx.begin(&p.section, p.case);
                            ctx.inconclusive(&format!(
                                "watchdog ({wd_s} CPU-s) fired again in reader {} (mutation#{} of {} case {}); a hang of this reader is already being confirmed in this shard, not reproduced again",
                                p.reader, p.k, p.section, p.case
                            ));
                        } else {
                            hang_readers.insert(p.reader.clone());
                            // three isolated reproductions (separate processes, in the background) at 10x the watchdog
                            let env = [("C08_ONLY_MUT", p.k.to_string()), ("C08_ONLY_READER", p.reader.clone())];
                            let handles: Vec<std::thread::JoinHandle<bool>> = (0..3u32)
                                .map(|i| {
                                    let mut s2 = Sup { exe: sup.exe.clone(), tmp: sup.tmp.clone(), seq: 1_000_000 + 1000 * pending.len() as u32 + 100 * (i + 1), watchdog: sup.watchdog, wall_factor: 8, cancel: cancel_confirmations.clone() };
                                    let mut c2 = Ctx::new(&ctx.prop, ctx.tier, ctx.seed, ctx.shard, ctx.nshards, Some("/dev/null"), None);
                                    c2.only_case = ctx.only_case;
                                    c2.only_section = ctx.only_section.clone();
                                    let env = env.clone();
                                    let range = (p.pos, p.pos + 1);
                                    let wd = sup.watchdog * 10;
                                    std::thread::spawn(move || {
                                        let e: Vec<(&str, String)> = env.iter().map(|(k, v)| (*k, v.clone())).collect();
                                        let r = s2.spawn(&c2, range, &e, None, wd, &Default::default());
                                        // only a reproduction that really used up its CPU budget counts
                                        matches!(r.end, ChildEnd::Hung(_)) && r.cpu_exhausted
                                    })
                                })
                                .collect();
                            if depth < 64 {
                                stack.push(if p.k >= 0 && p.phase != "gen" { (p.pos, to, depth + 1, Some(p.k as usize)) } else { (p.pos + 1, to, depth + 1, None) });
                            }
                            pending.push((p, handles));
                            continue;
                        }
                        if depth < 64 {
                            stack.push(if p.k >= 0 && p.phase != "gen" { (p.pos, to, depth + 1, Some(p.k as usize)) } else { (p.pos + 1, to, depth + 1, None) });
                        }
                    }
                    Some(p) => {
                        ctx.inconclusive(&format!("watchdog fired while generating the base of {} case {} (range {from}..{to})", p.section, p.case));
                        if depth < 64 && p.pos >= from && p.pos < to {
                            stack.push(if p.k >= 0 && p.phase != "gen" { (p.pos, to, depth + 1, Some(p.k as usize)) } else { (p.pos + 1, to, depth + 1, None) });
                        }
                    }
                    None => ctx.inconclusive(&format!("watchdog fired without progress record for range {from}..{to}")),
                }
            }
        }
    }
    // hang confirmations that ran in the background: they get a grace period beyond the deadline, then
    // they are abandoned (=> inconclusive), so that a shard never runs much longer than asked
    let grace = Duration::from_secs(std::env::var("C08_CONFIRM_GRACE_S").ok().and_then(|v| v.parse().ok()).unwrap_or(45));
    let t_end = Instant::now();
    while pending.iter().any(|(_, hs)| hs.iter().any(|h| !h.is_finished())) {
        if deadline.is_some() && ctx.out_of_time() && t_end.elapsed() > grace {
            cancel_confirmations.store(true, std::sync::atomic::Ordering::SeqCst);
            ctx.count("hang_confirmations_abandoned", 1);
            break;
        }
        std::thread::sleep(Duration::from_millis(100));
    }
    for (p, handles) in pending {
        let hung = handles.into_iter().map(|h| h.join().unwrap_or(false)).filter(|b| *b).count();
        let _ = ctx.begin(&p.section, p.case);
        if hung == 3 {
            ctx.violation(
                &format!("C08|{}|hang", family(&p.reader)),
                format!(
                    "reader {} burnt {} s of CPU (10x the watchdog) without returning in three isolated reproductions; mutation#{} of section {} case {}\nreplay: --section {} --case {}  (env C08_ONLY_MUT={} C08_ONLY_READER={})",
                    p.reader,
                    10 * wd_s,
                    p.k,
                    p.section,
                    p.case,
                    p.section,
                    p.case,
                    p.k,
                    p.reader
                ),
            );
        } else {
            ctx.inconclusive(&format!("watchdog ({wd_s} CPU-s) fired in reader {} on mutation#{} of {} case {}; only {hung}/3 isolated reproductions at 10x budget hung", p.reader, p.k, p.section, p.case));
        }
    }
    ctx.count("schedule_len", sched.len() as u64);
    let _ = std::io::stderr().flush();
}

pub fn run(ctx: &mut Ctx) {
    if std::env::var("C08_WORKER").is_ok() || std::env::var("C08_INPROC").is_ok() {
        worker(ctx)
    } else {
        supervise(ctx)
    }
}

#[allow(dead_code)]
fn _unused(_: Option<(Arc<RecordBatch>, SchemaRef)>) {}
