//! C14, Avro: `arrow_avro::reader::Decoder` (single-object / Confluent framing, rolling buffer
//! protocol) and the OCF `Reader` over a `BufRead` with arbitrary `fill_buf` slices.
//! Inputs are hand-encoded from a value model (so varint widths, array block structure, header
//! map blocks and block layout are under our control) plus files re-written by `AvroWriter`
//! with every compression codec.

use super::c14::*;
use super::c14_text::break_obs;
use arrow_avro::reader::ReaderBuilder;
use arrow_avro::schema::{AvroSchema, Fingerprint, FingerprintAlgorithm, SchemaStore};
use arrow_array::RecordBatch;
use std::io::Cursor;
use vcore::mon::{Ctx, guard};
use vcore::rng::Rng;
use vcore::val::Val;

// ------------------------------------------------------------------ model + hand encoder

#[derive(Clone, Copy, Debug, PartialEq, Eq)]
enum AK {
    Int,
    Long,
    Float,
    Double,
    Bool,
    Str,
    Bytes,
    NLong,
    NStr,
    ArrInt,
    ArrStr,
    Enum,
    Fixed4,
    MapLong,
}

const ALL_AK: [AK; 14] = [AK::Int, AK::Long, AK::Float, AK::Double, AK::Bool, AK::Str, AK::Bytes, AK::NLong, AK::NStr, AK::ArrInt, AK::ArrStr, AK::Enum, AK::Fixed4, AK::MapLong];
const SYMBOLS: [&str; 3] = ["ALPHA", "B", "gamma"];

impl AK {
    fn json(&self, uniq: &str) -> String {
        match self {
            AK::Int => "\"int\"".into(),
            AK::Long => "\"long\"".into(),
            AK::Float => "\"float\"".into(),
            AK::Double => "\"double\"".into(),
            AK::Bool => "\"boolean\"".into(),
            AK::Str => "\"string\"".into(),
            AK::Bytes => "\"bytes\"".into(),
            AK::NLong => "[\"null\",\"long\"]".into(),
            AK::NStr => "[\"null\",\"string\"]".into(),
            AK::ArrInt => "{\"type\":\"array\",\"items\":\"int\"}".into(),
            AK::ArrStr => "{\"type\":\"array\",\"items\":\"string\"}".into(),
            AK::Enum => format!("{{\"type\":\"enum\",\"name\":\"E{uniq}\",\"symbols\":[\"ALPHA\",\"B\",\"gamma\"]}}"),
            AK::Fixed4 => format!("{{\"type\":\"fixed\",\"name\":\"F{uniq}\",\"size\":4}}"),
            AK::MapLong => "{\"type\":\"map\",\"values\":\"long\"}".into(),
        }
    }
    fn name(&self) -> &'static str {
        match self {
            AK::Int => "int",
            AK::Long => "long",
            AK::Float => "float",
            AK::Double => "double",
            AK::Bool => "bool",
            AK::Str => "string",
            AK::Bytes => "bytes",
            AK::NLong => "nlong",
            AK::NStr => "nstring",
            AK::ArrInt => "array-int",
            AK::ArrStr => "array-string",
            AK::Enum => "enum",
            AK::Fixed4 => "fixed",
            AK::MapLong => "map",
        }
    }
}

fn zigzag(v: i64, out: &mut Vec<u8>) {
    let mut n = ((v << 1) ^ (v >> 63)) as u64;
    while n >= 0x80 {
        out.push((n as u8) | 0x80);
        n >>= 7;
    }
    out.push(n as u8);
}

fn small_str(rng: &mut Rng) -> String {
    const P: [&str; 12] = ["a", "bc", "é", "😀", " ", "\n", "\u{0}", "xyz", "日本", "\"", "Z", "0123456789"];
    let n = match rng.below(6) {
        0 => 0,
        1..=3 => 1 + rng.below(3),
        4 => 1 + rng.below(12),
        _ => 20 + rng.below(150),
    };
    (0..n).map(|_| *rng.pick(&P[..])).collect()
}

fn gen_long(rng: &mut Rng, lo: i64, hi: i64) -> i64 {
    match rng.below(8) {
        0 => lo,
        1 => hi,
        2 => 0,
        3 => rng.range(-64, 64).clamp(lo, hi),
        4 => rng.range(-8192, 8192).clamp(lo, hi),
        5 => rng.range(-(1 << 30), 1 << 30).clamp(lo, hi),
        _ => rng.range(lo, hi),
    }
}

fn gen_aval(rng: &mut Rng, k: AK) -> Val {
    match k {
        AK::Int => Val::Int(gen_long(rng, i32::MIN as i64, i32::MAX as i64) as i128),
        AK::Long => Val::Int(gen_long(rng, i64::MIN, i64::MAX) as i128),
        AK::Float => Val::F32(rng.u32()),
        AK::Double => Val::F64(rng.u64()),
        AK::Bool => Val::Bool(rng.bool()),
        AK::Str => Val::Str(small_str(rng)),
        AK::Bytes => {
            let n = match rng.below(4) {
                0 => 0,
                1 | 2 => rng.below(6),
                _ => rng.below(200),
            };
            Val::Bytes(rng.bytes(n))
        }
        AK::NLong => {
            if rng.chance(1, 3) {
                Val::Null
            } else {
                Val::Int(gen_long(rng, i64::MIN, i64::MAX) as i128)
            }
        }
        AK::NStr => {
            if rng.chance(1, 3) {
                Val::Null
            } else {
                Val::Str(small_str(rng))
            }
        }
        AK::ArrInt => Val::List((0..rng.below(5)).map(|_| Val::Int(gen_long(rng, i32::MIN as i64, i32::MAX as i64) as i128)).collect()),
        AK::ArrStr => Val::List((0..rng.below(4)).map(|_| Val::Str(small_str(rng))).collect()),
        AK::Enum => Val::Str(rng.pick(&SYMBOLS).to_string()),
        AK::Fixed4 => Val::Bytes(rng.bytes(4)),
        AK::MapLong => Val::List((0..rng.below(4)).map(|i| Val::Struct(vec![Val::Str(format!("k{i}{}", small_str(rng))), Val::Int(gen_long(rng, i64::MIN, i64::MAX) as i128)])).collect()),
    }
}

/// array / map block structure: one block, several blocks, negative counts with byte sizes
fn enc_blocks(rng: &mut Rng, items: &[Val], out: &mut Vec<u8>, mut enc_item: impl FnMut(&mut Rng, &Val, &mut Vec<u8>)) {
    let mut i = 0;
    while i < items.len() {
        let n = if rng.chance(2, 3) { items.len() - i } else { 1 + rng.below(items.len() - i) };
        let mut body = Vec::new();
        for it in &items[i..i + n] {
            enc_item(rng, it, &mut body);
        }
        if rng.chance(1, 3) {
            zigzag(-(n as i64), out);
            zigzag(body.len() as i64, out);
        } else {
            zigzag(n as i64, out);
        }
        out.extend(body);
        i += n;
    }
    zigzag(0, out);
}

fn enc_aval(rng: &mut Rng, k: AK, v: &Val, out: &mut Vec<u8>) {
    match (k, v) {
        (AK::Int, Val::Int(i)) | (AK::Long, Val::Int(i)) => zigzag(*i as i64, out),
        (AK::Float, Val::F32(b)) => out.extend(b.to_le_bytes()),
        (AK::Double, Val::F64(b)) => out.extend(b.to_le_bytes()),
        (AK::Bool, Val::Bool(b)) => out.push(*b as u8),
        (AK::Str, Val::Str(s)) => {
            zigzag(s.len() as i64, out);
            out.extend(s.as_bytes());
        }
        (AK::Bytes, Val::Bytes(b)) => {
            zigzag(b.len() as i64, out);
            out.extend(b);
        }
        (AK::NLong, Val::Null) | (AK::NStr, Val::Null) => zigzag(0, out),
        (AK::NLong, v) => {
            zigzag(1, out);
            enc_aval(rng, AK::Long, v, out);
        }
        (AK::NStr, v) => {
            zigzag(1, out);
            enc_aval(rng, AK::Str, v, out);
        }
        (AK::ArrInt, Val::List(l)) => enc_blocks(rng, l, out, |r, it, o| enc_aval(r, AK::Int, it, o)),
        (AK::ArrStr, Val::List(l)) => enc_blocks(rng, l, out, |r, it, o| enc_aval(r, AK::Str, it, o)),
        (AK::Enum, Val::Str(s)) => zigzag(SYMBOLS.iter().position(|x| x == s).expect("model: symbol") as i64, out),
        (AK::Fixed4, Val::Bytes(b)) => out.extend(b),
        (AK::MapLong, Val::List(l)) => enc_blocks(rng, l, out, |r, it, o| {
            if let Val::Struct(kv) = it {
                enc_aval(r, AK::Str, &kv[0], o);
                enc_aval(r, AK::Long, &kv[1], o);
            }
        }),
        _ => panic!("model: enc_aval {k:?} {v:?}"),
    }
}

#[derive(Clone, Debug)]
struct ASchema {
    kinds: Vec<AK>,
    json: String,
}

fn gen_aschema(rng: &mut Rng, tag: &str, max_fields: usize) -> ASchema {
    let n = 1 + rng.below(max_fields);
    let kinds: Vec<AK> = (0..n).map(|_| *rng.pick(&ALL_AK)).collect();
    mk_aschema(&kinds, tag)
}

fn mk_aschema(kinds: &[AK], tag: &str) -> ASchema {
    let fields: Vec<String> = kinds.iter().enumerate().map(|(i, k)| format!("{{\"name\":\"f{i}\",\"type\":{}}}", k.json(&format!("{tag}x{i}")))).collect();
    ASchema { kinds: kinds.to_vec(), json: format!("{{\"type\":\"record\",\"name\":\"R{tag}\",\"fields\":[{}]}}", fields.join(",")) }
}

fn gen_row(rng: &mut Rng, s: &ASchema) -> Vec<Val> {
    s.kinds.iter().map(|k| gen_aval(rng, *k)).collect()
}

fn enc_row(rng: &mut Rng, s: &ASchema, row: &[Val], out: &mut Vec<u8>) {
    for (k, v) in s.kinds.iter().zip(row) {
        enc_aval(rng, *k, v, out);
    }
}

fn kinds_class(s: &ASchema) -> String {
    let mut k: Vec<&str> = s.kinds.iter().map(|k| k.name()).collect();
    k.sort_unstable();
    k.dedup();
    if k.len() > 3 { format!("{}+{}more", k[..2].join("+"), k.len() - 2) } else { k.join("+") }
}

// ------------------------------------------------------------------ SOE / Confluent decoder

#[derive(Clone, Debug)]
struct SoeCfg {
    schemas: Vec<ASchema>,
    /// 0 Rabin, 1 Id (4 byte BE), 2 Id64 (8 byte BE)
    algo: u8,
    ids: Vec<u64>,
    active: usize,
    batch: usize,
    utf8_view: bool,
    strict: bool,
}

impl SoeCfg {
    fn store(&self) -> Result<(SchemaStore, Vec<Fingerprint>), String> {
        let mut fps = Vec::new();
        let mut store = match self.algo {
            0 => SchemaStore::new(),
            1 => SchemaStore::new_with_type(FingerprintAlgorithm::Id),
            _ => SchemaStore::new_with_type(FingerprintAlgorithm::Id64),
        };
        for (i, s) in self.schemas.iter().enumerate() {
            let a = AvroSchema::new(s.json.clone());
            let fp = match self.algo {
                0 => store.register(a).map_err(|e| format!("register: {e}"))?,
                1 => store.set(Fingerprint::Id(self.ids[i] as u32), a).map_err(|e| format!("set: {e}"))?,
                _ => store.set(Fingerprint::Id64(self.ids[i]), a).map_err(|e| format!("set: {e}"))?,
            };
            fps.push(fp);
        }
        Ok((store, fps))
    }
    fn prefix(&self, fp: &Fingerprint, out: &mut Vec<u8>) {
        match fp {
            Fingerprint::Rabin(v) => {
                out.extend([0xC3, 0x01]);
                out.extend(v.to_le_bytes());
            }
            Fingerprint::Id(v) => {
                out.push(0);
                out.extend(v.to_be_bytes());
            }
            Fingerprint::Id64(v) => {
                out.push(0);
                out.extend(v.to_be_bytes());
            }
            #[allow(unreachable_patterns)]
            _ => panic!("model: fingerprint kind"),
        }
    }
    fn decoder(&self) -> Result<arrow_avro::reader::Decoder, String> {
        let (store, fps) = self.store()?;
        ReaderBuilder::new()
            .with_writer_schema_store(store)
            .with_active_fingerprint(fps[self.active])
            .with_batch_size(self.batch)
            .with_utf8_view(self.utf8_view)
            .with_strict_mode(self.strict)
            .build_decoder()
            .map_err(|e| format!("build_decoder: {e}"))
    }
    fn class(&self) -> String {
        format!("{}|b{}|{}schemas{}", ["rabin", "id", "id64"][self.algo as usize], if self.batch > 16 { "big".into() } else { self.batch.min(4).to_string() }, self.schemas.len(), if self.utf8_view { "|view" } else { "" })
    }
    fn describe(&self) -> String {
        let mut s = format!("avro decoder cfg: framing={} batch_size={} utf8_view={} strict={} active_schema={}\n", ["single-object/Rabin", "Confluent/Id", "Id64"][self.algo as usize], self.batch, self.utf8_view, self.strict, self.active);
        for (i, a) in self.schemas.iter().enumerate() {
            s.push_str(&format!("writer schema {i}: {}\n", a.json));
        }
        s
    }
}

/// Rolling buffer protocol: bytes `decode` did not consume are offered again together with the next
/// chunk. Mandatory flush when the batch is full; optional flushes between `decode` calls (aux).
fn run_soe_decoder(data: &[u8], cfg: &SoeCfg, s: &Sched) -> Obs {
    let mut o = Obs::new();
    let r = guard(|| -> Result<(), String> {
        let mut dec = cfg.decoder()?;
        let mut d = Decide::new(s.aux);
        let mut pending: Vec<u8> = Vec::new();
        let mut calls = 0u64;
        for chunk in s.chunks(data) {
            pending.extend_from_slice(chunk);
            loop {
                calls += 1;
                if calls > 4_000_000 {
                    return Err("stuck: decode loop does not terminate".into());
                }
                let n = dec.decode(&pending).map_err(|e| e.to_string())?;
                if n > pending.len() {
                    return Err(format!("decode consumed {n} of {} bytes", pending.len()));
                }
                pending.drain(..n);
                if dec.batch_is_full() {
                    match dec.flush().map_err(|e| format!("flush: {e}"))? {
                        Some(b) => o.push(&b),
                        None => return Err("batch_is_full but flush returned None".into()),
                    }
                    continue;
                }
                if d.opt() {
                    if let Some(b) = dec.flush().map_err(|e| format!("flush: {e}"))? {
                        o.push(&b);
                    }
                }
                if n == 0 || pending.is_empty() {
                    break;
                }
            }
        }
        while let Some(b) = dec.flush().map_err(|e| format!("flush: {e}"))? {
            o.push(&b);
        }
        o.tail = if pending.is_empty() { String::new() } else { "leftover".into() };
        if !pending.is_empty() {
            o.notes.push(format!("leftover-at-eof"));
        }
        Ok(())
    });
    o.out = match r {
        Ok(Ok(())) => Out::Ok,
        Ok(Err(e)) => Out::Err(e),
        Err(p) => Out::Panic(p),
    };
    o
}

struct SoeInput {
    data: Vec<u8>,
    /// (schema index, rows as columns) per run
    runs: Vec<(usize, Vec<Vec<Val>>)>,
    /// frame start offsets (for split points)
    frames: Vec<usize>,
}

fn gen_soe_input(rng: &mut Rng, cfg: &SoeCfg, max_rows: usize) -> Result<SoeInput, String> {
    let (_, fps) = cfg.store()?;
    let mut data = Vec::new();
    let mut runs: Vec<(usize, Vec<Vec<Val>>)> = Vec::new();
    let mut frames = Vec::new();
    let nrows = match rng.below(5) {
        0 => rng.below(3),
        _ => 1 + rng.below(max_rows),
    };
    let mut cur = if rng.bool() { cfg.active } else { rng.below(cfg.schemas.len()) };
    for _ in 0..nrows {
        if cfg.schemas.len() > 1 && rng.chance(1, 4) {
            cur = rng.below(cfg.schemas.len());
        }
        let sc = &cfg.schemas[cur];
        let row = gen_row(rng, sc);
        frames.push(data.len());
        cfg.prefix(&fps[cur], &mut data);
        enc_row(rng, sc, &row, &mut data);
        match runs.last_mut() {
            Some((i, cols)) if *i == cur => {
                for (c, v) in cols.iter_mut().zip(row) {
                    c.push(v);
                }
            }
            _ => runs.push((cur, row.into_iter().map(|v| vec![v]).collect())),
        }
    }
    Ok(SoeInput { data, runs, frames })
}

fn compare_runs(base: &Obs, runs: &[(usize, Vec<Vec<Val>>)]) -> Option<String> {
    if base.segs.len() != runs.len() {
        return Some(format!("expected {} schema runs, decoder produced {}", runs.len(), base.segs.len()));
    }
    for (i, ((_, got), (_, exp))) in base.segs.iter().zip(runs).enumerate() {
        let one = Obs { segs: vec![(base.segs[i].0.clone(), got.clone())], ..Obs::new() };
        if let Some(d) = compare_model(&one, exp) {
            return Some(format!("schema run {i}: {d}"));
        }
    }
    None
}

fn check_soe(ctx: &mut Ctx, data: &[u8], cfg: &SoeCfg, validity: &str, runs: Option<&[(usize, Vec<Vec<Val>>)]>, scheds: &[Sched], origin: &str) {
    let witness = || format!("{origin}\n{}input ({} bytes) hex: {}", cfg.describe(), data.len(), hex(data));
    let cmp = Cmp { limit: Some(cfg.batch), strict_msg: 0, valid: validity == "valid" };
    let broken = brk("avro-soe");
    let base = check_input(ctx, "avro-soe", validity, &cfg.class(), data.len(), scheds, &cmp, &witness, &mut |s: &Sched| {
        let mut o = run_soe_decoder(data, cfg, s);
        if let Some(how) = &broken {
            break_obs(&mut o, how, s);
        }
        o
    });
    let Some(base) = base else { return };
    if let Some(runs) = runs {
        if matches!(base.out, Out::Ok) && base.tail.is_empty() {
            if let Some(d) = compare_runs(&base, runs) {
                side(ctx, "avro-soe", "model-rows", &format!("{}\nsingle chunk output differs from the encoded values: {d}\n{}", witness(), base.dump()));
            }
        } else {
            side(ctx, "avro-soe", &format!("model-outcome-{}", base.out.class()), &format!("{}\nthe decoder did not accept a well formed input in one chunk: {} tail [{}]", witness(), base.out.text(), base.tail));
        }
    }
    ctx.sample(|| format!("{}\n=> {} rows, {}", witness(), base.rows(), base.out.text()));
}

fn soe_plan(ctx: &Ctx, rng: &mut Rng, n: usize, frames: &[usize]) -> Vec<Sched> {
    let mut plan = Plan::standard(ctx.tier.pick(64, 500, 3000), ctx.tier.pick(8, 40, 200), true);
    plan.auxes = vec![0, 1, 2 + rng.u64() % 1000];
    plan.points = frames.iter().copied().take(40).collect();
    schedules(rng, n, &plan)
}

fn gen_soe_cfg(rng: &mut Rng, max_fields: usize) -> SoeCfg {
    let ns = *rng.pick(&[1usize, 1, 2, 2, 3]);
    let tag = rng.below(1000);
    let schemas: Vec<ASchema> = (0..ns).map(|i| gen_aschema(rng, &format!("{tag}s{i}"), max_fields)).collect();
    let algo = *rng.pick(&[0u8, 0, 1, 1, 2]);
    let mut ids: Vec<u64> = Vec::new();
    while ids.len() < ns {
        let v = match rng.below(4) {
            0 => ids.len() as u64,
            1 => 0xC301 + ids.len() as u64,
            _ => rng.u64() >> if algo == 1 { 32 } else { 0 },
        };
        if !ids.contains(&v) {
            ids.push(v);
        }
    }
    SoeCfg { schemas, algo, ids, active: rng.below(ns), batch: *rng.pick(&[1usize, 2, 3, 1024, 1, 2, 3, 1024, 5]), utf8_view: rng.chance(1, 4), strict: rng.chance(1, 4) }
}

pub fn run_soe(ctx: &mut Ctx) {
    let total = ctx.tier.pick(6, 16_000, 600_000);
    let budget = Budget::new(ctx, 2.0, 7.0, 110.0);
    for i in cases_from(ctx, "avro-soe", total) {
        if budget.over(ctx) {
            break;
        }
        let mut rng = ctx.begin("avro-soe", i);
        case_done("avro-soe");
        let cfg = gen_soe_cfg(&mut rng, 5);
        let inp = match guard(|| gen_soe_input(&mut rng, &cfg, ctx.tier.pick(6, 14, 40))) {
            Ok(Ok(i)) => i,
            Ok(Err(e)) => {
                // the store declined the generated schema: not this property's subject
                ctx.reject();
                ctx.count(&format!("avro-soe:store-rejected:{}", msg_class(&e)), 1);
                continue;
            }
            Err(p) => {
                ctx.inconclusive(&format!("avro input generation panicked: {} @ {}", p.msg, p.loc));
                continue;
            }
        };
        let scheds = soe_plan(ctx, &mut rng, inp.data.len(), &inp.frames);
        let kc = cfg.schemas.iter().map(kinds_class).collect::<Vec<_>>().join("/");
        ctx.count("avro-soe:valid-inputs", 1);
        check_soe(ctx, &inp.data, &cfg, "valid", Some(&inp.runs), &scheds, &format!("origin: hand-encoded framed records; field kinds {kc}"));
        for _ in 0..ctx.tier.pick(1, 2, 3) {
            let mut bad = inp.data.clone();
            let how = match rng.below(5) {
                0 if !bad.is_empty() => {
                    let k = rng.below(bad.len());
                    bad.truncate(k);
                    "truncate"
                }
                1 if !bad.is_empty() => {
                    let k = rng.below(bad.len());
                    bad[k] = rng.u8();
                    "replace"
                }
                2 if !inp.frames.is_empty() => {
                    // unknown fingerprint / broken magic on one frame
                    let f = *rng.pick(&inp.frames);
                    let k = f + rng.below(3);
                    if k < bad.len() {
                        bad[k] ^= 0x5a;
                    }
                    "prefix-corrupt"
                }
                3 => {
                    let extra = 1 + rng.below(12);
                    bad.extend(rng.bytes(extra));
                    "append-garbage"
                }
                _ => {
                    let k = rng.below(bad.len() + 1);
                    bad.insert(k, rng.u8());
                    "insert"
                }
            };
            let scheds = soe_plan(ctx, &mut rng, bad.len(), &inp.frames);
            ctx.count(&format!("avro-soe:mutation-{how}"), 1);
            check_soe(ctx, &bad, &cfg, "mutated", None, &scheds, &format!("origin: {how} mutation of hand-encoded framed records; field kinds {kc}"));
        }
    }
}

// ------------------------------------------------------------------ hand-built SOE edge inputs (all partitions)

struct SoeEdge {
    name: &'static str,
    kinds: Vec<Vec<AK>>,
    algo: u8,
    /// rows: (schema index, values)
    rows: Vec<(usize, Vec<Val>)>,
    /// raw bytes appended after the encoded rows
    extra: Vec<u8>,
    valid: bool,
}

fn soe_edges() -> Vec<SoeEdge> {
    let i = |v: i64| Val::Int(v as i128);
    let s = |v: &str| Val::Str(v.to_string());
    vec![
        SoeEdge { name: "one-long", kinds: vec![vec![AK::Long]], algo: 1, rows: vec![(0, vec![i(7)]), (0, vec![i(-300)])], extra: vec![], valid: true },
        SoeEdge { name: "wide-varint", kinds: vec![vec![AK::Long]], algo: 1, rows: vec![(0, vec![i(i64::MIN)])], extra: vec![], valid: true },
        SoeEdge { name: "two-fields", kinds: vec![vec![AK::Long, AK::Str]], algo: 1, rows: vec![(0, vec![i(1), s("ab")])], extra: vec![], valid: true },
        SoeEdge { name: "two-fields-two-rows", kinds: vec![vec![AK::Int, AK::Int]], algo: 1, rows: vec![(0, vec![i(1), i(2)]), (0, vec![i(3), i(4)])], extra: vec![], valid: true },
        SoeEdge { name: "string-emoji", kinds: vec![vec![AK::Str]], algo: 1, rows: vec![(0, vec![s("😀é")])], extra: vec![], valid: true },
        SoeEdge { name: "array", kinds: vec![vec![AK::ArrInt]], algo: 1, rows: vec![(0, vec![Val::List(vec![i(1), i(-2), i(300)])])], extra: vec![], valid: true },
        SoeEdge { name: "nullable", kinds: vec![vec![AK::NLong, AK::NStr]], algo: 1, rows: vec![(0, vec![Val::Null, s("x")]), (0, vec![i(5), Val::Null])], extra: vec![], valid: true },
        SoeEdge { name: "rabin-one-row", kinds: vec![vec![AK::Int, AK::Bool]], algo: 0, rows: vec![(0, vec![i(-1), Val::Bool(true)])], extra: vec![], valid: true },
        SoeEdge { name: "schema-switch", kinds: vec![vec![AK::Int], vec![AK::Str]], algo: 1, rows: vec![(0, vec![i(1)]), (1, vec![s("z")])], extra: vec![], valid: true },
        SoeEdge { name: "double-bool", kinds: vec![vec![AK::Double, AK::Bool]], algo: 1, rows: vec![(0, vec![Val::F64(1.5f64.to_bits()), Val::Bool(false)])], extra: vec![], valid: true },
        SoeEdge { name: "truncated-body", kinds: vec![vec![AK::Long, AK::Str]], algo: 1, rows: vec![(0, vec![i(1), s("ab")])], extra: vec![0, 0, 0, 0, 0, 2], valid: false },
        SoeEdge { name: "bad-magic", kinds: vec![vec![AK::Int]], algo: 1, rows: vec![(0, vec![i(1)])], extra: vec![9, 0, 0, 0, 0, 2], valid: false },
        SoeEdge { name: "unknown-id", kinds: vec![vec![AK::Int]], algo: 1, rows: vec![(0, vec![i(1)])], extra: vec![0, 0, 0, 0, 99, 2], valid: false },
        SoeEdge { name: "partial-prefix", kinds: vec![vec![AK::Int]], algo: 1, rows: vec![(0, vec![i(1)])], extra: vec![0, 0, 0], valid: false },
    ]
}

pub fn run_exh(ctx: &mut Ctx) -> bool {
    let mut complete = true;
    let budget = Budget::new(ctx, 2.0, 10.0, 60.0);
    let edges = soe_edges();
    let total = (edges.len() * 4) as u64;
    for i in ctx.cases("avro-exh", total) {
        if budget.over(ctx) {
            complete = false;
            break;
        }
        let mut rng = ctx.begin("avro-exh", i);
        let Some(e) = edges.get(i as usize / 4) else { continue };
        let schemas: Vec<ASchema> = e.kinds.iter().enumerate().map(|(j, k)| mk_aschema(k, &format!("e{j}"))).collect();
        let cfg = SoeCfg { ids: (1..=schemas.len() as u64).collect(), schemas, algo: e.algo, active: 0, batch: [1usize, 2, 3, 1024][i as usize % 4], utf8_view: false, strict: false };
        let Ok((_, fps)) = cfg.store() else {
            ctx.inconclusive("avro-exh: schema store declined a hand-built schema");
            continue;
        };
        let mut data = Vec::new();
        let mut runs: Vec<(usize, Vec<Vec<Val>>)> = Vec::new();
        let mut frames = vec![];
        for (si, row) in &e.rows {
            frames.push(data.len());
            cfg.prefix(&fps[*si], &mut data);
            enc_row(&mut rng, &cfg.schemas[*si], row, &mut data);
            match runs.last_mut() {
                Some((j, cols)) if j == si => {
                    for (c, v) in cols.iter_mut().zip(row) {
                        c.push(v.clone());
                    }
                }
                _ => runs.push((*si, row.iter().map(|v| vec![v.clone()]).collect())),
            }
        }
        data.extend(&e.extra);
        let n = data.len();
        let scheds = if n <= 14 {
            ctx.count("exhaustive-partition-sets", 3);
            exhaustive_schedules(n, &[0, 1, 77])
        } else {
            // all partitions of a 12 byte window sliding over the whole input
            let mut plan = Plan::standard(64, 32, true);
            plan.windows = (0..n).step_by(6).map(|s| (s, 12)).collect();
            ctx.count("exhaustive-window-sets", plan.windows.len() as u64);
            schedules(&mut rng, n, &plan)
        };
        let validity = format!("edge:{}", e.name);
        check_soe(ctx, &data, &cfg, if e.valid { "valid" } else { &validity }, if e.valid { Some(&runs) } else { None }, &scheds, &format!("origin: hand-built edge input '{}'", e.name));
    }
    complete
}

// ------------------------------------------------------------------ OCF reader over arbitrary fill_buf slices

#[derive(Clone, Debug)]
struct OcfCfg {
    batch: usize,
    utf8_view: bool,
    strict: bool,
}

impl OcfCfg {
    fn builder(&self) -> ReaderBuilder {
        ReaderBuilder::new().with_batch_size(self.batch).with_utf8_view(self.utf8_view).with_strict_mode(self.strict)
    }
}

fn drain_reader<R: std::io::BufRead>(o: &mut Obs, data_reader: R, cfg: &OcfCfg) -> Result<(), String> {
    let mut rd = cfg.builder().build(data_reader).map_err(|e| format!("build: {e}"))?;
    o.decl = Some(rd.schema());
    for b in &mut rd {
        o.push(&b.map_err(|e| e.to_string())?);
    }
    Ok(())
}

fn run_ocf_reader(data: &[u8], cfg: &OcfCfg, s: &Sched) -> Obs {
    let mut o = Obs::new();
    let r = guard(|| -> Result<(), String> {
        if s.lens.len() == 1 && s.aux == 0 {
            // one-shot: the whole file in one slice
            drain_reader(&mut o, Cursor::new(data), cfg)
        } else {
            drain_reader(&mut o, ChunkRead::new(data, s), cfg)
        }
    });
    o.out = match r {
        Ok(Ok(())) => Out::Ok,
        Ok(Err(e)) => Out::Err(e),
        Err(p) => Out::Panic(p),
    };
    o
}

/// `read_header_info` under a schedule: header length, schema text and codec must not depend on it
fn header_info(data: &[u8], s: &Sched) -> String {
    match guard(|| arrow_avro::reader::read_header_info(ChunkRead::new(data, s))) {
        Ok(Ok(h)) => format!("ok len={} sync={:?} schema={:?} codec={:?}", h.header_len(), h.sync(), h.writer_schema().map(|s| s.json_string).map_err(|e| e.to_string()), h.compression().map_err(|e| e.to_string())),
        Ok(Err(e)) => format!("err {}", msg_class(&e.to_string())),
        Err(p) => format!("panic {}", p.file()),
    }
}

struct OcfFile {
    data: Vec<u8>,
    /// offsets of block starts / sync markers (split points of interest)
    points: Vec<usize>,
    header_len: usize,
    /// (row count, encoded rows) of every block
    blocks: Vec<(i64, Vec<u8>)>,
}

fn rd_varint(b: &[u8], p: &mut usize) -> Option<i64> {
    let mut v: u64 = 0;
    let mut shift = 0;
    loop {
        let c = *b.get(*p)?;
        *p += 1;
        if shift >= 64 {
            return None;
        }
        v |= ((c & 0x7f) as u64) << shift;
        shift += 7;
        if c & 0x80 == 0 {
            return Some((v >> 1) as i64 ^ -((v & 1) as i64));
        }
    }
}

/// `Reader::read` spins forever when a block's record count is smaller than the number of
/// records its data decodes to (`block_count == 0` while `block_cursor < block_data.len()`), which
/// any corruption of record bytes, counts or sizes can produce (chunk independent; C08's subject,
/// and not interruptible in-process). Mutated files are therefore pre-screened with our own
/// container parser: every *complete, correctly synced* block the reader would decode must be one
/// of the original blocks (same count, same bytes) under the original schema; everything that
/// fails earlier (header, varints, sync, EOF) is fine. `false` = hang risk, input skipped.
fn ocf_safe(bad: &[u8], schema_json: &[u8], blocks: &[(i64, Vec<u8>)]) -> bool {
    if bad.len() < 4 || &bad[..4] != b"Obj\x01" {
        return true;
    }
    let mut p = 4usize;
    let mut schemas: Vec<&[u8]> = Vec::new();
    let mut codec_ok = true;
    loop {
        let Some(mut c) = rd_varint(bad, &mut p) else { return true };
        if c == 0 {
            break;
        }
        if c < 0 {
            c = c.checked_neg().unwrap_or(i64::MAX);
            if rd_varint(bad, &mut p).is_none() {
                return true;
            }
        }
        for _ in 0..c {
            let Some(kl) = rd_varint(bad, &mut p) else { return true };
            let Some(ke) = usize::try_from(kl).ok().and_then(|l| p.checked_add(l)).filter(|e| *e <= bad.len()) else { return true };
            let key = &bad[p..ke];
            p = ke;
            let Some(vl) = rd_varint(bad, &mut p) else { return true };
            let Some(ve) = usize::try_from(vl).ok().and_then(|l| p.checked_add(l)).filter(|e| *e <= bad.len()) else { return true };
            let val = &bad[p..ve];
            p = ve;
            if key == b"avro.schema" {
                schemas.push(val);
            }
            if key == b"avro.codec" && val != b"null" {
                codec_ok = false;
            }
        }
    }
    if p + 16 > bad.len() {
        return true;
    }
    let sync = &bad[p..p + 16];
    p += 16;
    if schemas.len() != 1 || schemas[0] != schema_json || !codec_ok {
        // another schema / codec: we cannot predict how many bytes a record takes
        return schemas.is_empty();
    }
    loop {
        if p >= bad.len() {
            return true;
        }
        let Some(count) = rd_varint(bad, &mut p) else { return true };
        if count < 0 {
            return true;
        }
        let Some(size) = rd_varint(bad, &mut p) else { return true };
        let Some(de) = usize::try_from(size).ok().and_then(|l| p.checked_add(l)).filter(|e| e.checked_add(16).is_some_and(|x| x <= bad.len())) else { return true };
        let data = &bad[p..de];
        if &bad[de..de + 16] != sync {
            return true;
        }
        p = de + 16;
        if !blocks.iter().any(|(c, d)| *c == count && d.as_slice() == data) {
            return false;
        }
    }
}

fn write_ocf(rng: &mut Rng, s: &ASchema, rows: &[Vec<Val>]) -> OcfFile {
    let mut out = Vec::new();
    out.extend(b"Obj\x01");
    let mut entries: Vec<(String, Vec<u8>)> = vec![("avro.schema".into(), s.json.as_bytes().to_vec())];
    if rng.bool() {
        entries.push(("avro.codec".into(), b"null".to_vec()));
    }
    if rng.chance(1, 3) {
        let nb = rng.below(20);
        entries.push(("user.note".into(), rng.bytes(nb)));
    }
    if rng.chance(1, 4) {
        entries.push(("".into(), vec![]));
    }
    rng.shuffle(&mut entries);
    // map blocks
    let mut i = 0;
    while i < entries.len() {
        let n = if rng.bool() { entries.len() - i } else { 1 + rng.below(entries.len() - i) };
        let mut body = Vec::new();
        for (k, v) in &entries[i..i + n] {
            zigzag(k.len() as i64, &mut body);
            body.extend(k.as_bytes());
            zigzag(v.len() as i64, &mut body);
            body.extend(v);
        }
        if rng.chance(1, 3) {
            zigzag(-(n as i64), &mut out);
            zigzag(body.len() as i64, &mut out);
        } else {
            zigzag(n as i64, &mut out);
        }
        out.extend(body);
        i += n;
    }
    zigzag(0, &mut out);
    let sync = rng.bytes(16);
    out.extend(&sync);
    let header_len = out.len();
    let mut blocks = Vec::new();
    let mut points = vec![header_len - 16, header_len];
    let mut r = 0;
    while r < rows.len() || rng.chance(1, 8) {
        let n = if r >= rows.len() { 0 } else if rng.chance(1, 8) { 0 } else { 1 + rng.below((rows.len() - r).min(9)) };
        let mut body = Vec::new();
        for row in &rows[r..r + n] {
            enc_row(rng, s, row, &mut body);
        }
        points.push(out.len());
        zigzag(n as i64, &mut out);
        zigzag(body.len() as i64, &mut out);
        out.extend(&body);
        blocks.push((n as i64, body));
        points.push(out.len());
        out.extend(&sync);
        r += n;
    }
    OcfFile { data: out, points, header_len, blocks }
}

fn check_ocf(ctx: &mut Ctx, rng: &mut Rng, data: &[u8], cfg: &OcfCfg, validity: &str, model: Option<&[Vec<Val>]>, points: &[usize], origin: &str, cfg_class: &str) {
    let witness = || format!("{origin}\navro OCF reader cfg: batch_size={} utf8_view={} strict={}\ninput ({} bytes) hex: {}", cfg.batch, cfg.utf8_view, cfg.strict, data.len(), hex(data));
    let mut plan = Plan::standard(ctx.tier.pick(64, 400, 3000), ctx.tier.pick(8, 40, 200), true);
    plan.points = points.iter().copied().take(60).collect();
    plan.auxes = vec![0];
    let scheds = schedules(rng, data.len(), &plan);
    let cmp = Cmp { limit: Some(cfg.batch), strict_msg: 0, valid: validity == "valid" };
    let broken = brk("avro-ocf");
    let base = check_input(ctx, "avro-ocf", validity, cfg_class, data.len(), &scheds, &cmp, &witness, &mut |s: &Sched| {
        let mut o = run_ocf_reader(data, cfg, s);
        if let Some(how) = &broken {
            break_obs(&mut o, how, s);
        }
        o
    });
    let Some(base) = base else { return };
    // header info under a sample of the schedules
    let h0 = header_info(data, &Sched::whole(data.len()));
    let mut hn = 0u64;
    for s in scheds.iter().filter(|s| s.kind != "window").take(ctx.tier.pick(20, 120, 600)) {
        let h = header_info(data, s);
        hn += 1;
        if h != h0 {
            ctx.violation(&format!("{P}|avro-header|{validity}|header-info"), format!("{}\nschedule: {}\nread_header_info, single slice: {h0}\nthis schedule: {h}", witness(), s.describe()));
        }
    }
    ctx.count("avro-header:schedules", hn);
    ctx.count("schedules", hn);
    if let Some(m) = model {
        if matches!(base.out, Out::Ok) {
            if let Some(d) = compare_model(&base, m) {
                // zero rows: the reader yields no batch at all
                side(ctx, "avro-ocf", "model-rows", &format!("{}\nsingle slice output differs from the encoded values: {d}\n{}", witness(), base.dump()));
            }
        } else {
            side(ctx, "avro-ocf", &format!("model-outcome-{}", base.out.class()), &format!("{}\nthe reader did not accept a well formed file: {}", witness(), base.out.text()));
        }
    }
    ctx.sample(|| format!("{}\n=> {} rows, {}", witness(), base.rows(), base.out.text()));
}

pub fn run_ocf(ctx: &mut Ctx) {
    use arrow_avro::compression::CompressionCodec;
    let total = ctx.tier.pick(6, 16_000, 600_000);
    let budget = Budget::new(ctx, 2.0, 7.0, 110.0);
    for i in cases_from(ctx, "avro-ocf", total) {
        if budget.over(ctx) {
            break;
        }
        let mut rng = ctx.begin("avro-ocf", i);
        case_done("avro-ocf");
        let tag = format!("o{}", rng.below(1000));
        let sc = gen_aschema(&mut rng, &tag, 5);
        let nrows = match rng.below(5) {
            0 => rng.below(3),
            _ => 1 + rng.below(ctx.tier.pick(8, 30, 80)),
        };
        let rows: Vec<Vec<Val>> = (0..nrows).map(|_| gen_row(&mut rng, &sc)).collect();
        let model: Vec<Vec<Val>> = (0..sc.kinds.len()).map(|j| rows.iter().map(|r| r[j].clone()).collect()).collect();
        let f = write_ocf(&mut rng, &sc, &rows);
        let cfg = OcfCfg { batch: *rng.pick(&[1usize, 2, 3, 1024, 1, 2, 3, 1024, 5]), utf8_view: rng.chance(1, 4), strict: rng.chance(1, 4) };
        let kc = kinds_class(&sc);
        let bclass = format!("b{}|{kc}", if cfg.batch > 16 { "big".into() } else { cfg.batch.min(4).to_string() });
        ctx.count("avro-ocf:valid-inputs", 1);
        check_ocf(ctx, &mut rng, &f.data, &cfg, "valid", Some(&model), &f.points, &format!("origin: hand-encoded container file, header {} bytes; field kinds {kc}", f.header_len), &bclass);
        // the same rows re-written by the arrow-avro writer with a compression codec
        if rng.chance(1, 2) && nrows > 0 {
            let codec = *rng.pick(&[None, Some(CompressionCodec::Deflate), Some(CompressionCodec::Snappy), Some(CompressionCodec::ZStandard), Some(CompressionCodec::Bzip2), Some(CompressionCodec::Xz)]);
            let r = guard(|| -> Result<Vec<u8>, String> {
                let mut batches: Vec<RecordBatch> = Vec::new();
                // one block per written batch: few blocks for the slow codecs
                let bs = if matches!(codec, Some(CompressionCodec::Bzip2) | Some(CompressionCodec::Xz)) { 12 + rng.below(40) } else { 1 + rng.below(20) };
                let rd = ReaderBuilder::new().with_batch_size(bs).build(Cursor::new(&f.data)).map_err(|e| e.to_string())?;
                let schema = rd.schema();
                for b in rd {
                    batches.push(b.map_err(|e| e.to_string())?);
                }
                let mut w = arrow_avro::writer::WriterBuilder::new(schema.as_ref().clone()).with_compression(codec).build::<_, arrow_avro::writer::format::AvroOcfFormat>(Vec::new()).map_err(|e| e.to_string())?;
                for b in &batches {
                    w.write(b).map_err(|e| e.to_string())?;
                }
                w.finish().map_err(|e| e.to_string())?;
                Ok(w.into_inner())
            });
            match r {
                Ok(Ok(bytes)) => {
                    ctx.count(&format!("avro-ocf:writer-codec-{codec:?}"), 1);
                    check_ocf(ctx, &mut rng, &bytes, &cfg, "valid", Some(&model), &[], &format!("origin: arrow_avro AvroWriter, codec {codec:?}; field kinds {kc}"), &format!("{bclass}|{codec:?}"));
                }
                Ok(Err(e)) => {
                    ctx.reject();
                    ctx.count(&format!("avro-ocf:writer-rejected:{}", msg_class(&e)), 1);
                }
                Err(p) => {
                    ctx.reject();
                    ctx.count(&format!("avro-ocf:writer-panicked:{}", p.file()), 1);
                }
            }
        }
        for _ in 0..ctx.tier.pick(1, 2, 3) {
            let mut bad = f.data.clone();
            let how = match rng.below(5) {
                0 => {
                    let k = rng.below(bad.len());
                    bad.truncate(k);
                    "truncate"
                }
                1 => {
                    let k = rng.below(bad.len());
                    bad[k] = rng.u8();
                    "replace"
                }
                2 => {
                    // inside a sync marker or block header
                    let p = *rng.pick(&f.points);
                    let k = (p + rng.below(17)).min(bad.len() - 1);
                    bad[k] ^= 1 << rng.below(8);
                    "block-corrupt"
                }
                3 => {
                    let extra = 1 + rng.below(20);
                    bad.extend(rng.bytes(extra));
                    "append-garbage"
                }
                _ => {
                    let k = rng.below(f.header_len.min(bad.len()));
                    bad[k] = rng.u8();
                    "header-corrupt"
                }
            };
            if !ocf_safe(&bad, sc.json.as_bytes(), &f.blocks) {
                ctx.count(&format!("avro-ocf:mutation-skipped-reader-hang-risk:{how}"), 1);
                continue;
            }
            ctx.count(&format!("avro-ocf:mutation-{how}"), 1);
            check_ocf(ctx, &mut rng, &bad, &cfg, "mutated", None, &f.points, &format!("origin: {how} mutation of a hand-encoded container file; field kinds {kc}"), &bclass);
        }
    }
}
