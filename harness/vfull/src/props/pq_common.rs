//! Reusable Parquet workload machinery (shared by C05 round trip, C06 pushdown,
//! C07 statistics, C08 corruption, C15 async/push readers).
//!
//! # What is here
//!
//! * a **logical table generator** ([`gen_logical`]): an Arrow schema over everything
//!   the Arrow Parquet writer accepts plus one `Vec<Val>` per column (the model; see
//!   `vcore::val`), values inside the Arrow value domain (decimals within precision,
//!   Date64 whole days, Time within a day);
//! * a **batch builder** ([`split_rows`], [`make_batches`]): any partition of the rows into
//!   `RecordBatch`es, every batch in a random *physical realisation* (`vcore::build::realise`)
//!   of the same logical rows;
//! * a **`WriterProperties` generator** ([`gen_props`]) drawing from the whole option space
//!   with per-leaf-column overrides that are valid for the leaf's physical type;
//! * **writers** ([`write_logical`], [`write_file`]): `ArrowWriter` with a random
//!   `write`/`flush` plan, and the parallel path (`ArrowRowGroupWriterFactory::
//!   create_column_writers`, one thread per leaf, random yields / close order,
//!   `ArrowColumnChunk::append_to_row_group`), and [`concat_via_append_column`]
//!   (`SerializedRowGroupWriter::append_column` splice of an existing file);
//! * **compat batches** ([`alt_type`], [`make_batches_compat`], [`write_compat`]): the same rows presented
//!   in the logically equivalent physical types the writer documents to accept;
//! * **reader + oracle helpers** ([`gen_read_cfg`], [`read_file`], [`expected_read_schema`],
//!   [`compare_schema`], [`compare_rows`], [`localise`]) and evidence classes ([`leaf_class`],
//!   [`shape_class`]).
//!
//! # Typical use
//!
//! ```ignore
//! let mut rng = ctx.begin("sec", i);
//! match pq_common::write_file(&mut rng, &WriteCfg::standard()) {
//!     Ok(f) => {
//!         // f.bytes: the file; f.schema / f.batches: what was written;
//!         // f.logical.cols: the model rows; f.expected_schema: what a full read must report;
//!         // f.props.props / f.props.desc: the drawn WriterProperties (+ per-leaf info f.props.leaves);
//!         // f.metadata: footer returned by close(); f.tags: witness tags ("cdc", "unordered-listview")
//!     }
//!     Err(fail) => { /* fail.kind: Rejected | Err | Panic | Model  (see WriteFail) */ }
//! }
//! ```
//!
//! Everything is a pure function of the `Rng` passed in, except the *interleaving* of the
//! worker threads of the parallel path (which must not influence the file's logical content);
//! the observed completion orders are returned in [`Written::completion_orders`].

#![allow(dead_code)]

use arrow_array::{Array, ArrayRef, RecordBatch};
use arrow_schema::{DataType, Field, FieldRef, IntervalUnit, Schema, SchemaRef};
use bytes::Bytes;
use parquet::arrow::arrow_reader::{ArrowReaderOptions, ParquetRecordBatchReaderBuilder};
use parquet::arrow::arrow_writer::{
    ArrowColumnChunk, ArrowLeafColumn, ArrowRowGroupWriterFactory, ArrowWriterOptions,
    compute_leaves,
};
use parquet::arrow::{ArrowSchemaConverter, ArrowWriter, add_encoded_arrow_schema_to_metadata};
use parquet::basic::{BrotliLevel, Compression, Encoding, GzipLevel, Type as PhysicalType, ZstdLevel};
use parquet::bloom_filter::Sbbf;
use parquet::column::writer::ColumnCloseResult;
use parquet::file::metadata::{KeyValue, PageIndexPolicy, ParquetMetaData, ParquetMetaDataReader};
use parquet::file::properties::{
    BloomFilterPosition, CdcOptions, EnabledStatistics, WriterProperties, WriterPropertiesBuilder,
    WriterVersion,
};
use parquet::file::writer::SerializedFileWriter;
use parquet::schema::types::{ColumnPath, SchemaDescriptor};
use std::sync::atomic::{AtomicU64, Ordering};
use std::sync::{Arc, mpsc};
use vcore::build::{build, realise};
use vcore::extract::extract;
use vcore::gens::{TypeCfg, gen_column, gen_type, type_class};
use vcore::mon::{PanicInfo, guard, is_rejection_msg};
use vcore::rng::Rng;
use vcore::val::{Val, dump_vals};

// ------------------------------------------------------------------------------------------
// logical tables
// ------------------------------------------------------------------------------------------

/// Controls [`gen_logical`].
#[derive(Clone, Debug)]
pub struct GenCfg {
    /// 1..=max_cols top-level columns
    pub max_cols: usize,
    /// rows are drawn with `Rng::len_biased(max_rows)` (0 is possible)
    pub max_rows: usize,
    /// type grid; start from [`parquet_type_cfg`]
    pub types: TypeCfg,
    /// chance (num, den) to keep a column type the writer *documents* as unsupported
    /// (Union, Interval(MonthDayNano)); such files end in a rejection
    pub keep_unsupported: (u32, u32),
    /// chance (num, den) of a "weird" top-level field name (dots, spaces, unicode, empty)
    pub weird_names: (u32, u32),
}

/// The type grid the Arrow Parquet writer is meant to accept: everything except Union.
pub fn parquet_type_cfg() -> TypeCfg {
    let mut c = TypeCfg::all();
    c.union = false;
    c.empty_struct = false;
    c.wild_temporal = false; // Date64 whole days / Time within a day only (Arrow value domain)
    c.wild_decimal = false; // decimals within the declared precision only
    c
}

impl GenCfg {
    /// nested schemas (depth <= 3), up to 4 columns, up to 300 rows
    pub fn standard() -> Self {
        GenCfg {
            max_cols: 4,
            max_rows: 300,
            types: parquet_type_cfg(),
            keep_unsupported: (1, 40),
            weird_names: (1, 8),
        }
    }
    /// 1-3 flat columns (plain or dictionary, no run-end / Null) for the logically-equivalent-types workload
    pub fn flat_compat() -> Self {
        let mut t = parquet_type_cfg();
        t.max_depth = 0;
        t.null_type = false;
        t.ree = false;
        GenCfg { max_cols: 3, max_rows: 300, types: t, keep_unsupported: (0, 1), weird_names: (0, 1) }
    }
    /// a single flat (possibly dictionary / run-end encoded) column, many rows: encoder block edges
    pub fn flat_long() -> Self {
        let mut t = parquet_type_cfg();
        t.max_depth = 0;
        t.null_type = false;
        GenCfg {
            max_cols: 1,
            max_rows: 4200,
            types: t,
            keep_unsupported: (0, 1),
            weird_names: (0, 1),
        }
    }
}

/// A logical table: schema + one model column per field.
#[derive(Clone, Debug)]
pub struct Logical {
    pub schema: SchemaRef,
    /// `cols[c][r]`: value of column `c` in row `r`
    pub cols: Vec<Vec<Val>>,
    pub rows: usize,
}

/// Types the writer documents as unsupported (its rustdoc: MonthDayNano; `try_new`: Union).
pub fn documented_unsupported(dt: &DataType) -> bool {
    use DataType::*;
    match dt {
        Union(_, _) => true,
        Interval(IntervalUnit::MonthDayNano) => true,
        List(f) | LargeList(f) | ListView(f) | LargeListView(f) | FixedSizeList(f, _) | Map(f, _) => {
            documented_unsupported(f.data_type())
        }
        Struct(fs) => fs.iter().any(|f| documented_unsupported(f.data_type())),
        Dictionary(_, v) => documented_unsupported(v),
        RunEndEncoded(_, v) => documented_unsupported(v.data_type()),
        _ => false,
    }
}

fn must_be_nullable(dt: &DataType) -> bool {
    matches!(
        dt,
        DataType::Null | DataType::Union(_, _) | DataType::Dictionary(_, _) | DataType::RunEndEncoded(_, _)
    )
}

const WEIRD_NAMES: [&str; 10] = ["a.b", "x y", "Ünï-✓", "", " ", "list", "element", "key_value", "a\"b", "schema"];

/// Draw a schema and its rows.
pub fn gen_logical(rng: &mut Rng, cfg: &GenCfg) -> Logical {
    let ncols = 1 + rng.below(cfg.max_cols.max(1));
    let rows = rng.len_biased(cfg.max_rows);
    gen_logical_n(rng, cfg, ncols, rows)
}

/// Same with the column and row counts fixed by the caller.
pub fn gen_logical_n(rng: &mut Rng, cfg: &GenCfg, ncols: usize, rows: usize) -> Logical {
    let mut fields: Vec<Field> = Vec::with_capacity(ncols);
    let mut cols: Vec<Vec<Val>> = Vec::with_capacity(ncols);
    // Parquet has no negative decimal scale (the schema converter refuses it): mostly keep it out
    let mut types = cfg.types.clone();
    types.neg_scale = cfg.types.neg_scale && rng.chance(1, 10);
    let cfg = &GenCfg { types, ..cfg.clone() };
    for i in 0..ncols {
        let dt = loop {
            let t = gen_type(rng, &cfg.types);
            if documented_unsupported(&t) && !rng.chance(cfg.keep_unsupported.0, cfg.keep_unsupported.1.max(1)) {
                continue;
            }
            break t;
        };
        let nullable = !rng.chance(1, 5) || must_be_nullable(&dt);
        let name = if rng.chance(cfg.weird_names.0, cfg.weird_names.1.max(1)) {
            // unique by construction: at most one weird name of each kind, the index disambiguates
            format!("{}{}", rng.pick(&WEIRD_NAMES), if rng.bool() { format!("{i}") } else { String::new() })
        } else {
            format!("c{i}")
        };
        let name = if fields.iter().any(|f| f.name() == &name) { format!("{name}_{i}") } else { name };
        let vals = gen_column(rng, &dt, rows, nullable, &cfg.types);
        fields.push(Field::new(name, dt, nullable));
        cols.push(vals);
    }
    Logical { schema: Arc::new(Schema::new(fields)), cols, rows }
}

/// Partition `rows` into consecutive batch lengths (empty batches possible).
pub fn split_rows(rng: &mut Rng, rows: usize) -> Vec<usize> {
    if rows == 0 {
        return if rng.bool() { vec![0] } else { vec![] };
    }
    match rng.below(6) {
        0 | 1 => vec![rows],
        2 => {
            // fixed chunk size
            let c = 1 + rng.below(rows.min(64));
            let mut v = vec![c; rows / c];
            if rows % c > 0 {
                v.push(rows % c);
            }
            v
        }
        _ => {
            let k = 1 + rng.below(6);
            let mut cuts: Vec<usize> = (0..k).map(|_| rng.below(rows + 1)).collect();
            cuts.push(0);
            cuts.push(rows);
            cuts.sort();
            cuts.windows(2).map(|w| w[1] - w[0]).collect()
        }
    }
}

/// Build one `RecordBatch` per split; `chaos` = use random physical layouts (3 out of 4 arrays).
pub fn make_batches(rng: &mut Rng, l: &Logical, splits: &[usize], chaos: bool) -> Vec<RecordBatch> {
    let mut out = Vec::with_capacity(splits.len());
    let mut at = 0usize;
    for &n in splits {
        let arrays: Vec<ArrayRef> = l
            .schema
            .fields()
            .iter()
            .zip(&l.cols)
            .map(|(f, vals)| {
                let s = &vals[at..at + n];
                if chaos && rng.chance(3, 4) { realise(rng, f.data_type(), s) } else { build(f.data_type(), s) }
            })
            .collect();
        let b = RecordBatch::try_new_with_options(
            l.schema.clone(),
            arrays,
            &arrow_array::RecordBatchOptions::new().with_row_count(Some(n)),
        )
        .unwrap_or_else(|e| panic!("model: RecordBatch::try_new: {e}"));
        out.push(b);
        at += n;
    }
    assert_eq!(at, l.rows, "model: splits do not cover the rows");
    out
}

/// A physical type the writer documents as *logically equivalent* to the declared column type
/// `declared` (String/LargeString/StringView, Binary/LargeBinary/BinaryView, native vs
/// dictionary-encoded with compatible values). Only flat types have alternatives.
pub fn alt_type(rng: &mut Rng, declared: &DataType) -> DataType {
    use DataType::*;
    let key = |rng: &mut Rng| rng.pick(&[Int16, Int32, UInt32, Int64]).clone();
    let fam = |rng: &mut Rng, v: &DataType| -> DataType {
        match v {
            Utf8 | LargeUtf8 | Utf8View => rng.pick(&[Utf8, LargeUtf8, Utf8View]).clone(),
            Binary | LargeBinary | BinaryView => rng.pick(&[Binary, LargeBinary, BinaryView]).clone(),
            other => other.clone(),
        }
    };
    let dict_value = |rng: &mut Rng, v: &DataType| -> DataType {
        // dictionary values: offset-based strings/binary only (see the ArrowWriter rustdoc example)
        match v {
            Utf8 | LargeUtf8 | Utf8View => rng.pick(&[Utf8, LargeUtf8]).clone(),
            Binary | LargeBinary | BinaryView => rng.pick(&[Binary, LargeBinary]).clone(),
            other => other.clone(),
        }
    };
    match declared {
        Dictionary(_, v) => match rng.below(3) {
            0 => fam(rng, v),
            1 => Dictionary(Box::new(key(rng)), Box::new(dict_value(rng, v))),
            _ => declared.clone(),
        },
        Null | RunEndEncoded(_, _) | List(_) | LargeList(_) | ListView(_) | LargeListView(_) | FixedSizeList(_, _)
        | Struct(_) | Map(_, _) | Union(_, _) => declared.clone(),
        v => match rng.below(3) {
            0 => fam(rng, v),
            1 => Dictionary(Box::new(key(rng)), Box::new(dict_value(rng, v))),
            _ => declared.clone(),
        },
    }
}

/// Like [`make_batches`], but every batch column may come in a logically equivalent physical type
/// ([`alt_type`]); each batch carries its own schema. Returns the batches and a description of
/// the types used.
pub fn make_batches_compat(rng: &mut Rng, l: &Logical, splits: &[usize]) -> (Vec<RecordBatch>, String) {
    let mut out = Vec::with_capacity(splits.len());
    let mut desc = String::new();
    let mut at = 0usize;
    for &n in splits {
        let mut fields: Vec<Field> = Vec::new();
        let mut arrays: Vec<ArrayRef> = Vec::new();
        for (f, vals) in l.schema.fields().iter().zip(&l.cols) {
            let t = alt_type(rng, f.data_type());
            let s = &vals[at..at + n];
            arrays.push(if rng.chance(3, 4) { realise(rng, &t, s) } else { build(&t, s) });
            fields.push(Field::new(f.name(), t, f.is_nullable()));
        }
        desc.push_str(&format!("[{}] ", fields.iter().map(|f| f.data_type().to_string()).collect::<Vec<_>>().join(", ")));
        let b = RecordBatch::try_new_with_options(
            Arc::new(Schema::new(fields)),
            arrays,
            &arrow_array::RecordBatchOptions::new().with_row_count(Some(n)),
        )
        .unwrap_or_else(|e| panic!("model: RecordBatch::try_new: {e}"));
        out.push(b);
        at += n;
    }
    (out, desc)
}

// ------------------------------------------------------------------------------------------
// leaves
// ------------------------------------------------------------------------------------------

/// One Parquet leaf column of an Arrow schema.
#[derive(Clone, Debug)]
pub struct LeafInfo {
    pub path: ColumnPath,
    pub physical: PhysicalType,
    pub type_length: i32,
    pub max_def: i16,
    pub max_rep: i16,
    /// the Arrow leaf type (a `Dictionary` is a leaf; run-end is looked through)
    pub arrow: DataType,
    /// index of the top-level Arrow field this leaf belongs to
    pub root: usize,
}

/// Arrow leaf types of `dt` in Parquet leaf order.
pub fn arrow_leaves(dt: &DataType, out: &mut Vec<DataType>) {
    use DataType::*;
    match dt {
        List(f) | LargeList(f) | ListView(f) | LargeListView(f) | FixedSizeList(f, _) => arrow_leaves(f.data_type(), out),
        Struct(fs) => fs.iter().for_each(|f| arrow_leaves(f.data_type(), out)),
        Map(e, _) => arrow_leaves(e.data_type(), out),
        RunEndEncoded(_, v) => arrow_leaves(v.data_type(), out),
        other => out.push(other.clone()),
    }
}

/// Convert with the real `ArrowSchemaConverter` and pair every Parquet leaf with its Arrow leaf type.
/// `Err` carries the converter's message (schema not accepted).
pub fn leaves_of(schema: &Schema, coerce_types: bool) -> Result<(SchemaDescriptor, Vec<LeafInfo>), String> {
    let sd = ArrowSchemaConverter::new()
        .with_coerce_types(coerce_types)
        .convert(schema)
        .map_err(|e| e.to_string())?;
    let mut arrow: Vec<(usize, DataType)> = Vec::new();
    for (i, f) in schema.fields().iter().enumerate() {
        let mut v = Vec::new();
        arrow_leaves(f.data_type(), &mut v);
        arrow.extend(v.into_iter().map(|t| (i, t)));
    }
    if arrow.len() != sd.num_columns() {
        panic!("model: {} arrow leaves but {} parquet leaves for {schema:?}", arrow.len(), sd.num_columns());
    }
    let leaves = sd
        .columns()
        .iter()
        .zip(arrow)
        .map(|(c, (root, a))| LeafInfo {
            path: c.path().clone(),
            physical: c.physical_type(),
            type_length: c.type_length(),
            max_def: c.max_def_level(),
            max_rep: c.max_rep_level(),
            arrow: a,
            root,
        })
        .collect();
    Ok((sd, leaves))
}

/// Encodings the column writer implements for a leaf (besides dictionary encoding, which is
/// switched with `dictionary_enabled`). Dictionary-typed Arrow leaves over byte-like values go
/// through the byte-array encoder, which has no BYTE_STREAM_SPLIT.
pub fn valid_encodings(leaf: &LeafInfo) -> Vec<Encoding> {
    let byte_array_writer = match &leaf.arrow {
        DataType::Dictionary(_, v) => matches!(
            **v,
            DataType::Utf8
                | DataType::LargeUtf8
                | DataType::Binary
                | DataType::LargeBinary
                | DataType::Utf8View
                | DataType::BinaryView
                | DataType::FixedSizeBinary(_)
        ),
        _ => false,
    };
    match leaf.physical {
        PhysicalType::BOOLEAN => vec![Encoding::PLAIN, Encoding::RLE],
        PhysicalType::INT32 | PhysicalType::INT64 => {
            vec![Encoding::PLAIN, Encoding::DELTA_BINARY_PACKED, Encoding::BYTE_STREAM_SPLIT]
        }
        PhysicalType::INT96 => vec![Encoding::PLAIN],
        PhysicalType::FLOAT | PhysicalType::DOUBLE => vec![Encoding::PLAIN, Encoding::BYTE_STREAM_SPLIT],
        PhysicalType::BYTE_ARRAY => {
            vec![Encoding::PLAIN, Encoding::DELTA_LENGTH_BYTE_ARRAY, Encoding::DELTA_BYTE_ARRAY]
        }
        PhysicalType::FIXED_LEN_BYTE_ARRAY if byte_array_writer => {
            vec![Encoding::PLAIN, Encoding::DELTA_BYTE_ARRAY]
        }
        PhysicalType::FIXED_LEN_BYTE_ARRAY => {
            vec![Encoding::PLAIN, Encoding::DELTA_BYTE_ARRAY, Encoding::BYTE_STREAM_SPLIT]
        }
    }
}

// ------------------------------------------------------------------------------------------
// WriterProperties
// ------------------------------------------------------------------------------------------

/// Controls [`gen_props`].
#[derive(Clone, Debug)]
pub struct PropsCfg {
    /// content-defined chunking may be drawn (only effective through `ArrowWriter`)
    pub cdc: bool,
    /// LZO may be drawn (no codec in arrow-rs: ends in a rejection)
    pub lzo: bool,
    /// `coerce_types` may be drawn (renames list/map inner fields, Date64 as DATE)
    pub coerce_types: bool,
    /// probability (num, den) that a limit option gets a *tiny* value
    pub tiny: (u32, u32),
    /// row-group row/byte limits may be drawn
    pub row_group_limits: bool,
}

impl PropsCfg {
    pub fn all() -> Self {
        PropsCfg { cdc: true, lzo: true, coerce_types: true, tiny: (1, 2), row_group_limits: true }
    }
}

/// What [`gen_props`] drew.
#[derive(Clone, Debug)]
pub struct DrawnProps {
    pub props: WriterProperties,
    /// every non-default choice, in builder order (replayable by hand)
    pub desc: String,
    pub version2: bool,
    pub dict_default: bool,
    pub compression: String,
    pub coerce_types: bool,
    pub cdc: bool,
    pub stats: &'static str,
    pub bloom: bool,
    /// per leaf: (explicit fallback encoding if any, dictionary enabled)
    pub leaf_enc: Vec<(Option<Encoding>, bool)>,
    pub leaves: Vec<LeafInfo>,
}

fn gen_compression(rng: &mut Rng, cfg: &PropsCfg) -> Compression {
    if cfg.lzo && rng.chance(1, 60) {
        return Compression::LZO;
    }
    match rng.below(15) {
        0..=4 => Compression::UNCOMPRESSED,
        5 | 6 => Compression::SNAPPY,
        7 | 8 => Compression::GZIP(GzipLevel::try_new(rng.below(10) as u32).unwrap()),
        9 => Compression::BROTLI(BrotliLevel::try_new(rng.below(6) as u32).unwrap()),
        10 | 11 => Compression::LZ4,
        12 | 13 => Compression::ZSTD(ZstdLevel::try_new(1 + rng.below(6) as i32).unwrap()),
        _ => Compression::LZ4_RAW,
    }
}

fn comp_name(c: &Compression) -> String {
    format!("{c:?}").split('(').next().unwrap_or("?").to_string()
}

fn gen_stats(rng: &mut Rng) -> EnabledStatistics {
    *rng.pick(&[EnabledStatistics::None, EnabledStatistics::Chunk, EnabledStatistics::Page, EnabledStatistics::Page])
}

/// Draw `WriterProperties` for `schema` (`rows` only scales the limits). `Err` = the schema
/// converter did not accept the schema (message kept).
pub fn gen_props(rng: &mut Rng, schema: &Schema, rows: usize, cfg: &PropsCfg) -> Result<DrawnProps, String> {
    let coerce_types = cfg.coerce_types && rng.chance(1, 4);
    let (_sd, leaves) = leaves_of(schema, coerce_types)?;
    let mut d: Vec<String> = Vec::new();
    let mut b: WriterPropertiesBuilder = WriterProperties::builder();
    let tiny = |rng: &mut Rng| rng.chance(cfg.tiny.0, cfg.tiny.1.max(1));

    let version2 = rng.bool();
    if version2 {
        b = b.set_writer_version(WriterVersion::PARQUET_2_0);
        d.push("version=2".into());
    }
    if coerce_types {
        b = b.set_coerce_types(true);
        d.push("coerce_types".into());
    }
    let dict_default = !rng.chance(1, 3);
    if !dict_default {
        b = b.set_dictionary_enabled(false);
        d.push("dict=off".into());
    }
    if tiny(rng) {
        let v = *rng.pick(&[1usize, 2, 8, 16, 40, 64, 200, 1000, 4096]);
        b = b.set_dictionary_page_size_limit(v);
        d.push(format!("dict_page_limit={v}"));
    }
    if tiny(rng) {
        let v = *rng.pick(&[1usize, 4, 10, 16, 50, 100, 333, 1024, 8192]);
        b = b.set_data_page_size_limit(v);
        d.push(format!("data_page_limit={v}"));
    }
    if tiny(rng) {
        let v = *rng.pick(&[1usize, 2, 3, 5, 7, 10, 20, 33, 50, 128, 1000]);
        b = b.set_data_page_row_count_limit(v);
        d.push(format!("page_rows={v}"));
    }
    if tiny(rng) {
        let v = *rng.pick(&[1usize, 2, 3, 4, 5, 7, 8, 13, 16, 31, 32, 33, 64, 100, 128, 129]);
        b = b.set_write_batch_size(v);
        d.push(format!("write_batch={v}"));
    }
    if cfg.row_group_limits {
        match rng.below(4) {
            0 => {}
            1 => {
                b = b.set_max_row_group_row_count(None);
                d.push("rg_rows=None".into());
            }
            _ => {
                let hi = rows.max(2);
                let v = match rng.below(4) {
                    0 => 1 + rng.below(3),
                    1 => 1 + rng.below(hi.min(200)),
                    2 => (hi / 2).max(1),
                    _ => 1 + rng.below(200),
                };
                // a limit of 1-3 rows with many rows and leaves makes thousands of chunks: keep it bounded
                let v = if rows / v > 150 { (rows / 150).max(1) } else { v };
                b = b.set_max_row_group_row_count(Some(v));
                d.push(format!("rg_rows={v}"));
            }
        }
        if rng.chance(1, 4) {
            let v = *rng.pick(&[1usize, 64, 500, 3000, 20_000, 1_000_000]);
            let v = if rows > 150 && v < 500 { 500 } else { v };
            b = b.set_max_row_group_bytes(Some(v));
            d.push(format!("rg_bytes={v}"));
        }
    }
    let compression = gen_compression(rng, cfg);
    if compression != Compression::UNCOMPRESSED {
        b = b.set_compression(compression);
        d.push(format!("codec={compression:?}"));
    }
    if version2 && rng.chance(1, 3) {
        let v = *rng.pick(&[0.5f64, 0.9, 1.0, 1.5, 100.0, 0.01]);
        b = b.set_data_page_v2_compression_ratio_threshold(v);
        d.push(format!("v2_ratio={v}"));
    }
    let stats = gen_stats(rng);
    if stats != EnabledStatistics::Page {
        b = b.set_statistics_enabled(stats);
        d.push(format!("stats={stats:?}"));
    }
    if rng.chance(1, 4) {
        b = b.set_write_page_header_statistics(true);
        d.push("page_header_stats".into());
    }
    if rng.chance(1, 4) {
        let v = *rng.pick(&[Some(1usize), Some(2), Some(5), Some(64), None]);
        b = b.set_statistics_truncate_length(v);
        d.push(format!("stats_trunc={v:?}"));
    }
    if rng.chance(1, 4) {
        let v = *rng.pick(&[Some(1usize), Some(2), Some(5), Some(64), None]);
        b = b.set_column_index_truncate_length(v);
        d.push(format!("cidx_trunc={v:?}"));
    }
    if rng.chance(1, 4) {
        b = b.set_offset_index_disabled(true);
        d.push("offset_index=off".into());
    }
    let bloom = rng.chance(1, 4);
    if bloom {
        b = b.set_bloom_filter_enabled(true);
        d.push("bloom".into());
        if rng.bool() {
            let v = *rng.pick(&[0.5f64, 0.1, 0.01, 0.001]);
            b = b.set_bloom_filter_fpp(v);
            d.push(format!("bloom_fpp={v}"));
        }
        // the default NDV is the row-group row limit (1M rows => ~1 MiB filter per column chunk, slow
        // with hundreds of tiny row groups): almost always set a small one
        if !rng.chance(1, 25) {
            let v = *rng.pick(&[1u64, 2, 10, 100, 5000]);
            b = b.set_bloom_filter_max_ndv(v);
            d.push(format!("bloom_ndv={v}"));
        }
        if rng.bool() {
            b = b.set_bloom_filter_position(BloomFilterPosition::End);
            d.push("bloom_pos=End".into());
        }
    }
    if rng.chance(1, 5) {
        b = b.set_write_row_group_number_distinct_values(true);
        d.push("ndv_stats".into());
    }
    if rng.chance(1, 6) {
        b = b.set_write_path_in_schema(false);
        d.push("path_in_schema=off".into());
    }
    if rng.chance(1, 6) {
        b = b.set_key_value_metadata(Some(vec![
            KeyValue::new("k".to_string(), Some("v".to_string())),
            KeyValue::new("empty".to_string(), None::<String>),
        ]));
        d.push("kv".into());
    }
    if rng.chance(1, 8) {
        b = b.set_created_by("vfull pq_common".to_string());
        d.push("created_by".into());
    }
    let cdc = cfg.cdc && rng.chance(1, 5);
    if cdc {
        // mask bits = floor(log2((max - min) / 16)) - norm_level must be in 1..=63 or try_new refuses
        let min = *rng.pick(&[1usize, 2, 7, 16, 64, 256, 1024]);
        let norm = rng.range(-3, 3) as i32;
        let delta = if rng.chance(1, 12) {
            *rng.pick(&[1usize, 3, 8, 31]) // (mostly) refused
        } else {
            (16usize << (1 + norm.max(0) as usize + rng.below(4))) + rng.below(16)
        };
        let max = min + delta;
        b = b.set_content_defined_chunking(Some(CdcOptions { min_chunk_size: min, max_chunk_size: max, norm_level: norm }));
        d.push(format!("cdc(min={min},max={max},norm={norm})"));
    }

    // per-leaf overrides
    let mut leaf_enc: Vec<(Option<Encoding>, bool)> = Vec::with_capacity(leaves.len());
    for (li, leaf) in leaves.iter().enumerate() {
        let p = leaf.path.clone();
        let mut enc = None;
        let mut dict = dict_default;
        if rng.chance(2, 3) {
            let e = *rng.pick(&valid_encodings(leaf));
            b = b.set_column_encoding(p.clone(), e);
            d.push(format!("[{li}]enc={e:?}"));
            enc = Some(e);
        }
        if rng.chance(1, 4) {
            dict = rng.bool();
            b = b.set_column_dictionary_enabled(p.clone(), dict);
            d.push(format!("[{li}]dict={dict}"));
        }
        if rng.chance(1, 6) {
            let v = *rng.pick(&[1usize, 8, 24, 100, 600]);
            b = b.set_column_dictionary_page_size_limit(p.clone(), v);
            d.push(format!("[{li}]dict_page_limit={v}"));
        }
        if rng.chance(1, 6) {
            let v = *rng.pick(&[1usize, 8, 24, 100, 600]);
            b = b.set_column_data_page_size_limit(p.clone(), v);
            d.push(format!("[{li}]data_page_limit={v}"));
        }
        if rng.chance(1, 6) {
            let c = gen_compression(rng, &PropsCfg { lzo: false, ..cfg.clone() });
            b = b.set_column_compression(p.clone(), c);
            d.push(format!("[{li}]codec={c:?}"));
        }
        if rng.chance(1, 6) {
            let s = gen_stats(rng);
            b = b.set_column_statistics_enabled(p.clone(), s);
            d.push(format!("[{li}]stats={s:?}"));
        }
        if rng.chance(1, 8) {
            let v = rng.bool();
            b = b.set_column_bloom_filter_enabled(p.clone(), v);
            d.push(format!("[{li}]bloom={v}"));
            if v && !rng.chance(1, 25) {
                let n = *rng.pick(&[1u64, 3, 50, 2000]);
                b = b.set_column_bloom_filter_max_ndv(p.clone(), n);
                d.push(format!("[{li}]bloom_ndv={n}"));
            }
        }
        if rng.chance(1, 10) {
            let v = rng.bool();
            b = b.set_column_write_page_header_statistics(p.clone(), v);
            d.push(format!("[{li}]page_header_stats={v}"));
        }
        leaf_enc.push((enc, dict));
    }
    let props = b.build();
    Ok(DrawnProps {
        props,
        desc: d.join(" "),
        version2,
        dict_default,
        compression: comp_name(&compression),
        coerce_types,
        cdc,
        stats: match stats {
            EnabledStatistics::None => "none",
            EnabledStatistics::Chunk => "chunk",
            EnabledStatistics::Page => "page",
        },
        bloom,
        leaf_enc,
        leaves,
    })
}

// ------------------------------------------------------------------------------------------
// writing
// ------------------------------------------------------------------------------------------

/// How the file is produced.
#[derive(Clone, Copy, Debug, PartialEq, Eq)]
pub enum WriteMode {
    /// `ArrowWriter::write` / `flush` / `close` (one thread)
    Serial,
    /// `SerializedFileWriter::new` + `ArrowRowGroupWriterFactory::new`, one worker thread per leaf
    ParallelManual,
    /// `ArrowWriter` for a prefix of the batches, then `into_serialized_writer()` and worker threads
    ParallelInto,
}

impl WriteMode {
    pub fn tag(&self) -> &'static str {
        match self {
            WriteMode::Serial => "ser",
            WriteMode::ParallelManual => "parM",
            WriteMode::ParallelInto => "parI",
        }
    }
    pub fn is_parallel(&self) -> bool {
        !matches!(self, WriteMode::Serial)
    }
}

/// Why no file came out.
#[derive(Clone, Debug)]
pub enum FailKind {
    /// the writer (or schema converter) declined with a "not supported / not implemented" style
    /// message, or refused the schema in `try_new` — not a verdict
    Rejected,
    /// `write`/`flush`/`close` returned another `Err` on a schema it had accepted
    Err,
    /// arrow-rs panicked (not an `unimplemented!`)
    Panic(PanicInfo),
    /// the harness' own model failed (`model:` panic) — inconclusive
    Model,
}

#[derive(Clone, Debug)]
pub struct WriteFail {
    pub kind: FailKind,
    /// "schema" | "try_new" | "write" | "flush" | "close" | "create_column_writers" | "compute_leaves"
    /// | "column_write" | "column_close" | "append_to_row_group" | "row_group_close" | ...
    pub stage: String,
    pub msg: String,
    /// what had been drawn so far (schema, props, plan)
    pub desc: String,
    /// see [`write_tags`]
    pub tags: Vec<&'static str>,
}

/// Result of [`write_file`] / [`write_logical`].
pub struct Written {
    /// the Parquet file
    pub bytes: Bytes,
    /// the Arrow schema given to the writer
    pub schema: SchemaRef,
    /// schema a full read with the embedded Arrow schema must report (see [`expected_read_schema`])
    pub expected_schema: SchemaRef,
    /// the batches handed to the writer, in order
    pub batches: Vec<RecordBatch>,
    /// the model: rows of every column (`logical.cols[c][r]`)
    pub logical: Logical,
    pub props: DrawnProps,
    pub mode: WriteMode,
    /// after which batches an explicit flush / row-group boundary was requested
    pub flush_after: Vec<bool>,
    /// footer metadata returned by `close()` / `finish()`
    pub metadata: ParquetMetaData,
    /// parallel path: per row group, leaf indices in the order their worker finished `close()`
    pub completion_orders: Vec<Vec<usize>>,
    /// human-readable: schema, properties, batch lengths, flush plan, mode
    pub desc: String,
    /// see [`write_tags`]
    pub tags: Vec<&'static str>,
}

/// Controls [`write_file`].
#[derive(Clone, Debug)]
pub struct WriteCfg {
    pub gen_cfg: GenCfg,
    pub props: PropsCfg,
    /// `None`: draw (Serial 1/2, ParallelManual 1/4, ParallelInto 1/4)
    pub mode: Option<WriteMode>,
    /// random physical realisations of the input arrays
    pub chaos: bool,
}

impl WriteCfg {
    pub fn standard() -> Self {
        WriteCfg { gen_cfg: GenCfg::standard(), props: PropsCfg::all(), mode: None, chaos: true }
    }
    pub fn with_mode(mut self, m: WriteMode) -> Self {
        self.mode = Some(m);
        self
    }
}

/// Global sequence counter stamped by every column-writer worker right after its `close()`.
pub static CLOSE_SEQ: AtomicU64 = AtomicU64::new(0);

/// True if `a` contains (at any depth) a list-view array whose valid, non-empty views are not laid
/// out in increasing, non-overlapping order in the child array (legal for ListView; `realise`
/// produces such layouts). Used to classify witnesses, never to judge them.
pub fn has_unordered_list_view(a: &dyn Array) -> bool {
    use arrow_array::cast::AsArray;
    use DataType::*;
    fn views<O: arrow_array::OffsetSizeTrait>(l: &arrow_array::GenericListViewArray<O>) -> bool {
        let mut end = 0usize;
        for i in 0..l.len() {
            if l.is_null(i) {
                continue;
            }
            let (o, s) = (l.value_offsets()[i].as_usize(), l.value_sizes()[i].as_usize());
            if s == 0 {
                continue;
            }
            if o < end {
                return true;
            }
            end = o + s;
        }
        false
    }
    match a.data_type() {
        ListView(_) => {
            let l = a.as_list_view::<i32>();
            views(l) || has_unordered_list_view(l.values().as_ref())
        }
        LargeListView(_) => {
            let l = a.as_list_view::<i64>();
            views(l) || has_unordered_list_view(l.values().as_ref())
        }
        List(_) => has_unordered_list_view(a.as_list::<i32>().values().as_ref()),
        LargeList(_) => has_unordered_list_view(a.as_list::<i64>().values().as_ref()),
        FixedSizeList(_, _) => has_unordered_list_view(a.as_fixed_size_list().values().as_ref()),
        Map(_, _) => has_unordered_list_view(a.as_map().entries()),
        Struct(_) => a.as_struct().columns().iter().any(|c| has_unordered_list_view(c.as_ref())),
        _ => false,
    }
}

/// Witness tags of a write: "cdc" (content-defined chunking on), "unordered-listview"
/// (see [`has_unordered_list_view`]). A [`WriteFail`] from a writer panic with CDC on additionally
/// carries "ok-without-cdc" or "fails-without-cdc" (the same batches written without CDC).
pub fn write_tags(batches: &[RecordBatch], props: &DrawnProps) -> Vec<&'static str> {
    let mut t = Vec::new();
    if props.cdc {
        t.push("cdc");
    }
    if batches.iter().any(|b| b.columns().iter().any(|c| has_unordered_list_view(c.as_ref()))) {
        t.push("unordered-listview");
    }
    t
}

/// After a writer panic with content-defined chunking on: write the same batches serially with the
/// same properties minus CDC. Returns the witness tag "fails-without-cdc" if the very same panic
/// (message and location) happens again, else "ok-without-cdc" (classification of the witness
/// only, never a verdict).
fn probe_without_cdc(schema: &SchemaRef, batches: &[RecordBatch], props: &WriterProperties, original: &str) -> &'static str {
    let r = guard(|| -> Result<(), String> {
        let p = props.clone().into_builder().set_content_defined_chunking(None).build();
        let mut buf: Vec<u8> = Vec::new();
        let mut w = ArrowWriter::try_new(&mut buf, schema.clone(), Some(p)).map_err(|e| e.to_string())?;
        for b in batches {
            w.write(b).map_err(|e| e.to_string())?;
        }
        w.close().map_err(|e| e.to_string())?;
        Ok(())
    });
    match r {
        // the very same panic (message and location) happens without CDC: not a CDC defect
        Err(p) if original.contains(&format!("{} @ {}", p.msg, p.loc)) => "fails-without-cdc",
        // written fine, or stopped by something else (another defect / refusal in the same file)
        _ => "ok-without-cdc",
    }
}

/// One-stop generator: schema + rows + properties + batch split + write.
///
/// Returns the file together with everything needed to judge a read of it.
pub fn write_file(rng: &mut Rng, cfg: &WriteCfg) -> Result<Written, WriteFail> {
    let logical = gen_logical(rng, &cfg.gen_cfg);
    write_generated(rng, logical, cfg)
}

/// [`write_file`] for a table the caller generated.
pub fn write_generated(rng: &mut Rng, logical: Logical, cfg: &WriteCfg) -> Result<Written, WriteFail> {
    let schema_desc = format!("schema {}", schema_string(&logical.schema));
    let props = match guard(|| gen_props(rng, &logical.schema, logical.rows, &cfg.props)) {
        Ok(Ok(p)) => p,
        Ok(Err(e)) => {
            return Err(WriteFail { kind: FailKind::Rejected, stage: "schema".into(), msg: e, desc: schema_desc, tags: vec![] });
        }
        Err(p) => return Err(panic_fail(p, "schema", schema_desc)),
    };
    let splits = split_rows(rng, logical.rows);
    let batches = match guard(|| make_batches(rng, &logical, &splits, cfg.chaos)) {
        Ok(b) => b,
        Err(p) => return Err(panic_fail(p, "make_batches", schema_desc)),
    };
    let mode = cfg.mode.unwrap_or_else(|| match rng.below(4) {
        0 | 1 => WriteMode::Serial,
        2 => WriteMode::ParallelManual,
        _ => WriteMode::ParallelInto,
    });
    write_logical(rng, logical, batches, props, mode)
}

/// Writer "type compatibility": the declared schema is flat, every batch presents its columns in a
/// logically equivalent physical type (see [`alt_type`]). The file must read back with the
/// *declared* schema and the same rows.
pub fn write_compat(rng: &mut Rng, cfg: &WriteCfg) -> Result<Written, WriteFail> {
    let logical = gen_logical(rng, &cfg.gen_cfg);
    let schema_desc = format!("schema {}", schema_string(&logical.schema));
    let props = match guard(|| gen_props(rng, &logical.schema, logical.rows, &cfg.props)) {
        Ok(Ok(p)) => p,
        Ok(Err(e)) => return Err(WriteFail { kind: FailKind::Rejected, stage: "schema".into(), msg: e, desc: schema_desc, tags: vec![] }),
        Err(p) => return Err(panic_fail(p, "schema", schema_desc)),
    };
    let splits = split_rows(rng, logical.rows);
    let (batches, alt) = match guard(|| make_batches_compat(rng, &logical, &splits)) {
        Ok(b) => b,
        Err(p) => return Err(panic_fail(p, "make_batches", schema_desc)),
    };
    let mode = cfg.mode.unwrap_or_else(|| if rng.chance(2, 3) { WriteMode::Serial } else { WriteMode::ParallelManual });
    write_logical(rng, logical, batches, props, mode)
        .map(|mut w| {
            w.desc.push_str(&format!("\nbatch column types {alt}"));
            w
        })
        .map_err(|mut f| {
            f.desc.push_str(&format!("\nbatch column types {alt}"));
            f
        })
}

fn panic_fail(p: PanicInfo, stage: &str, desc: String) -> WriteFail {
    let kind = if p.is_model() || p.msg.starts_with("model:") || p.loc.contains("/harness/") {
        FailKind::Model
    } else if p.is_rejection() {
        FailKind::Rejected
    } else {
        FailKind::Panic(p.clone())
    };
    WriteFail { kind, stage: stage.to_string(), msg: format!("panic: {} @ {}", p.msg, p.loc), desc, tags: vec![] }
}

pub fn schema_string(s: &Schema) -> String {
    s.fields()
        .iter()
        .map(|f| format!("{:?}: {}{}", f.name(), f.data_type(), if f.is_nullable() { "" } else { " NOT NULL" }))
        .collect::<Vec<_>>()
        .join("; ")
}

struct StageErr {
    stage: &'static str,
    msg: String,
}
fn st<T, E: std::fmt::Display>(stage: &'static str, r: Result<T, E>) -> Result<T, StageErr> {
    r.map_err(|e| StageErr { stage, msg: e.to_string() })
}

/// Write `batches` (which must realise `logical` in order) with `props` in `mode`.
pub fn write_logical(
    rng: &mut Rng,
    logical: Logical,
    batches: Vec<RecordBatch>,
    props: DrawnProps,
    mode: WriteMode,
) -> Result<Written, WriteFail> {
    let nb = batches.len();
    // explicit flush (serial) / row-group boundary (parallel) after batch i
    let flush_p = *rng.pick(&[(0u32, 1u32), (1, 5), (1, 2), (1, 1)]);
    let flush_after: Vec<bool> = (0..nb).map(|_| rng.chance(flush_p.0, flush_p.1)).collect();
    let finish_kind = rng.below(2);
    let mut trng = rng.fork(); // thread-side decisions
    let desc = format!(
        "mode {:?}\nschema {}\nprops {}\nrows {} batches {:?} flush_after {:?} finish {}",
        mode,
        schema_string(&logical.schema),
        props.desc,
        logical.rows,
        batches.iter().map(|b| b.num_rows()).collect::<Vec<_>>(),
        flush_after.iter().map(|b| *b as u8).collect::<Vec<_>>(),
        finish_kind
    );
    let schema = logical.schema.clone();
    let mut buf: Vec<u8> = Vec::new();
    let mut orders: Vec<Vec<usize>> = Vec::new();
    let stage_cell = std::cell::Cell::new("try_new");
    let res = guard(|| -> Result<ParquetMetaData, StageErr> {
        match mode {
            WriteMode::Serial => {
                let opts = ArrowWriterOptions::new().with_properties(props.props.clone());
                let mut w = st("try_new", ArrowWriter::try_new_with_options(&mut buf, schema.clone(), opts))?;
                for (i, b) in batches.iter().enumerate() {
                    stage_cell.set("write");
                    st("write", w.write(b))?;
                    if flush_after[i] {
                        stage_cell.set("flush");
                        st("flush", w.flush())?;
                    }
                }
                stage_cell.set("close");
                match finish_kind {
                    0 => st("close", w.close()),
                    _ => st("close", w.finish()),
                }
            }
            WriteMode::ParallelManual => {
                let mut p = props.props.clone();
                add_encoded_arrow_schema_to_metadata(&schema, &mut p);
                let sd = st(
                    "try_new",
                    ArrowSchemaConverter::new().with_coerce_types(p.coerce_types()).convert(&schema),
                )?;
                let mut fw = st("try_new", SerializedFileWriter::new(&mut buf, sd.root_schema_ptr(), Arc::new(p)))?;
                let factory = ArrowRowGroupWriterFactory::new(&fw, schema.clone());
                stage_cell.set("parallel");
                write_parallel(&mut trng, &mut fw, &factory, &schema, &batches, &flush_after, &mut orders)?;
                stage_cell.set("close");
                st("close", fw.close())
            }
            WriteMode::ParallelInto => {
                let opts = ArrowWriterOptions::new().with_properties(props.props.clone());
                let mut w = st("try_new", ArrowWriter::try_new_with_options(&mut buf, schema.clone(), opts))?;
                // a prefix of the batches goes through the ArrowWriter itself
                let k = if nb == 0 { 0 } else { trng.below(nb.min(3)) };
                for b in &batches[..k] {
                    stage_cell.set("write");
                    st("write", w.write(b))?;
                }
                stage_cell.set("into_serialized_writer");
                let (mut fw, factory) = st("into_serialized_writer", w.into_serialized_writer())?;
                stage_cell.set("parallel");
                write_parallel(&mut trng, &mut fw, &factory, &schema, &batches[k..], &flush_after[k..], &mut orders)?;
                stage_cell.set("close");
                st("close", fw.close())
            }
        }
    });
    let tags = write_tags(&batches, &props);
    let fail = |kind: FailKind, stage: &str, msg: String| WriteFail { kind, stage: stage.to_string(), msg, desc: desc.clone(), tags: tags.clone() };
    let metadata = match res {
        Ok(Ok(m)) => m,
        Ok(Err(e)) => {
            let kind = if e.msg.starts_with("model:") {
                FailKind::Model
            } else if e.msg.starts_with("panic:") {
                // a worker thread panicked: message carries "panic: <msg> @ <loc>"
                let (m, l) = e.msg["panic:".len()..].rsplit_once(" @ ").unwrap_or((&e.msg, ""));
                let p = PanicInfo { msg: m.trim().to_string(), loc: l.to_string() };
                if p.is_rejection() { FailKind::Rejected } else { FailKind::Panic(p) }
            } else if is_rejection_msg(&e.msg) || e.stage == "try_new" {
                FailKind::Rejected
            } else {
                FailKind::Err
            };
            return Err(fail(kind, e.stage, e.msg));
        }
        Err(p) => {
            let mut f = panic_fail(p, stage_cell.get(), desc.clone());
            f.tags = tags.clone();
            if props.cdc {
                f.tags.push(probe_without_cdc(&logical.schema, &batches, &props.props, &f.msg));
            }
            return Err(f);
        }
    };
    let expected_schema = Arc::new(expected_read_schema(&logical.schema));
    Ok(Written {
        bytes: Bytes::from(buf),
        schema: logical.schema.clone(),
        expected_schema,
        batches,
        logical,
        props,
        mode,
        flush_after,
        metadata,
        completion_orders: orders,
        desc,
        tags,
    })
}

enum Msg {
    Leaf(ArrowLeafColumn),
    Close,
}

fn jitter(r: &mut Rng) {
    match r.below(8) {
        0..=3 => {}
        4 | 5 => std::thread::yield_now(),
        6 => {
            for _ in 0..r.below(4) {
                std::thread::yield_now();
            }
        }
        _ => std::thread::sleep(std::time::Duration::from_micros(r.below(150) as u64)),
    }
}

/// Encode `batches` as row groups (boundaries where `boundary_after[i]`, and at the end) with one
/// worker thread per leaf column; chunks are appended in schema order.
fn write_parallel<W: std::io::Write + Send>(
    rng: &mut Rng,
    fw: &mut SerializedFileWriter<W>,
    factory: &ArrowRowGroupWriterFactory,
    schema: &SchemaRef,
    batches: &[RecordBatch],
    boundary_after: &[bool],
    orders: &mut Vec<Vec<usize>>,
) -> Result<(), StageErr> {
    let mut start = 0usize;
    for i in 0..batches.len() {
        if !(boundary_after[i] || i + 1 == batches.len()) {
            continue;
        }
        let group = &batches[start..=i];
        start = i + 1;
        if group.iter().all(|b| b.num_rows() == 0) {
            // ArrowWriter never emits an empty row group; neither do we
            continue;
        }
        let rg_index = fw.flushed_row_groups().len();
        let writers = st("create_column_writers", factory.create_column_writers(rg_index))?;
        let n = writers.len();
        let mut txs: Vec<Option<mpsc::Sender<Msg>>> = Vec::with_capacity(n);
        let mut handles = Vec::with_capacity(n);
        for mut w in writers {
            let (tx, rx) = mpsc::channel::<Msg>();
            let mut r = rng.fork();
            let h = std::thread::spawn(move || {
                let res = guard(|| -> Result<ArrowColumnChunk, StageErr> {
                    for m in rx {
                        match m {
                            Msg::Leaf(l) => {
                                jitter(&mut r);
                                st("column_write", w.write(&l))?;
                            }
                            Msg::Close => break,
                        }
                    }
                    jitter(&mut r);
                    st("column_close", w.close())
                });
                let seq = CLOSE_SEQ.fetch_add(1, Ordering::SeqCst);
                let res = match res {
                    Ok(r) => r,
                    Err(p) => Err(StageErr { stage: "column_thread", msg: format!("panic: {} @ {}", p.msg, p.loc) }),
                };
                (res, seq)
            });
            txs.push(Some(tx));
            handles.push(Some(h));
        }
        // feed
        let mut feed_err: Option<StageErr> = None;
        'feed: for b in group {
            let mut k = 0usize;
            for (f, c) in schema.fields().iter().zip(b.columns()) {
                match compute_leaves(f.as_ref(), c) {
                    Ok(ls) => {
                        for l in ls {
                            if let Some(tx) = txs.get(k).and_then(|t| t.as_ref()) {
                                let _ = tx.send(Msg::Leaf(l));
                            } else {
                                feed_err = Some(StageErr { stage: "compute_leaves", msg: format!("model: more leaves than column writers ({n})") });
                                break 'feed;
                            }
                            k += 1;
                        }
                    }
                    Err(e) => {
                        feed_err = Some(StageErr { stage: "compute_leaves", msg: e.to_string() });
                        break 'feed;
                    }
                }
            }
            if rng.chance(1, 3) {
                jitter(rng);
            }
        }
        // close in a random order; either a genuine race (all Close messages sent at once) or
        // staggered (wait for each worker before releasing the next one)
        let mut perm: Vec<usize> = (0..n).collect();
        rng.shuffle(&mut perm);
        let staggered = rng.chance(1, 3);
        let mut results: Vec<Option<(Result<ArrowColumnChunk, StageErr>, u64)>> = (0..n).map(|_| None).collect();
        for &j in &perm {
            if let Some(tx) = txs[j].take() {
                let _ = tx.send(Msg::Close);
            }
            if staggered {
                let h = handles[j].take().unwrap();
                results[j] = Some(h.join().map_err(|_| ()).unwrap_or_else(|_| {
                    (Err(StageErr { stage: "column_thread", msg: "panic: worker died @ ".into() }), u64::MAX)
                }));
            } else if rng.chance(1, 4) {
                jitter(rng);
            }
        }
        for j in 0..n {
            if let Some(h) = handles[j].take() {
                results[j] = Some(h.join().unwrap_or_else(|_| {
                    (Err(StageErr { stage: "column_thread", msg: "panic: worker died @ ".into() }), u64::MAX)
                }));
            }
        }
        if let Some(e) = feed_err {
            return Err(e);
        }
        let mut seqs: Vec<(u64, usize)> = Vec::with_capacity(n);
        let mut chunks = Vec::with_capacity(n);
        for (j, r) in results.into_iter().enumerate() {
            let (res, seq) = r.unwrap();
            seqs.push((seq, j));
            chunks.push(res?);
        }
        seqs.sort();
        orders.push(seqs.into_iter().map(|x| x.1).collect());
        let mut rgw = st("next_row_group", fw.next_row_group())?;
        for c in chunks {
            st("append_to_row_group", c.append_to_row_group(&mut rgw))?;
        }
        st("row_group_close", rgw.close())?;
    }
    Ok(())
}

/// Re-splice every column chunk of `input` into a new file with
/// `SerializedRowGroupWriter::append_column` (what `parquet-concat` does), keeping the key-value
/// metadata (hence the embedded Arrow schema). The result must read back like `input`.
pub fn concat_via_append_column(input: &Bytes, with_page_index: bool) -> Result<Bytes, String> {
    let policy = if with_page_index { PageIndexPolicy::Optional } else { PageIndexPolicy::Skip };
    let md = ParquetMetaDataReader::new()
        .with_page_index_policy(policy)
        .parse_and_finish(input)
        .map_err(|e| format!("metadata: {e}"))?;
    let kv = md.file_metadata().key_value_metadata().cloned();
    let props = Arc::new(WriterProperties::builder().set_key_value_metadata(kv).build());
    let schema = md.file_metadata().schema_descr().root_schema_ptr();
    let mut out: Vec<u8> = Vec::new();
    {
        let mut w = SerializedFileWriter::new(&mut out, schema, props).map_err(|e| format!("new: {e}"))?;
        let page_index = md.page_index();
        for (rg_idx, rg) in md.row_groups().iter().enumerate() {
            let mut rg_out = w.next_row_group().map_err(|e| format!("next_row_group: {e}"))?;
            for (col_idx, column) in rg.columns().iter().enumerate() {
                let bloom_filter = Sbbf::read_from_column_chunk(column, input).ok().flatten();
                let column_index = page_index.and_then(|pi| pi.column_index(rg_idx, col_idx)).cloned();
                let offset_index = page_index.and_then(|pi| pi.offset_index(rg_idx, col_idx)).cloned();
                let result = ColumnCloseResult {
                    bytes_written: column.compressed_size() as _,
                    rows_written: rg.num_rows() as _,
                    metadata: column.clone(),
                    bloom_filter,
                    column_index,
                    offset_index,
                };
                rg_out.append_column(input, result).map_err(|e| format!("append_column: {e}"))?;
            }
            rg_out.close().map_err(|e| format!("row group close: {e}"))?;
        }
        w.close().map_err(|e| format!("close: {e}"))?;
    }
    Ok(Bytes::from(out))
}

// ------------------------------------------------------------------------------------------
// reading + oracle helpers
// ------------------------------------------------------------------------------------------

/// The type a read with the embedded Arrow schema must report for a column written as `dt`:
/// identical, except that run-end encoded columns come back as their value type (at any depth).
pub fn expected_read_type(dt: &DataType) -> DataType {
    use DataType::*;
    let ff = |f: &FieldRef| -> FieldRef {
        Arc::new(f.as_ref().clone().with_data_type(expected_read_type(f.data_type())))
    };
    match dt {
        RunEndEncoded(_, v) => expected_read_type(v.data_type()),
        List(f) => List(ff(f)),
        LargeList(f) => LargeList(ff(f)),
        ListView(f) => ListView(ff(f)),
        LargeListView(f) => LargeListView(ff(f)),
        FixedSizeList(f, n) => FixedSizeList(ff(f), *n),
        Struct(fs) => Struct(fs.iter().map(ff).collect()),
        Map(f, o) => Map(ff(f), *o),
        other => other.clone(),
    }
}

pub fn expected_read_schema(s: &Schema) -> Schema {
    Schema::new(
        s.fields()
            .iter()
            .map(|f| f.as_ref().clone().with_data_type(expected_read_type(f.data_type())))
            .collect::<Vec<_>>(),
    )
}

/// Options of one read.
#[derive(Clone, Debug)]
pub struct ReadCfg {
    pub batch_size: usize,
    pub page_index: PageIndexPolicy,
}

pub fn gen_read_cfg(rng: &mut Rng, rows: usize) -> ReadCfg {
    let batch_size = match rng.below(8) {
        0 => 1,
        1 => 1 + rng.below(4),
        2 => rows.max(1),
        3 => rows + 1,
        4 => rows.saturating_sub(1).max(1),
        5 => 1024,
        _ => 1 + rng.below(rows + 3),
    };
    let page_index = *rng.pick(&[PageIndexPolicy::Skip, PageIndexPolicy::Skip, PageIndexPolicy::Optional]);
    ReadCfg { batch_size, page_index }
}

/// Outcome of [`read_file`].
pub enum ReadOutcome {
    Ok(SchemaRef, Vec<RecordBatch>),
    /// (stage "open" | "build" | "next", message)
    Err(&'static str, String),
    Panic(PanicInfo),
}

/// Full sequential read with `ParquetRecordBatchReader`.
pub fn read_file(bytes: &Bytes, cfg: &ReadCfg) -> ReadOutcome {
    let r = guard(|| -> Result<(SchemaRef, Vec<RecordBatch>), (&'static str, String)> {
        let opts = ArrowReaderOptions::new().with_page_index_policy(cfg.page_index);
        let b = ParquetRecordBatchReaderBuilder::try_new_with_options(bytes.clone(), opts)
            .map_err(|e| ("open", e.to_string()))?;
        let schema = b.schema().clone();
        let reader = b.with_batch_size(cfg.batch_size).build().map_err(|e| ("build", e.to_string()))?;
        let mut out = Vec::new();
        for x in reader {
            out.push(x.map_err(|e| ("next", e.to_string()))?);
        }
        Ok((schema, out))
    });
    match r {
        Ok(Ok((s, b))) => ReadOutcome::Ok(s, b),
        Ok(Err((st, m))) => ReadOutcome::Err(st, m),
        Err(p) => ReadOutcome::Panic(p),
    }
}

/// A schema difference: where (constructor path), what ("name" | "nullable" | "type" | "count").
#[derive(Debug, Clone)]
pub struct SchemaDiff {
    pub path: String,
    pub what: &'static str,
    pub detail: String,
}

/// Compare the schema read back (`got`) with the schema **written** (`written`): names,
/// nullability and types; field and schema metadata are ignored. A run-end encoded column
/// (at any depth) is expected back as its value type; the path of a difference below such a
/// position contains `REE`. `relax_inner_names`: do not compare the names of list element /
/// map entries,key,value fields (`coerce_types` documents that those are renamed).
pub fn compare_schema(written: &Schema, got: &Schema, relax_inner_names: bool) -> Result<(), SchemaDiff> {
    if written.fields().len() != got.fields().len() {
        return Err(SchemaDiff {
            path: "".into(),
            what: "count",
            detail: format!("{} fields written, {} read", written.fields().len(), got.fields().len()),
        });
    }
    for (e, g) in written.fields().iter().zip(got.fields()) {
        cmp_field(e, g, false, relax_inner_names, &type_ctor(e.data_type()))?;
    }
    Ok(())
}

/// Constructor name used in difference paths (`List`, `Struct`, `REE`, leaf type class ...).
pub fn type_ctor(dt: &DataType) -> String {
    use DataType::*;
    match dt {
        List(_) => "List".into(),
        LargeList(_) => "LargeList".into(),
        ListView(_) => "ListView".into(),
        LargeListView(_) => "LargeListView".into(),
        FixedSizeList(_, n) => if *n == 0 { "FSL0".into() } else { "FSL".into() },
        Struct(_) => "Struct".into(),
        Map(_, _) => "Map".into(),
        RunEndEncoded(_, _) => "REE".into(),
        other => type_class(other),
    }
}

fn cmp_field(e: &Field, g: &Field, relax_name: bool, relax: bool, path: &str) -> Result<(), SchemaDiff> {
    if !relax_name && e.name() != g.name() {
        return Err(SchemaDiff { path: path.into(), what: "name", detail: format!("{:?} written, {:?} read", e.name(), g.name()) });
    }
    if e.is_nullable() != g.is_nullable() {
        return Err(SchemaDiff {
            path: path.into(),
            what: "nullable",
            detail: format!("field {:?}: nullable={} written, {} read", e.name(), e.is_nullable(), g.is_nullable()),
        });
    }
    cmp_type(e.data_type(), g.data_type(), relax, path)
}

fn cmp_type(e: &DataType, g: &DataType, relax: bool, path: &str) -> Result<(), SchemaDiff> {
    use DataType::*;
    let sub = |f: &FieldRef| format!("{path}>{}", type_ctor(f.data_type()));
    let mismatch = || Err(SchemaDiff { path: path.into(), what: "type", detail: format!("{} expected, {g} read", expected_read_type(e)) });
    match (e, g) {
        (RunEndEncoded(_, v), _) => cmp_type(v.data_type(), g, relax, &sub(v)),
        (List(a), List(b)) | (LargeList(a), LargeList(b)) | (ListView(a), ListView(b)) | (LargeListView(a), LargeListView(b)) => {
            cmp_field(a, b, relax, relax, &sub(a))
        }
        (FixedSizeList(a, n), FixedSizeList(b, m)) => {
            if n != m {
                return mismatch();
            }
            cmp_field(a, b, relax, relax, &sub(a))
        }
        (Struct(a), Struct(b)) => {
            if a.len() != b.len() {
                return mismatch();
            }
            for (x, y) in a.iter().zip(b.iter()) {
                cmp_field(x, y, false, relax, &sub(x))?;
            }
            Ok(())
        }
        (Map(a, s1), Map(b, s2)) => {
            if s1 != s2 {
                return mismatch();
            }
            if !relax && a.name() != b.name() {
                return Err(SchemaDiff { path: path.into(), what: "name", detail: format!("{:?} written, {:?} read", a.name(), b.name()) });
            }
            if a.is_nullable() != b.is_nullable() {
                return Err(SchemaDiff { path: path.into(), what: "nullable", detail: format!("map entries nullable={} written, {} read", a.is_nullable(), b.is_nullable()) });
            }
            match (a.data_type(), b.data_type()) {
                (Struct(x), Struct(y)) if x.len() == y.len() => {
                    for (p, q) in x.iter().zip(y.iter()) {
                        cmp_field(p, q, relax, relax, &sub(p))?;
                    }
                    Ok(())
                }
                _ => mismatch(),
            }
        }
        (Dictionary(k1, v1), Dictionary(k2, v2)) => {
            if k1 != k2 {
                return mismatch();
            }
            cmp_type(v1, v2, relax, path)
        }
        _ => {
            if e == g {
                Ok(())
            } else {
                mismatch()
            }
        }
    }
}

impl SchemaDiff {
    /// Path for signatures: differences below a *nested* run-end encoded position are one class.
    pub fn sig_path(&self) -> String {
        match self.path.find(">REE") {
            Some(_) => "nested-REE".to_string(),
            None => self.path.clone(),
        }
    }
}

/// A row difference localised to the deepest differing value.
#[derive(Debug, Clone)]
pub struct RowDiff {
    pub col: usize,
    pub row: usize,
    /// constructor path down to the differing value, e.g. `List>Struct>Utf8`
    pub path: String,
    /// "null->value" | "value->null" | "list-len" | "value" | "row-count"
    pub kind: &'static str,
    pub detail: String,
}

/// Descend into `e` vs `g` (which differ) and name the deepest differing position.
pub fn localise(dt: &DataType, e: &Val, g: &Val) -> (String, &'static str, String) {
    use DataType::*;
    let here = type_ctor(dt);
    match (e, g) {
        (Val::Null, _) => (here, "null->value", format!("expected NULL, read {g:?}")),
        (_, Val::Null) => (here, "value->null", format!("expected {e:?}, read NULL")),
        (Val::List(a), Val::List(b)) => {
            if a.len() != b.len() {
                return (here, "list-len", format!("expected {} elements {}, read {} elements {}", a.len(), dump_vals(a), b.len(), dump_vals(b)));
            }
            let child: Option<DataType> = match dt {
                List(f) | LargeList(f) | ListView(f) | LargeListView(f) | FixedSizeList(f, _) | Map(f, _) => Some(f.data_type().clone()),
                Dictionary(_, v) => return localise(v, e, g),
                RunEndEncoded(_, v) => return localise(v.data_type(), e, g),
                _ => None,
            };
            for (x, y) in a.iter().zip(b) {
                if x != y {
                    if let Some(c) = &child {
                        let (p, k, d) = localise(c, x, y);
                        return (format!("{here}>{p}"), k, d);
                    }
                }
            }
            (here, "value", format!("expected {e:?}, read {g:?}"))
        }
        (Val::Struct(a), Val::Struct(b)) => {
            if let Struct(fs) = dt {
                for ((x, y), f) in a.iter().zip(b).zip(fs.iter()) {
                    if x != y {
                        let (p, k, d) = localise(f.data_type(), x, y);
                        return (format!("{here}>{p}"), k, d);
                    }
                }
            }
            (here, "value", format!("expected {e:?}, read {g:?}"))
        }
        _ => match dt {
            Dictionary(_, v) => localise(v, e, g),
            RunEndEncoded(_, v) => localise(v.data_type(), e, g),
            _ => (here, "value", format!("expected {e:?}, read {g:?}")),
        },
    }
}

/// Extract the batches read and compare them with the model, row by row, in order.
/// `Err(Err(panic))`: the accessor walk over a returned array panicked.
pub fn compare_rows(schema: &Schema, expected: &[Vec<Val>], got: &[RecordBatch]) -> Result<Result<(), RowDiff>, PanicInfo> {
    guard(|| {
        let rows: usize = expected.first().map(|c| c.len()).unwrap_or(0);
        let got_rows: usize = got.iter().map(|b| b.num_rows()).sum();
        if got_rows != rows && !schema.fields().is_empty() {
            return Err(RowDiff {
                col: 0,
                row: rows.min(got_rows),
                path: "".into(),
                kind: "row-count",
                detail: format!("{rows} rows written, {got_rows} rows read (batches {:?})", got.iter().map(|b| b.num_rows()).collect::<Vec<_>>()),
            });
        }
        for (c, f) in schema.fields().iter().enumerate() {
            let mut at = 0usize;
            for b in got {
                let vals = extract(b.column(c).as_ref());
                if vals.len() != b.num_rows() {
                    return Err(RowDiff { col: c, row: at, path: type_ctor(f.data_type()), kind: "row-count", detail: format!("column {c} has {} rows in a batch of {}", vals.len(), b.num_rows()) });
                }
                for (i, v) in vals.iter().enumerate() {
                    let e = &expected[c][at + i];
                    if e != v {
                        let (path, kind, detail) = localise(f.data_type(), e, v);
                        let lo = (at + i).saturating_sub(2);
                        let hi = (at + i + 3).min(rows);
                        return Err(RowDiff {
                            col: c,
                            row: at + i,
                            path,
                            kind,
                            detail: format!(
                                "column {c} ({}) row {}: {detail}\nexpected rows {lo}..{hi}: {}\nread batch rows around: {}",
                                f.data_type(),
                                at + i,
                                dump_vals(&expected[c][lo..hi]),
                                dump_vals(&vals[i.saturating_sub(2)..(i + 3).min(vals.len())])
                            ),
                        });
                    }
                }
                at += vals.len();
            }
        }
        Ok(())
    })
}

/// Coarse class of a leaf for evidence tuples: arrow leaf type, nestedness, encoding, dictionary.
pub fn leaf_class(p: &DrawnProps, i: usize) -> String {
    let l = &p.leaves[i];
    let (enc, dict) = p.leaf_enc[i];
    format!(
        "{}|{}{}|{}|{}",
        type_class(&l.arrow),
        if l.max_rep > 0 { "rep" } else { "flat" },
        l.max_def.min(3),
        enc.map(|e| format!("{e:?}")).unwrap_or_else(|| "default".into()),
        if dict { "dict" } else { "nodict" }
    )
}

/// Outer shape of a column type down to depth 3 without leaf types (coarse class).
pub fn shape_class(dt: &DataType) -> String {
    fn go(dt: &DataType, d: u32) -> String {
        use DataType::*;
        if d == 0 {
            return "..".into();
        }
        match dt {
            List(f) => format!("L<{}>", go(f.data_type(), d - 1)),
            LargeList(f) => format!("LL<{}>", go(f.data_type(), d - 1)),
            ListView(f) => format!("LV<{}>", go(f.data_type(), d - 1)),
            LargeListView(f) => format!("LLV<{}>", go(f.data_type(), d - 1)),
            FixedSizeList(f, n) => format!("FSL{}<{}>", if *n == 0 { "0" } else { "" }, go(f.data_type(), d - 1)),
            Struct(fs) => format!("S{}<{}>", fs.len(), fs.iter().map(|f| go(f.data_type(), d - 1)).collect::<Vec<_>>().join(",")),
            Map(e, _) => match e.data_type() {
                Struct(kv) if kv.len() == 2 => format!("M<{}>", go(kv[1].data_type(), d - 1)),
                _ => "M<?>".into(),
            },
            Dictionary(_, _) => "dict".into(),
            RunEndEncoded(_, _) => "ree".into(),
            _ => "p".into(),
        }
    }
    go(dt, 3)
}
