//! Property workloads that need the format crates (IPC, Flight, Parquet, CSV, JSON, Avro).
use vcore::mon::Ctx;

pub fn run(id: &str, _ctx: &mut Ctx) -> bool {
    match id {
        _ => false,
    }
}
