//! Property workloads that need the format crates (IPC, Flight, Parquet, CSV, JSON, Avro).
use vcore::mon::Ctx;

pub mod c01f;
pub mod c04;
pub mod c04gen;
pub mod c04probe;
pub mod c05;
pub mod c06;
pub mod c06model;
pub mod c06sel;
pub mod c07;
pub mod c07core;
pub mod c07low;
pub mod c08;
pub mod c08gen;
pub mod c08mut;
pub mod c08rd;
pub mod c14;
pub mod c14_avro;
pub mod c14_ipc;
pub mod c14_pq;
pub mod c14_text;
pub mod c15;
pub mod c17;
pub mod c18;
pub mod pq_common;

pub fn run(id: &str, ctx: &mut Ctx) -> bool {
    match id {
        "C01" => c01f::run(ctx),
        "C04" => c04::run(ctx),
        "C05" => c05::run(ctx),
        "C06" => c06::run(ctx),
        "C07" => c07::run(ctx),
        "C08" => c08::run(ctx),
        "C14" => c14::run(ctx),
        "C15" => c15::run(ctx),
        "C17" => c17::run(ctx),
        "C18" => c18::run(ctx),
        _ => return false,
    }
    true
}
