//! C04: Arrow IPC file / stream / StreamEncoder / Flight round trip.
//!
//! Events: bytes produced by `FileWriter`, `StreamWriter`, `StreamEncoder`,
//! `FlightDataEncoder`; schema + batches produced by `FileReader` (plain,
//! projected, `set_index`), `StreamReader` (plain, projected), `StreamDecoder`
//! (whole / chunked input), `FlightRecordBatchStream`, `flight_data_to_batches`.
//!
//! Oracle: schema equality (names, types, nullability, metadata, custom file
//! metadata) and, batch by batch, `extract(column) == model`; for Flight the
//! documented schema (dictionaries hydrated unless `Resend`) and equality of the
//! row concatenation. Projection: `read(p) == project(full read, p)`.
//!
//! not asserted:
//!  * any writer / encoder `Err` (unsupported type, the file writer's "Dictionary
//!    replacement detected", a cast the Flight hydration cannot do): a rejection,
//!    counted by reason; after a file-writer rejection at batch k > 0 the
//!    accepted prefix is written by a fresh writer and checked;
//!  * byte identity between writers, padding, buffer identity, alignment of the
//!    decoded buffers, `require_alignment(true)`;
//!  * batch boundaries in Flight (splitting, dropped empty batches), whether a
//!    dictionary message is re-sent, the Flight schema when nothing was sent;
//!  * `dict_is_ordered`, dictionary ids;
//!  * the physical encoding of the returned arrays (only their logical content).
//!
//! Signatures (stable keys of the known-findings file) never contain the sink,
//! leaf types, field names or numbers; those are in the detail text:
//!  * `C04|read-err|<message class>`: reader `Err` on bytes a writer produced
//!    (Flight wrappers removed, cut after "in array of type", quoted names and
//!    digits stripped);
//!  * `C04|panic|<file>|<message class>`: panic of a writer / reader;
//!  * `C04|row-mismatch|<cause>`: `enc:Union(mode)` if a union is on the blame
//!    chain, else `enc:<outermost of Dict>below / REE / ListView / LargeListView>`,
//!    else the innermost container and leaf class (`List>view`, `int`, ...);
//!  * `C04|schema|<aspect>@<kind>` (name / nullable / metadata / type /
//!    field-count / schema-metadata), `C04|batch-count`, `C04|batch-shape`,
//!    `C04|batch-schema`, `C04|row-count`, `C04|len-mismatch`, `C04|column-type|<kind>`,
//!    `C04|no-schema`, `C04|file-num-batches`, `C04|file-custom-metadata`,
//!    `C04|unreadable|<file>|<message class>`.

use std::io::Cursor;
use std::sync::Arc;

use arrow_array::{Array, ArrayRef, RecordBatch};
use arrow_buffer::Buffer;
use arrow_flight::FlightData;
use arrow_flight::decode::FlightRecordBatchStream;
use arrow_flight::encode::{DictionaryHandling as FlightDict, FlightDataEncoderBuilder};
use arrow_flight::error::FlightError;
use arrow_flight::utils::{batches_to_flight_data, flight_data_to_batches};
use arrow_ipc::reader::{FileReader, StreamDecoder, StreamReader};
use arrow_ipc::writer::IpcWriteOptions;
use arrow_schema::{DataType, Field, FieldRef, Schema, SchemaRef, UnionFields};
use futures::StreamExt;
use futures::executor::block_on;
use vcore::extract::extract;
use vcore::mon::{Ctx, guard, is_rejection_msg, strip_digits};
use vcore::rng::Rng;
use vcore::val::{Val, dump_vals};

pub use super::c04gen::*;

const P: &str = "C04";

// ------------------------------------------------------------------ schema comparison

fn kind(dt: &DataType) -> String {
    use DataType::*;
    match dt {
        List(_) => "List".into(),
        LargeList(_) => "LargeList".into(),
        ListView(_) => "ListView".into(),
        LargeListView(_) => "LargeListView".into(),
        FixedSizeList(_, _) => "FixedSizeList".into(),
        Struct(_) => "Struct".into(),
        Map(_, _) => "Map".into(),
        Union(_, m) => format!("Union({m:?})"),
        Dictionary(_, _) => "Dict".into(),
        RunEndEncoded(_, _) => "REE".into(),
        Timestamp(_, tz) => format!("Timestamp({})", if tz.is_some() { "tz" } else { "-" }),
        Time32(_) => "Time32".into(),
        Time64(_) => "Time64".into(),
        Duration(_) => "Duration".into(),
        Interval(u) => format!("Interval({u:?})"),
        Decimal32(_, _) => "Decimal32".into(),
        Decimal64(_, _) => "Decimal64".into(),
        Decimal128(_, _) => "Decimal128".into(),
        Decimal256(_, _) => "Decimal256".into(),
        FixedSizeBinary(_) => "FixedSizeBinary".into(),
        other => format!("{other:?}"),
    }
}

/// Signature part of a blame chain (the detail keeps the full chain and the sink).
///
/// One defect should map to one signature whatever the leaf type, so the cause is
/// keyed by an *encoding layer* on the chain (the layers whose physical form
/// differs from the logical one); wrong data at or below such a layer is
/// attributed to it:
///  1. a union anywhere on the chain: `enc:Union(mode)` (the outermost one);
///  2. else the outermost of Dict / REE / ListView / LargeListView: `enc:<layer>`,
///     for Dict followed by the kind directly below it (`enc:Dict>ListView`:
///     what kind of dictionary went stale);
///  3. else the innermost container and the leaf class (`List>view`, `int`).
fn row_cause(chain: &str) -> String {
    fn strip(k: &str) -> &str {
        match k.find('!') {
            Some(i) => &k[..i],
            None => k,
        }
    }
    let parts: Vec<&str> = chain.split('>').map(strip).collect();
    if let Some(u) = parts.iter().find(|p| p.starts_with("Union")) {
        return format!("enc:{u}");
    }
    for (i, p) in parts.iter().enumerate() {
        if matches!(*p, "REE" | "ListView" | "LargeListView") {
            return format!("enc:{p}");
        }
        if *p == "Dict" {
            return match parts.get(i + 1) {
                Some(below) => format!("enc:Dict>{}", leaf_class(below)),
                None => "enc:Dict".to_string(),
            };
        }
    }
    let n = parts.len();
    let mut out: Vec<String> = parts[n.saturating_sub(2)..].iter().map(|s| s.to_string()).collect();
    if let Some(l) = out.last_mut() {
        *l = leaf_class(l).to_string();
    }
    out.join(">")
}

/// Class of an error message: wrappers of the Flight decoder removed, cut after
/// "in array of type", quoted names and numbers removed.
fn err_class(m: &str) -> String {
    let mut m = m.to_string();
    for w in ["Decode error: ", "Error decoding ipc RecordBatch: ", "Error decoding ipc dictionary: ", "Arrow error: "] {
        m = m.replace(w, "");
    }
    if let Some(i) = m.find("in array of type") {
        m.truncate(i + "in array of type".len());
    }
    // quoted names
    let mut out = String::new();
    let mut in_q = false;
    for c in m.chars() {
        if c == '"' {
            in_q = !in_q;
            if !in_q {
                out.push_str("\"_\"");
            }
        } else if !in_q {
            out.push(c);
        }
    }
    let out = strip_digits(&out);
    out.chars().take(110).collect::<String>().trim().to_string()
}

/// Panic from arrow-rs where the property forbids it: keyed by file and message class only.
fn panic_violation(ctx: &mut Ctx, op: &str, p: &vcore::mon::PanicInfo, detail: String) {
    if p.is_model() {
        ctx.inconclusive(&format!("harness model panic in {op}: {} @ {}", p.msg, p.loc));
        return;
    }
    ctx.violation(
        &format!("{P}|panic|{}|{}", p.file(), err_class(&p.msg)),
        format!("{op}: panic: {} @ {}\n{detail}", p.msg, p.loc),
    );
}

fn leaf_class(k: &str) -> &str {
    match k {
        "Int8" | "Int16" | "Int32" | "Int64" | "UInt8" | "UInt16" | "UInt32" | "UInt64" => "int",
        "Float16" | "Float32" | "Float64" => "float",
        "Decimal32" | "Decimal64" | "Decimal128" | "Decimal256" => "decimal",
        "Date32" | "Date64" | "Time32" | "Time64" | "Duration" | "Timestamp(tz)" | "Timestamp(-)" => "temporal",
        "Utf8" | "LargeUtf8" | "Binary" | "LargeBinary" => "bytes",
        "Utf8View" | "BinaryView" => "view",
        b if b.starts_with("Interval") => "interval",
        b => b,
    }
}

/// Coarse evidence class of a column type: its kind and the kind of its first-level children.
fn cls(dt: &DataType) -> String {
    use DataType::*;
    let k1 = |d: &DataType| leaf_class(&kind(d)).to_string();
    match dt {
        List(f) | LargeList(f) | ListView(f) | LargeListView(f) | FixedSizeList(f, _) => format!("{}<{}>", kind(dt), k1(f.data_type())),
        Struct(_) | Union(_, _) => format!("{}{}", kind(dt), if has_dict(dt) { "+dict" } else { "" }),
        Map(e, _) => match e.data_type() {
            Struct(kv) if kv.len() == 2 => format!("Map<{}>", k1(kv[1].data_type())),
            _ => "Map".into(),
        },
        Dictionary(k, v) => format!("Dict<{},{}>", if matches!(**k, Int8 | UInt8) { "k8" } else { "k" }, k1(v)),
        RunEndEncoded(_, v) => format!("REE<{}>", k1(v.data_type())),
        other => k1(other),
    }
}

/// First difference between two fields: (aspect, kind of the field's type, text)
fn field_diff(exp: &Field, got: &Field) -> Option<(String, String, String)> {
    let k = kind(exp.data_type());
    if exp.name() != got.name() {
        return Some(("name".into(), k, format!("name {:?} vs {:?}", exp.name(), got.name())));
    }
    if exp.is_nullable() != got.is_nullable() {
        return Some(("nullable".into(), k, format!("field {:?} nullable {} vs {}", exp.name(), exp.is_nullable(), got.is_nullable())));
    }
    if exp.metadata() != got.metadata() {
        return Some(("metadata".into(), k, format!("field {:?} metadata {:?} vs {:?}", exp.name(), exp.metadata(), got.metadata())));
    }
    type_diff(exp.data_type(), got.data_type())
}

fn type_diff(e: &DataType, g: &DataType) -> Option<(String, String, String)> {
    use DataType::*;
    if e == g {
        return None;
    }
    let top = || Some(("type".to_string(), kind(e), format!("type {e} vs {g}")));
    match (e, g) {
        (List(a), List(b)) | (LargeList(a), LargeList(b)) | (ListView(a), ListView(b)) | (LargeListView(a), LargeListView(b)) => {
            field_diff(a, b)
        }
        (FixedSizeList(a, n), FixedSizeList(b, m)) if n == m => field_diff(a, b),
        (Map(a, x), Map(b, y)) if x == y => field_diff(a, b),
        (Struct(a), Struct(b)) if a.len() == b.len() => a.iter().zip(b.iter()).find_map(|(x, y)| field_diff(x, y)).or_else(top),
        (Union(a, x), Union(b, y)) if x == y && a.len() == b.len() => a
            .iter()
            .zip(b.iter())
            .find_map(|((i, x), (j, y))| if i != j { top() } else { field_diff(x, y) })
            .or_else(top),
        (Dictionary(k1, v1), Dictionary(k2, v2)) if k1 == k2 => type_diff(v1, v2).or_else(top),
        (RunEndEncoded(r1, v1), RunEndEncoded(r2, v2)) => field_diff(r1, r2).or_else(|| field_diff(v1, v2)).or_else(top),
        _ => top(),
    }
}

fn schema_diff(exp: &Schema, got: &Schema) -> Option<(String, String)> {
    if exp == got {
        return None;
    }
    if exp.fields().len() != got.fields().len() {
        return Some(("field-count".into(), format!("{} fields vs {}", exp.fields().len(), got.fields().len())));
    }
    for (a, b) in exp.fields().iter().zip(got.fields().iter()) {
        if let Some((aspect, k, text)) = field_diff(a, b) {
            let k = if k.starts_with("Union") { "Union".to_string() } else { k };
            return Some((format!("{aspect}@{k}"), text));
        }
    }
    if exp.metadata() != got.metadata() {
        return Some(("schema-metadata".into(), format!("schema metadata {:?} vs {:?}", exp.metadata(), got.metadata())));
    }
    Some(("unknown".into(), "schemas differ".into()))
}

/// Documented Flight transformation: dictionaries replaced by their value type.
fn hydrate_type(dt: &DataType) -> DataType {
    use DataType::*;
    let hf = |f: &FieldRef| -> FieldRef {
        Arc::new(Field::new(f.name(), hydrate_type(f.data_type()), f.is_nullable()).with_metadata(f.metadata().clone()))
    };
    match dt {
        Dictionary(_, v) => hydrate_type(v),
        List(f) => List(hf(f)),
        LargeList(f) => LargeList(hf(f)),
        ListView(f) => ListView(hf(f)),
        LargeListView(f) => LargeListView(hf(f)),
        FixedSizeList(f, n) => FixedSizeList(hf(f), *n),
        Struct(fs) => Struct(fs.iter().map(hf).collect()),
        Map(f, o) => Map(hf(f), *o),
        Union(ufs, m) => {
            let ids: Vec<i8> = ufs.iter().map(|(i, _)| i).collect();
            let fs: Vec<FieldRef> = ufs.iter().map(|(_, f)| hf(f)).collect();
            Union(UnionFields::try_new(ids, fs).expect("model: union fields"), *m)
        }
        RunEndEncoded(r, v) => RunEndEncoded(r.clone(), hf(v)),
        other => other.clone(),
    }
}

fn hydrate_schema(s: &Schema) -> Schema {
    let fields: Vec<Field> = s
        .fields()
        .iter()
        .map(|f| Field::new(f.name(), hydrate_type(f.data_type()), f.is_nullable()).with_metadata(f.metadata().clone()))
        .collect();
    Schema::new(fields).with_metadata(s.metadata().clone())
}

// ------------------------------------------------------------------ value comparison

/// Kind chain down to the innermost place where two values of `dt` differ.
fn blame(dt: &DataType, e: &Val, g: &Val) -> String {
    use DataType::*;
    let k = kind(dt);
    let sub = match (dt, e, g) {
        (List(f) | LargeList(f) | ListView(f) | LargeListView(f) | FixedSizeList(f, _), Val::List(a), Val::List(b)) if a.len() == b.len() => a
            .iter()
            .zip(b)
            .find(|(x, y)| x != y)
            .map(|(x, y)| blame(f.data_type(), x, y)),
        (Map(f, _), Val::List(a), Val::List(b)) if a.len() == b.len() => {
            a.iter().zip(b).find(|(x, y)| x != y).map(|(x, y)| blame(f.data_type(), x, y))
        }
        (Struct(fs), Val::Struct(a), Val::Struct(b)) if a.len() == b.len() && a.len() == fs.len() => fs
            .iter()
            .zip(a.iter().zip(b))
            .find(|(_, (x, y))| x != y)
            .map(|(f, (x, y))| blame(f.data_type(), x, y)),
        (Union(ufs, _), Val::Union(t1, a), Val::Union(t2, b)) if t1 == t2 => {
            ufs.iter().find(|(i, _)| i == t1).map(|(_, f)| blame(f.data_type(), a, b))
        }
        (Dictionary(_, v), a, b) if !a.is_null() && !b.is_null() => Some(blame(v, a, b)),
        (RunEndEncoded(_, v), a, b) if !a.is_null() && !b.is_null() => Some(blame(v.data_type(), a, b)),
        _ => None,
    };
    let what = match (e.is_null(), g.is_null()) {
        (true, false) => "!null-lost",
        (false, true) => "!null-gained",
        _ => "",
    };
    match sub {
        Some(s) => format!("{k}>{s}"),
        None => format!("{k}{what}"),
    }
}

struct Expect<'a> {
    schema: Schema,
    /// per batch: row count and columns
    batches: Vec<(usize, Vec<&'a [Val]>)>,
}

struct Case<'a> {
    seq: &'a Seq,
    opts: &'a WriteOpts,
    extra: String,
}

impl Case<'_> {
    fn detail(&self, msg: &str) -> String {
        format!("{msg}\noptions: {:?} {}\nstyle: {} shared: {:?}\n{}", self.opts, self.extra, self.seq.style, self.seq.shared, self.seq.describe())
    }
}

/// Compare what a reader returned with the expectation. Returns true if it held.
fn check_read(ctx: &mut Ctx, case: &Case, sink: &str, exp: &Expect, got_schema: &Schema, got: &[RecordBatch]) -> bool {
    ctx.eval();
    if let Some((sig, text)) = schema_diff(&exp.schema, got_schema) {
        ctx.violation(&format!("{P}|schema|{sig}"), case.detail(&format!("{sink}: schema differs: {text}\nexpected {:?}\ngot      {:?}", exp.schema, got_schema)));
        return false;
    }
    if got.len() != exp.batches.len() {
        ctx.violation(
            &format!("{P}|batch-count"),
            case.detail(&format!("{sink}: wrote {} batches, read {}", exp.batches.len(), got.len())),
        );
        return false;
    }
    for (b, (batch, (rows, cols))) in got.iter().zip(exp.batches.iter()).enumerate() {
        if batch.schema().as_ref() != &exp.schema {
            ctx.violation(&format!("{P}|batch-schema"), case.detail(&format!("{sink}: batch {b} carries schema {:?}", batch.schema())));
            return false;
        }
        if batch.num_rows() != *rows || batch.num_columns() != cols.len() {
            ctx.violation(
                &format!("{P}|batch-shape"),
                case.detail(&format!("{sink}: batch {b}: expected {rows} rows x {} cols, got {} x {}", cols.len(), batch.num_rows(), batch.num_columns())),
            );
            return false;
        }
        for (c, (col, want)) in batch.columns().iter().zip(cols.iter()).enumerate() {
            if !check_column(ctx, case, sink, &format!("batch {b} column {c}"), exp.schema.field(c).data_type(), col, want) {
                return false;
            }
        }
    }
    true
}

fn check_column(ctx: &mut Ctx, case: &Case, sink: &str, loc: &str, dt: &DataType, col: &ArrayRef, want: &[Val]) -> bool {
    if col.data_type() != dt {
        ctx.violation(
            &format!("{P}|column-type|{}", kind(dt)),
            case.detail(&format!("{sink}: {loc} has type {} but the schema says {dt}", col.data_type())),
        );
        return false;
    }
    let got = match guard(|| extract(col.as_ref())) {
        Ok(v) => v,
        Err(p) => {
            if p.is_model() {
                ctx.inconclusive(&format!("extract: {} @ {}", p.msg, p.loc));
            } else {
                ctx.violation(
                    &format!("{P}|unreadable|{}|{}", p.file(), msg_class(&p.msg)),
                    case.detail(&format!("{sink}: {loc}: reading the returned array panicked: {} @ {}", p.msg, p.loc)),
                );
            }
            return false;
        }
    };
    if got.len() != want.len() {
        ctx.violation(
            &format!("{P}|len-mismatch"),
            case.detail(&format!("{sink}: {loc}: expected {} rows got {}", want.len(), got.len())),
        );
        return false;
    }
    if let Some(i) = (0..want.len()).find(|i| got[*i] != want[*i]) {
        let full_chain = blame(dt, &want[i], &got[i]);
        let chain = row_cause(&full_chain);
        ctx.violation(
            &format!("{P}|row-mismatch|{chain}"),
            case.detail(&format!(
                "{sink}: {loc} ({dt}) row {i} differs at {full_chain}: expected {:?} got {:?}\nexpected column {}\ngot column      {}",
                want[i],
                got[i],
                dump_vals(want),
                dump_vals(&got)
            )),
        );
        return false;
    }
    true
}

fn read_err(ctx: &mut Ctx, case: &Case, sink: &str, msg: &str) {
    ctx.eval();
    if is_rejection_msg(msg) {
        ctx.reject();
        ctx.count(&format!("reject:{sink}:read-unsupported"), 1);
        return;
    }
    ctx.violation(
        &format!("{P}|read-err|{}", err_class(msg)),
        case.detail(&format!("{sink}: the reader failed on bytes the writer produced: {msg}")),
    );
}

// ------------------------------------------------------------------ readers

type ReadOut = (SchemaRef, Vec<RecordBatch>);

fn read_stream(bytes: &[u8], proj: Option<Vec<usize>>, buffered: bool) -> Result<ReadOut, String> {
    fn drain<I: Iterator<Item = Result<RecordBatch, arrow_schema::ArrowError>>>(it: &mut I) -> Result<Vec<RecordBatch>, String> {
        let mut out = vec![];
        for b in it {
            out.push(b.map_err(|e| e.to_string())?);
        }
        Ok(out)
    }
    if buffered {
        let mut r = StreamReader::try_new_buffered(Cursor::new(bytes), proj).map_err(|e| e.to_string())?;
        let s = r.schema();
        Ok((s, drain(&mut r)?))
    } else {
        let mut r = StreamReader::try_new(bytes, proj).map_err(|e| e.to_string())?;
        let s = r.schema();
        let out = drain(&mut r)?;
        if !r.is_finished() {
            return Err("StreamReader returned None but is_finished() is false".into());
        }
        Ok((s, out))
    }
}

struct FileOut {
    schema: SchemaRef,
    batches: Vec<RecordBatch>,
    custom: Vec<(String, String)>,
    num_batches: usize,
}

fn read_file(bytes: &[u8], proj: Option<Vec<usize>>) -> Result<FileOut, String> {
    let mut r = FileReader::try_new(Cursor::new(bytes), proj).map_err(|e| e.to_string())?;
    let schema = r.schema();
    let num_batches = r.num_batches();
    let mut custom: Vec<(String, String)> = r.custom_metadata().iter().map(|(k, v)| (k.clone(), v.clone())).collect();
    custom.sort();
    let mut batches = vec![];
    for b in &mut r {
        batches.push(b.map_err(|e| e.to_string())?);
    }
    Ok(FileOut { schema, batches, custom, num_batches })
}

/// random access: batches in the order `order`
fn read_file_indexed(bytes: &[u8], order: &[usize]) -> Result<Vec<RecordBatch>, String> {
    let mut r = FileReader::try_new_buffered(Cursor::new(bytes), None).map_err(|e| e.to_string())?;
    let mut out = vec![];
    for i in order {
        r.set_index(*i).map_err(|e| e.to_string())?;
        match r.next() {
            Some(b) => out.push(b.map_err(|e| e.to_string())?),
            None => return Err(format!("set_index({i}) then next() returned None")),
        }
    }
    Ok(out)
}

fn read_decoder(bytes: &[u8], chunks: &[usize]) -> Result<(Option<SchemaRef>, Vec<RecordBatch>), String> {
    let mut dec = StreamDecoder::new();
    let mut out = vec![];
    let mut pos = 0usize;
    let mut ci = 0usize;
    while pos < bytes.len() {
        let n = if chunks.is_empty() { bytes.len() } else { chunks[ci % chunks.len()].max(1) };
        ci += 1;
        let end = (pos + n).min(bytes.len());
        let mut b = Buffer::from(bytes[pos..end].to_vec());
        pos = end;
        while !b.is_empty() {
            if let Some(batch) = dec.decode(&mut b).map_err(|e| e.to_string())? {
                out.push(batch);
            }
        }
    }
    dec.finish().map_err(|e| e.to_string())?;
    Ok((dec.schema(), out))
}

// ------------------------------------------------------------------ flight

struct FlightOut {
    data: Vec<FlightData>,
    known: Option<SchemaRef>,
}

fn flight_encode(schema: SchemaRef, batches: Vec<RecordBatch>, o: IpcWriteOptions, max: usize, resend: bool, with_schema: bool) -> Result<FlightOut, String> {
    let mut b = FlightDataEncoderBuilder::new()
        .with_options(o)
        .with_max_flight_data_size(max)
        .with_dictionary_handling(if resend { FlightDict::Resend } else { FlightDict::Hydrate });
    if with_schema {
        b = b.with_schema(schema);
    }
    let mut enc = b.build(futures::stream::iter(batches.into_iter().map(Ok::<_, FlightError>)));
    let known = enc.known_schema();
    let mut data = vec![];
    while let Some(x) = block_on(enc.next()) {
        data.push(x.map_err(|e| e.to_string())?);
    }
    Ok(FlightOut { data, known })
}

fn flight_decode(data: Vec<FlightData>) -> Result<(Option<SchemaRef>, Vec<RecordBatch>), String> {
    let mut s = FlightRecordBatchStream::new_from_flight_data(futures::stream::iter(data.into_iter().map(Ok::<_, FlightError>)));
    let mut out = vec![];
    while let Some(x) = block_on(s.next()) {
        out.push(x.map_err(|e| e.to_string())?);
    }
    Ok((s.schema().cloned(), out))
}

/// Flight oracle: schema as documented, concatenated rows equal.
fn check_flight(ctx: &mut Ctx, case: &Case, sink: &str, exp_schema: &Schema, got_schema: Option<&Schema>, got: &[RecordBatch]) -> bool {
    ctx.eval();
    let seq = case.seq;
    if let Some(gs) = got_schema {
        if let Some((sig, text)) = schema_diff(exp_schema, gs) {
            ctx.violation(&format!("{P}|schema|{sig}"), case.detail(&format!("{sink}: schema differs: {text}\nexpected {exp_schema:?}\ngot      {gs:?}")));
            return false;
        }
    } else if !got.is_empty() {
        ctx.violation(&format!("{P}|no-schema"), case.detail(&format!("{sink}: batches decoded but no schema")));
        return false;
    }
    let total: usize = seq.rows.iter().sum();
    let got_total: usize = got.iter().map(|b| b.num_rows()).sum();
    if total != got_total {
        ctx.violation(&format!("{P}|row-count"), case.detail(&format!("{sink}: sent {total} rows, decoded {got_total}")));
        return false;
    }
    for c in 0..seq.schema.fields().len() {
        let want: Vec<Val> = seq.model.iter().flat_map(|m| m[c].iter().cloned()).collect();
        let dt = exp_schema.field(c).data_type();
        let mut have: Vec<Val> = Vec::with_capacity(want.len());
        for (bi, b) in got.iter().enumerate() {
            if b.num_columns() != seq.schema.fields().len() {
                ctx.violation(&format!("{P}|batch-shape"), case.detail(&format!("{sink}: decoded batch {bi} has {} columns", b.num_columns())));
                return false;
            }
            let col = b.column(c);
            if col.data_type() != dt {
                ctx.violation(
                    &format!("{P}|column-type|{}", kind(dt)),
                    case.detail(&format!("{sink}: decoded batch {bi} column {c} has type {} but the schema says {dt}", col.data_type())),
                );
                return false;
            }
            match guard(|| extract(col.as_ref())) {
                Ok(v) => have.extend(v),
                Err(p) => {
                    if p.is_model() {
                        ctx.inconclusive(&format!("extract: {} @ {}", p.msg, p.loc));
                    } else {
                        ctx.violation(
                            &format!("{P}|unreadable|{}|{}", p.file(), msg_class(&p.msg)),
                            case.detail(&format!("{sink}: decoded batch {bi} column {c}: reading the array panicked: {} @ {}", p.msg, p.loc)),
                        );
                    }
                    return false;
                }
            }
        }
        if have.len() != want.len() {
            ctx.violation(&format!("{P}|len-mismatch"), case.detail(&format!("{sink}: column {c}: {} rows vs {}", want.len(), have.len())));
            return false;
        }
        if let Some(i) = (0..want.len()).find(|i| have[*i] != want[*i]) {
            let full_chain = blame(dt, &want[i], &have[i]);
            let chain = row_cause(&full_chain);
            ctx.violation(
                &format!("{P}|row-mismatch|{chain}"),
                case.detail(&format!(
                    "{sink}: column {c} ({dt}) concatenated row {i} differs at {full_chain}: expected {:?} got {:?}\nexpected {}\ngot      {}",
                    want[i],
                    have[i],
                    dump_vals(&want),
                    dump_vals(&have)
                )),
            );
            return false;
        }
    }
    true
}

// ------------------------------------------------------------------ the case

fn gen_projection(rng: &mut Rng, ncols: usize) -> Vec<usize> {
    if ncols == 0 {
        return vec![];
    }
    match rng.below(6) {
        0 => vec![],
        1 => vec![rng.below(ncols)],
        2 => {
            // sorted subset
            (0..ncols).filter(|_| rng.bool()).collect()
        }
        3 => {
            // with a duplicate
            let a = rng.below(ncols);
            vec![a, rng.below(ncols), a]
        }
        _ => {
            let mut v: Vec<usize> = (0..ncols).filter(|_| rng.chance(2, 3)).collect();
            rng.shuffle(&mut v);
            v
        }
    }
}

/// short stable class of an error message for the evidence counters
fn msg_class(m: &str) -> String {
    let m = strip_digits(m);
    let m = m.split('"').next().unwrap_or("");
    m.chars().take(48).collect::<String>().trim().to_string()
}

/// A writer that returns `Err` did not accept its input: a rejection, whatever
/// the reason (not asserted). The reasons are counted so that they show up in
/// the evidence. Only panics that are not `unimplemented`-style are violations.
fn writer_failed(ctx: &mut Ctx, case: &Case, sink: &str, w: &WriteRes, predicted_reject: Option<usize>) {
    ctx.eval();
    if let Some(p) = &w.panic {
        if p.is_rejection() {
            ctx.reject();
            ctx.count(&format!("reject:{sink}:unsupported"), 1);
        } else {
            panic_violation(ctx, &format!("{sink}-write"), p, case.detail(&format!("{sink}: the writer panicked")));
        }
        return;
    }
    let (at, msg) = w.err.clone().unwrap();
    ctx.reject();
    if is_rejection_msg(&msg) {
        ctx.count(&format!("reject:{sink}:unsupported"), 1);
    } else if msg.contains("Dictionary replacement detected") {
        // evidence only: does the model's dictionary history agree with the writer?
        // (`ArrayData` equality of sparse unions is physical, so it may not)
        if predicted_reject.is_some() && predicted_reject == at {
            ctx.count(&format!("reject:{sink}:dictionary-replacement"), 1);
        } else {
            ctx.count(&format!("reject:{sink}:dictionary-replacement-not-predicted-by-model"), 1);
        }
    } else {
        ctx.count(&format!("reject:{sink}:other:{}", msg_class(&msg)), 1);
    }
}

/// Debugging aid for replays (`VERIF_C04_DEBUG=1 vrun C04 --section S --case N`): the
/// physical dictionary values of every top-level dictionary column per batch and
/// what `ArrayData` equality says about consecutive batches.
fn debug_dump(seq: &Seq) {
    use arrow_array::cast::AsArray;
    for c in 0..seq.schema.fields().len() {
        if !matches!(seq.schema.field(c).data_type(), DataType::Dictionary(_, _)) {
            continue;
        }
        let mut prev: Option<arrow_data::ArrayData> = None;
        for (b, batch) in seq.batches.iter().enumerate() {
            let d = batch.column(c).as_any_dictionary();
            let v = d.values().to_data();
            let eq = prev.as_ref().map(|p| guard(|| (p.len(), v.len(), *p == v, if v.len() >= p.len() { Some(v.slice(0, p.len()) == *p) } else { None })));
            eprintln!(
                "DEBUG col {c} batch {b}: keys {:?}\n  values(logical) {}\n  values(physical) {:?}\n  (old len, new len, old == new, new[..old len] == old) = {:?}",
                d.keys(),
                dump_vals(&extract(d.values().as_ref())),
                v,
                eq.map(|r| r.map_err(|p| p.msg))
            );
            prev = Some(v);
        }
    }
}

/// Oracle power self-test (never active in a normal run): with
/// `VERIF_C04_SELFTEST=model` the *expectation* (not arrow-rs) is falsified in one
/// row of the first non-empty column, with `=schema` in the expected schema, with
/// `=count` one expected batch is dropped. Every sink then has to report.
fn selftest_sabotage(seq: &mut Seq) {
    let Ok(mode) = std::env::var("VERIF_C04_SELFTEST") else { return };
    match mode.as_str() {
        "model" => {
            for m in seq.model.iter_mut() {
                if let Some(col) = m.iter_mut().find(|c| !c.is_empty()) {
                    let other = col.iter().find(|v| **v != col[0]).cloned();
                    col[0] = match other {
                        Some(v) => v,
                        None => return,
                    };
                    return;
                }
            }
        }
        "schema" => {
            let mut md = seq.schema.metadata().clone();
            md.insert("selftest".to_string(), "x".to_string());
            seq.schema = Arc::new(seq.schema.as_ref().clone().with_metadata(md));
            // the batches keep the original schema: the writers are given `batches[i].schema()`
        }
        "count" => {
            if seq.model.len() > 1 {
                seq.model.pop();
                seq.rows.pop();
            }
        }
        _ => {}
    }
}

fn run_case(ctx: &mut Ctx, rng: &mut Rng, cfg: &SeqCfg, flight: bool) {
    // 1. inputs
    let seq = match guard(|| gen_sequence(rng, cfg)) {
        Ok(s) => s,
        Err(p) => {
            ctx.inconclusive(&format!("generator: {} @ {}", p.msg, p.loc));
            return;
        }
    };
    let mut seq = seq;
    if std::env::var("VERIF_C04_DEBUG").is_ok() {
        debug_dump(&seq);
    }
    selftest_sabotage(&mut seq);
    let seq = seq;
    let wo = gen_write_opts(rng);
    let ipc = match wo.to_ipc() {
        Ok(o) => o,
        Err(e) => {
            ctx.inconclusive(&format!("options rejected: {e}"));
            return;
        }
    };
    let ncols = seq.schema.fields().len();
    let nb = seq.model.len();
    // what the writers are given (the expectation lives in seq.schema / seq.model)
    let wschema = seq.batches[0].schema();
    let file_md: Vec<(String, String)> = (0..rng.below(3)).map(|i| (format!("fk{i}"), vcore::gens::gen_string(rng))).collect();
    let case = Case { seq: &seq, opts: &wo, extra: String::new() };
    let full = Expect {
        schema: seq.schema.as_ref().clone(),
        batches: (0..nb).map(|b| (seq.rows[b], seq.model[b].iter().map(|v| &v[..]).collect())).collect(),
    };
    let proj = gen_projection(rng, ncols);
    // VERIF_C04_SELFTEST=proj: the expectation uses the reversed projection
    let eproj: Vec<usize> = if std::env::var("VERIF_C04_SELFTEST").as_deref() == Ok("proj") {
        proj.iter().rev().cloned().collect()
    } else {
        proj.clone()
    };
    let projected = |upto: usize| Expect {
        schema: seq.schema.project(&eproj).expect("model: project"),
        batches: (0..upto).map(|b| (seq.rows[b], eproj.iter().map(|i| &seq.model[b][*i][..]).collect())).collect(),
    };
    let nontrivial = seq.rows.iter().any(|r| *r > 0) && ncols > 0;
    let hist = seq.hist_class();
    let optc = format!("{}/{}", ["v4l", "v4", "v5"][wo.version as usize], ["none", "lz4", "zstd"][wo.compression as usize]);
    let dh = if wo.delta { "delta" } else { "resend" };
    let classes = |ctx: &mut Ctx, sink: &str| {
        if nontrivial {
            for f in seq.schema.fields() {
                if has_dict(f.data_type()) {
                    ctx.class(format!("{sink}|{}|{optc}/{dh}|{hist}", cls(f.data_type())));
                } else {
                    ctx.class(format!("{sink}|{}|{optc}", cls(f.data_type())));
                }
            }
        }
    };
    ctx.count("sequences", 1);
    ctx.count("batches", nb as u64);
    ctx.count(&format!("align:{}", wo.align), 1);
    for evs in &seq.events {
        for (_, e) in evs {
            ctx.count(&format!("dict-event:{}", e.name()), 1);
        }
    }
    if !seq.shared.is_empty() {
        ctx.count("sequences-with-shared-dictionary", 1);
    }
    ctx.sample(|| format!("{:?} {}", wo, seq.describe()));

    // 2. stream writer
    let w = write_ipc(IpcKind::Stream, &wschema, &seq.batches, &ipc, &[]);
    if w.err.is_some() || w.panic.is_some() {
        writer_failed(ctx, &case, "stream", &w, None);
    } else {
        ctx.count("bytes:stream", w.bytes.len() as u64);
        match guard(|| read_stream(&w.bytes, None, false)) {
            Ok(Ok((s, got))) => {
                if check_read(ctx, &case, "stream", &full, &s, &got) {
                    classes(ctx, "stream");
                    // projection == project(full read)
                    match guard(|| read_stream(&w.bytes, Some(proj.clone()), true)) {
                        Ok(Ok((ps, pg))) => {
                            let c2 = Case { seq: &seq, opts: &wo, extra: format!("projection {proj:?}") };
                            if check_read(ctx, &c2, "stream-proj", &projected(nb), &ps, &pg) {
                                ctx.count("projections", 1);
                            }
                        }
                        Ok(Err(e)) => read_err(ctx, &Case { seq: &seq, opts: &wo, extra: format!("projection {proj:?}") }, "stream-proj", &e),
                        Err(p) => panic_violation(ctx, "stream-proj-read", &p, case.detail(&format!("projection {proj:?}"))),
                    }
                }
            }
            Ok(Err(e)) => read_err(ctx, &case, "stream", &e),
            Err(p) => panic_violation(ctx, "stream-read", &p, case.detail("StreamReader panicked")),
        }
        // push decoder on the same bytes, whole or chunked
        let chunks: Vec<usize> = match rng.below(4) {
            0 => vec![],
            1 => vec![1 + rng.below(7)],
            2 => (0..5).map(|_| 1 + rng.below(64)).collect(),
            _ => (0..5).map(|_| 1 + rng.below(2000)).collect(),
        };
        match guard(|| read_decoder(&w.bytes, &chunks)) {
            Ok(Ok((s, got))) => match s {
                Some(s) => {
                    let c2 = Case { seq: &seq, opts: &wo, extra: format!("chunks {chunks:?}") };
                    if check_read(ctx, &c2, "decoder", &full, &s, &got) {
                        classes(ctx, "decoder");
                    }
                }
                None => ctx.violation(&format!("{P}|no-schema"), case.detail("StreamDecoder consumed the stream but has no schema")),
            },
            Ok(Err(e)) => read_err(ctx, &Case { seq: &seq, opts: &wo, extra: format!("chunks {chunks:?}") }, "decoder", &e),
            Err(p) => panic_violation(ctx, "decoder-read", &p, case.detail(&format!("StreamDecoder panicked, chunks {chunks:?}"))),
        }
    }

    // 3. stream encoder (read back by either stream reader)
    let w = write_ipc(IpcKind::StreamEncoder, &wschema, &seq.batches, &ipc, &[]);
    if w.err.is_some() || w.panic.is_some() {
        writer_failed(ctx, &case, "encoder", &w, None);
    } else {
        ctx.count("bytes:encoder", w.bytes.len() as u64);
        let via_decoder = rng.bool();
        let r = guard(|| {
            if via_decoder {
                read_decoder(&w.bytes, &[]).and_then(|(s, g)| s.map(|s| (s, g)).ok_or_else(|| "no schema decoded".to_string()))
            } else {
                read_stream(&w.bytes, None, true)
            }
        });
        match r {
            Ok(Ok((s, got))) => {
                if check_read(ctx, &case, "encoder", &full, &s, &got) {
                    classes(ctx, "encoder");
                }
            }
            Ok(Err(e)) => read_err(ctx, &case, "encoder", &e),
            Err(p) => panic_violation(ctx, "encoder-read", &p, case.detail("reader panicked on StreamEncoder output")),
        }
    }

    // 4. file writer
    let predicted = seq.first_file_incompatible(wo.delta);
    let mut w = write_ipc(IpcKind::File, &wschema, &seq.batches, &ipc, &file_md);
    let mut upto = nb;
    if w.err.is_some() || w.panic.is_some() {
        writer_failed(ctx, &case, "file", &w, predicted);
        // the accepted prefix, written by a fresh writer, still has to round trip
        if let Some((Some(k), msg)) = &w.err {
            if msg.contains("Dictionary replacement detected") && *k > 0 {
                upto = *k;
                w = write_ipc(IpcKind::File, &wschema, &seq.batches[..upto], &ipc, &file_md);
                if w.err.is_some() || w.panic.is_some() {
                    writer_failed(ctx, &case, "file", &w, None);
                    upto = 0;
                }
            } else {
                upto = 0;
            }
        } else {
            upto = 0;
        }
    } else if let Some(k) = predicted {
        // accepted although a dictionary was replaced: fine as long as it round trips
        ctx.count("file-accepted-despite-replacement", 1);
        let _ = k;
    }
    if upto > 0 || (w.err.is_none() && w.panic.is_none()) {
        ctx.count("bytes:file", w.bytes.len() as u64);
        let fexp = Expect { schema: full.schema.clone(), batches: full.batches[..upto].to_vec() };
        match guard(|| read_file(&w.bytes, None)) {
            Ok(Ok(out)) => {
                let mut ok = check_read(ctx, &case, "file", &fexp, &out.schema, &out.batches);
                if ok && out.num_batches != upto {
                    ctx.violation(&format!("{P}|file-num-batches"), case.detail(&format!("num_batches() = {} but {upto} were written", out.num_batches)));
                    ok = false;
                }
                let mut want_md = file_md.clone();
                want_md.sort();
                want_md.dedup_by(|a, b| a.0 == b.0);
                if ok && out.custom != want_md {
                    ctx.violation(&format!("{P}|file-custom-metadata"), case.detail(&format!("custom metadata {:?} vs written {:?}", out.custom, want_md)));
                    ok = false;
                }
                if ok {
                    classes(ctx, "file");
                    match guard(|| read_file(&w.bytes, Some(proj.clone()))) {
                        Ok(Ok(po)) => {
                            let c2 = Case { seq: &seq, opts: &wo, extra: format!("projection {proj:?}") };
                            if check_read(ctx, &c2, "file-proj", &projected(upto), &po.schema, &po.batches) {
                                ctx.count("projections", 1);
                            }
                        }
                        Ok(Err(e)) => read_err(ctx, &Case { seq: &seq, opts: &wo, extra: format!("projection {proj:?}") }, "file-proj", &e),
                        Err(p) => panic_violation(ctx, "file-proj-read", &p, case.detail(&format!("projection {proj:?}"))),
                    }
                    if upto > 0 {
                        let mut order: Vec<usize> = (0..upto).collect();
                        rng.shuffle(&mut order);
                        order.push(rng.below(upto));
                        match guard(|| read_file_indexed(&w.bytes, &order)) {
                            Ok(Ok(got)) => {
                                let iexp = Expect { schema: full.schema.clone(), batches: order.iter().map(|i| full.batches[*i].clone()).collect() };
                                let c2 = Case { seq: &seq, opts: &wo, extra: format!("set_index order {order:?}") };
                                if check_read(ctx, &c2, "file-index", &iexp, &out.schema, &got) {
                                    ctx.count("random-access-reads", order.len() as u64);
                                }
                            }
                            Ok(Err(e)) => read_err(ctx, &Case { seq: &seq, opts: &wo, extra: format!("set_index order {order:?}") }, "file-index", &e),
                            Err(p) => panic_violation(ctx, "file-index-read", &p, case.detail(&format!("set_index order {order:?}"))),
                        }
                    }
                }
            }
            Ok(Err(e)) => read_err(ctx, &case, "file", &e),
            Err(p) => panic_violation(ctx, "file-read", &p, case.detail("FileReader panicked")),
        }
    }

    // 5. flight
    if flight {
        let max = *rng.pick(&[1usize, 1, 7, 64, 100, 500, 1000, 4096, 65536, 2097152]);
        let resend = rng.bool();
        let with_schema = rng.bool();
        let sink = if resend { "flight-resend" } else { "flight-hydrate" };
        let extra = format!("flight: max_flight_data_size={max} resend={resend} with_schema={with_schema}");
        let fcase = Case { seq: &seq, opts: &wo, extra };
        let exp_schema = if resend { seq.schema.as_ref().clone() } else { hydrate_schema(&seq.schema) };
        ctx.count(&format!("flight-max:{max}"), 1);
        match guard(|| flight_encode(wschema.clone(), seq.batches.clone(), ipc.clone(), max, resend, with_schema)) {
            Ok(Ok(fo)) => {
                ctx.count("flight-messages", fo.data.len() as u64);
                let mut ok = true;
                if with_schema {
                    ctx.eval();
                    match &fo.known {
                        Some(k) => {
                            if let Some((sig, text)) = schema_diff(&exp_schema, k) {
                                ctx.violation(&format!("{P}|schema|{sig}"), fcase.detail(&format!("known_schema() differs: {text}")));
                                ok = false;
                            }
                        }
                        None => {
                            ctx.violation(&format!("{P}|no-schema"), fcase.detail("with_schema() given but known_schema() is None"));
                            ok = false;
                        }
                    }
                }
                if ok {
                    match guard(|| flight_decode(fo.data.clone())) {
                        Ok(Ok((s, got))) => {
                            if s.is_none() && with_schema {
                                ctx.eval();
                                ctx.violation(&format!("{P}|no-schema"), fcase.detail("with_schema() given but the decoder saw no schema"));
                            } else if check_flight(ctx, &fcase, sink, &exp_schema, s.as_deref(), &got) {
                                classes(ctx, sink);
                                ctx.count("flight-decoded-batches", got.len() as u64);
                            }
                        }
                        Ok(Err(e)) => read_err(ctx, &fcase, sink, &e),
                        Err(p) => panic_violation(ctx, &format!("{sink}-decode"), &p, fcase.detail("FlightRecordBatchStream panicked")),
                    }
                    // utils::flight_data_to_batches handles schema + record batch messages only
                    if !fo.data.is_empty() && (!resend || !seq.has_dict()) {
                        let s2 = format!("{sink}-utils");
                        match guard(|| flight_data_to_batches(&fo.data).map_err(|e| e.to_string())) {
                            Ok(Ok(got)) => {
                                let gs = got.first().map(|b| b.schema());
                                if check_flight(ctx, &fcase, &s2, &exp_schema, gs.as_deref(), &got) {
                                    classes(ctx, &s2);
                                }
                            }
                            Ok(Err(e)) => read_err(ctx, &fcase, &s2, &e),
                            Err(p) => panic_violation(ctx, &format!("{s2}-decode"), &p, fcase.detail("flight_data_to_batches panicked")),
                        }
                    }
                }
            }
            Ok(Err(e)) => {
                // encoder Err (e.g. a cast the hydration does not support): rejection
                ctx.eval();
                ctx.reject();
                if is_rejection_msg(&e) {
                    ctx.count(&format!("reject:{sink}:unsupported"), 1);
                } else {
                    ctx.count(&format!("reject:{sink}:other:{}", msg_class(&e)), 1);
                }
            }
            Err(p) => {
                ctx.eval();
                if p.is_rejection() {
                    ctx.reject();
                    ctx.count(&format!("reject:{sink}:unsupported"), 1);
                } else {
                    panic_violation(ctx, &format!("{sink}-encode"), &p, fcase.detail("FlightDataEncoder panicked"));
                }
            }
        }

        // 6. utils::batches_to_flight_data (default options, dictionaries kept) -> FlightRecordBatchStream
        if rng.chance(1, 3) {
            let sink = "flight-b2fd";
            let fcase = Case { seq: &seq, opts: &wo, extra: "utils::batches_to_flight_data, default IpcWriteOptions".into() };
            match guard(|| batches_to_flight_data(&wschema, seq.batches.clone()).map_err(|e| e.to_string())) {
                Ok(Ok(fd)) => {
                    ctx.count("flight-messages", fd.len() as u64);
                    match guard(|| flight_decode(fd)) {
                        Ok(Ok((s, got))) => {
                            if check_flight(ctx, &fcase, sink, &seq.schema, s.as_deref(), &got) && nontrivial {
                                for f in seq.schema.fields() {
                                    ctx.class(format!("{sink}|{}|default", cls(f.data_type())));
                                }
                            }
                        }
                        Ok(Err(e)) => read_err(ctx, &fcase, sink, &e),
                        Err(p) => panic_violation(ctx, &format!("{sink}-decode"), &p, fcase.detail("FlightRecordBatchStream panicked")),
                    }
                }
                Ok(Err(e)) => {
                    ctx.eval();
                    ctx.reject();
                    ctx.count(&format!("reject:{sink}:other:{}", msg_class(&e)), 1);
                }
                Err(p) => {
                    ctx.eval();
                    if p.is_rejection() {
                        ctx.reject();
                    } else {
                        panic_violation(ctx, &format!("{sink}-encode"), &p, fcase.detail("batches_to_flight_data panicked"));
                    }
                }
            }
        }
    }
}

pub fn run(ctx: &mut Ctx) {
    let sections: [(&str, u64, SeqCfg); 3] = [
        ("seq", ctx.tier.pick(24, 150_000, 2_000_000), SeqCfg::ipc()),
        ("dict", ctx.tier.pick(16, 75_000, 1_000_000), {
            let mut c = SeqCfg::ipc();
            c.dict_focus = true;
            c.zero_col = false;
            c.max_cols = 3;
            c
        }),
        ("flat", ctx.tier.pick(8, 9_000, 120_000), {
            let mut c = SeqCfg::ipc();
            c.flat = true;
            c.max_rows = 1200;
            c.max_batches = 3;
            c.zero_col = false;
            c
        }),
    ];
    if ctx.only_section.as_deref() == Some("probe") {
        super::c04probe::run();
        return;
    }
    // interleave the sections (15 : 7 : 1) so that a deadline cuts all of them alike
    let lists: Vec<Vec<u64>> = sections.iter().map(|(n, t, _)| ctx.cases(n, *t)).collect();
    let quota = [15usize, 7, 1];
    let mut pos = [0usize; 3];
    'outer: loop {
        let mut progressed = false;
        for (si, (name, _, cfg)) in sections.iter().enumerate() {
            for _ in 0..quota[si] {
                if pos[si] >= lists[si].len() {
                    break;
                }
                if ctx.out_of_time() {
                    break 'outer;
                }
                let i = lists[si][pos[si]];
                pos[si] += 1;
                progressed = true;
                let mut rng = ctx.begin(name, i);
                run_case(ctx, &mut rng, cfg, true);
            }
        }
        if !progressed {
            break;
        }
    }
}
