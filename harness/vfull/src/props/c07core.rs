//! C07 core: independent physical value model, sort orders, chunk/page decoding and the
//! statistics / page index / bloom filter oracles. See `c07.rs` for the workload.

#![allow(dead_code)]

use bytes::Bytes;
use num_bigint::BigInt;
use parquet::basic::{BoundaryOrder, ColumnOrder, ConvertedType, LogicalType, Type as PhysicalType};
use parquet::bloom_filter::Sbbf;
use parquet::column::page::{Page, PageReader};
use parquet::column::reader::ColumnReader;
use parquet::data_type::Int96;
use parquet::file::metadata::{ColumnChunkMetaData, PageIndexPolicy, ParquetMetaData, ParquetMetaDataReader};
use parquet::file::page_index::column_index::ColumnIndexMetaData;
use parquet::file::page_index::offset_index::PageLocation;
use parquet::file::properties::ReaderProperties;
use parquet::file::reader::{FileReader, SerializedFileReader};
use parquet::file::serialized_reader::{ReadOptionsBuilder, SerializedPageReader};
use parquet::file::statistics::Statistics;
use parquet::schema::types::ColumnDescriptor;
use std::cmp::Ordering;
use std::sync::Arc;
use vcore::mon::{Ctx, guard, strip_digits};

// ------------------------------------------------------------------------------------------
// physical values and sort orders (independent of parquet's own comparison code)
// ------------------------------------------------------------------------------------------

/// A Parquet physical value (floats by bit pattern).
#[derive(Clone, PartialEq, Eq, Hash)]
pub enum PV {
    Bool(bool),
    I32(i32),
    I64(i64),
    I96([u32; 3]),
    F32(u32),
    F64(u64),
    Bytes(Vec<u8>),
}

impl std::fmt::Debug for PV {
    fn fmt(&self, f: &mut std::fmt::Formatter<'_>) -> std::fmt::Result {
        match self {
            PV::Bool(b) => write!(f, "{b}"),
            PV::I32(v) => write!(f, "{v}i32"),
            PV::I64(v) => write!(f, "{v}i64"),
            PV::I96(v) => write!(f, "i96{v:?}"),
            PV::F32(b) => write!(f, "f32:{:?}/{b:#x}", f32::from_bits(*b)),
            PV::F64(b) => write!(f, "f64:{:?}/{b:#x}", f64::from_bits(*b)),
            PV::Bytes(b) => {
                write!(f, "x'")?;
                for c in b.iter().take(48) {
                    write!(f, "{c:02x}")?;
                }
                if b.len() > 48 {
                    write!(f, "..({})", b.len())?;
                }
                write!(f, "'")?;
                if let Ok(s) = std::str::from_utf8(b) {
                    if !b.is_empty() && b.len() <= 48 && s.chars().all(|c| !c.is_control()) {
                        write!(f, "={s:?}")?;
                    }
                }
                Ok(())
            }
        }
    }
}

pub fn dump_pvs(v: &[PV]) -> String {
    let mut s = String::from("[");
    for (i, x) in v.iter().enumerate() {
        if i > 0 {
            s.push_str(", ");
        }
        if s.len() > 900 {
            s.push_str(&format!("..({} values)", v.len()));
            break;
        }
        s.push_str(&format!("{x:?}"));
    }
    s.push(']');
    s
}

/// The comparison the Parquet format prescribes for a leaf column.
#[derive(Clone, Copy, PartialEq, Eq, Debug)]
pub enum OrdKind {
    Bool,
    Signed,
    Unsigned,
    /// FLOAT / DOUBLE
    Float,
    /// FIXED_LEN_BYTE_ARRAY(2) + Float16
    F16,
    /// DECIMAL on INT32 / INT64 / BYTE_ARRAY / FIXED_LEN_BYTE_ARRAY: signed numeric
    Decimal,
    /// unsigned byte-wise, UTF8 annotated
    LexUtf8,
    /// unsigned byte-wise
    Lex,
    /// INT96 with the INT96 timestamp column order: (day, nanos of day)
    Int96Ts,
    /// no order defined: INTERVAL, INT96 (type defined order), UNKNOWN, VARIANT, GEO ...
    Undefined,
}

impl OrdKind {
    pub fn name(&self) -> &'static str {
        match self {
            OrdKind::Bool => "bool",
            OrdKind::Signed => "signed",
            OrdKind::Unsigned => "unsigned",
            OrdKind::Float => "float",
            OrdKind::F16 => "f16",
            OrdKind::Decimal => "decimal",
            OrdKind::LexUtf8 => "utf8",
            OrdKind::Lex => "bytes",
            OrdKind::Int96Ts => "int96",
            OrdKind::Undefined => "undefined",
        }
    }
    pub fn is_float(&self) -> bool {
        matches!(self, OrdKind::Float | OrdKind::F16)
    }
}

/// Sort order of a leaf per the Parquet format (LogicalTypes.md / parquet.thrift ColumnOrder),
/// written down independently of `ColumnOrder::get_sort_order_for_type`.
pub fn ord_kind(d: &ColumnDescriptor, order: ColumnOrder) -> OrdKind {
    let lt = d.logical_type_ref();
    let ct = d.converted_type();
    let is_decimal = matches!(lt, Some(LogicalType::Decimal { .. })) || ct == ConvertedType::DECIMAL;
    match d.physical_type() {
        PhysicalType::BOOLEAN => OrdKind::Bool,
        PhysicalType::INT32 | PhysicalType::INT64 => {
            if is_decimal {
                return OrdKind::Decimal;
            }
            match lt {
                Some(LogicalType::Integer(i)) => {
                    if i.is_signed {
                        OrdKind::Signed
                    } else {
                        OrdKind::Unsigned
                    }
                }
                Some(LogicalType::Unknown) => OrdKind::Undefined,
                Some(LogicalType::Date) | Some(LogicalType::Time { .. }) | Some(LogicalType::Timestamp { .. }) => OrdKind::Signed,
                Some(_) => OrdKind::Undefined,
                None => match ct {
                    ConvertedType::UINT_8 | ConvertedType::UINT_16 | ConvertedType::UINT_32 | ConvertedType::UINT_64 => OrdKind::Unsigned,
                    ConvertedType::LIST | ConvertedType::MAP | ConvertedType::MAP_KEY_VALUE | ConvertedType::INTERVAL => OrdKind::Undefined,
                    _ => OrdKind::Signed,
                },
            }
        }
        PhysicalType::INT96 => {
            if matches!(order, ColumnOrder::INT96_TIMESTAMP_ORDER) {
                OrdKind::Int96Ts
            } else {
                OrdKind::Undefined
            }
        }
        PhysicalType::FLOAT | PhysicalType::DOUBLE => OrdKind::Float,
        PhysicalType::BYTE_ARRAY | PhysicalType::FIXED_LEN_BYTE_ARRAY => {
            if is_decimal {
                return OrdKind::Decimal;
            }
            if ct == ConvertedType::INTERVAL {
                return OrdKind::Undefined;
            }
            match lt {
                Some(LogicalType::Float16) => OrdKind::F16,
                Some(LogicalType::String) => OrdKind::LexUtf8,
                Some(LogicalType::Enum) | Some(LogicalType::Json) | Some(LogicalType::Bson) | Some(LogicalType::Uuid) => OrdKind::Lex,
                Some(_) => OrdKind::Undefined,
                None => match ct {
                    ConvertedType::UTF8 => OrdKind::LexUtf8,
                    ConvertedType::NONE | ConvertedType::ENUM | ConvertedType::JSON | ConvertedType::BSON => OrdKind::Lex,
                    _ => OrdKind::Undefined,
                },
            }
        }
    }
}

/// Oracle self-test switch (`C07_BREAK=<what>`): perturbs the *expectation*, never arrow-rs.
pub fn brk(what: &str) -> bool {
    static B: std::sync::OnceLock<Option<String>> = std::sync::OnceLock::new();
    B.get_or_init(|| std::env::var("C07_BREAK").ok()).as_deref() == Some(what)
}

pub fn pv_f64(v: &PV) -> Option<f64> {
    match v {
        PV::F32(b) => Some(f32::from_bits(*b) as f64),
        PV::F64(b) => Some(f64::from_bits(*b)),
        PV::Bytes(b) if b.len() == 2 => Some(half::f16::from_le_bytes([b[0], b[1]]).to_f64()),
        _ => None,
    }
}

pub fn pv_is_nan(k: OrdKind, v: &PV) -> bool {
    k.is_float() && pv_f64(v).map(|f| f.is_nan()).unwrap_or(false)
}

/// IEEE 754 totalOrder on the original width.
pub fn pv_total_cmp(a: &PV, b: &PV) -> Option<Ordering> {
    match (a, b) {
        (PV::F32(x), PV::F32(y)) => Some(f32::from_bits(*x).total_cmp(&f32::from_bits(*y))),
        (PV::F64(x), PV::F64(y)) => Some(f64::from_bits(*x).total_cmp(&f64::from_bits(*y))),
        (PV::Bytes(x), PV::Bytes(y)) if x.len() == 2 && y.len() == 2 => {
            Some(half::f16::from_le_bytes([x[0], x[1]]).total_cmp(&half::f16::from_le_bytes([y[0], y[1]])))
        }
        _ => None,
    }
}

fn pv_big(v: &PV) -> Option<BigInt> {
    match v {
        PV::I32(x) => Some(BigInt::from(*x)),
        PV::I64(x) => Some(BigInt::from(*x)),
        PV::Bytes(b) => Some(if b.is_empty() { BigInt::from(0) } else { BigInt::from_signed_bytes_be(b) }),
        _ => None,
    }
}

/// Compare under the column's sort order; `None`: not comparable (NaN, undefined order, type confusion).
/// Floats: numeric, -0 == +0.
pub fn pv_cmp(k: OrdKind, a: &PV, b: &PV) -> Option<Ordering> {
    let k = if k == OrdKind::Unsigned && brk("signed") { OrdKind::Signed } else { k };
    match k {
        OrdKind::Bool => match (a, b) {
            (PV::Bool(x), PV::Bool(y)) => Some(x.cmp(y)),
            _ => None,
        },
        OrdKind::Signed => match (a, b) {
            (PV::I32(x), PV::I32(y)) => Some(x.cmp(y)),
            (PV::I64(x), PV::I64(y)) => Some(x.cmp(y)),
            _ => None,
        },
        OrdKind::Unsigned => match (a, b) {
            (PV::I32(x), PV::I32(y)) => Some((*x as u32).cmp(&(*y as u32))),
            (PV::I64(x), PV::I64(y)) => Some((*x as u64).cmp(&(*y as u64))),
            _ => None,
        },
        OrdKind::Float | OrdKind::F16 => {
            let (x, y) = (pv_f64(a)?, pv_f64(b)?);
            x.partial_cmp(&y)
        }
        OrdKind::Decimal => Some(pv_big(a)?.cmp(&pv_big(b)?)),
        OrdKind::LexUtf8 | OrdKind::Lex => match (a, b) {
            (PV::Bytes(x), PV::Bytes(y)) => Some(x.as_slice().cmp(y.as_slice())),
            _ => None,
        },
        OrdKind::Int96Ts => match (a, b) {
            (PV::I96(x), PV::I96(y)) => {
                let key = |d: &[u32; 3]| (d[2] as i32, ((d[1] as u64) << 32) | d[0] as u64);
                Some(key(x).cmp(&key(y)))
            }
            _ => None,
        },
        OrdKind::Undefined => None,
    }
}

// ------------------------------------------------------------------------------------------
// decoding
// ------------------------------------------------------------------------------------------

/// A column chunk decoded with the low-level column reader.
pub struct Decoded {
    pub values: Vec<PV>,
    /// empty when max_def == 0
    pub def: Vec<i16>,
    /// empty when max_rep == 0
    pub rep: Vec<i16>,
    pub levels: usize,
    pub max_def: i16,
    pub max_rep: i16,
}

impl Decoded {
    pub fn is_value(&self, level: usize) -> bool {
        self.max_def == 0 || self.def[level] == self.max_def
    }
    pub fn rows_in(&self, l0: usize, l1: usize) -> usize {
        if self.max_rep == 0 { l1 - l0 } else { self.rep[l0..l1].iter().filter(|r| **r == 0).count() }
    }
    pub fn nulls_in(&self, l0: usize, l1: usize) -> usize {
        if self.max_def == 0 { 0 } else { self.def[l0..l1].iter().filter(|d| **d < self.max_def).count() }
    }
}

pub fn open_reader(bytes: &Bytes) -> Result<SerializedFileReader<Bytes>, String> {
    let props = ReaderProperties::builder().set_read_page_statistics(true).set_read_bloom_filter(false).build();
    let opts = ReadOptionsBuilder::new().with_reader_properties(props).build();
    SerializedFileReader::new_with_options(bytes.clone(), opts).map_err(|e| e.to_string())
}

/// Hides data pages without any level entry from the column reader (which takes such a page for
/// the end of the chunk); the content-defined-chunking writer emits them.
struct SkipEmptyPages(Box<dyn PageReader>);

impl Iterator for SkipEmptyPages {
    type Item = parquet::errors::Result<Page>;
    fn next(&mut self) -> Option<Self::Item> {
        self.get_next_page().transpose()
    }
}

impl PageReader for SkipEmptyPages {
    fn get_next_page(&mut self) -> parquet::errors::Result<Option<Page>> {
        loop {
            match self.0.get_next_page()? {
                Some(Page::DataPage { num_values: 0, .. }) | Some(Page::DataPageV2 { num_values: 0, .. }) => continue,
                other => return Ok(other),
            }
        }
    }
    fn peek_next_page(&mut self) -> parquet::errors::Result<Option<parquet::column::page::PageMetadata>> {
        loop {
            match self.0.peek_next_page()? {
                Some(m) if !m.is_dict && m.num_levels == Some(0) => self.0.skip_next_page()?,
                other => return Ok(other),
            }
        }
    }
    fn skip_next_page(&mut self) -> parquet::errors::Result<()> {
        self.peek_next_page()?;
        self.0.skip_next_page()
    }
}

pub fn decode_chunk(fr: &SerializedFileReader<Bytes>, rg: usize, col: usize) -> Result<Decoded, String> {
    let rgr = fr.get_row_group(rg).map_err(|e| format!("get_row_group: {e}"))?;
    let d = fr.metadata().file_metadata().schema_descr().column(col);
    let (max_def, max_rep) = (d.max_def_level(), d.max_rep_level());
    let pr = rgr.get_column_page_reader(col).map_err(|e| format!("get_column_page_reader: {e}"))?;
    let cr = parquet::column::reader::get_column_reader(d.clone(), Box::new(SkipEmptyPages(pr)));
    let mut def: Vec<i16> = Vec::new();
    let mut rep: Vec<i16> = Vec::new();
    macro_rules! go {
        ($r:ident, $f:expr) => {{
            let mut r = $r;
            let mut vals = Vec::new();
            loop {
                let (recs, nv, lv) = r
                    .read_records(
                        1 << 20,
                        if max_def > 0 { Some(&mut def) } else { None },
                        if max_rep > 0 { Some(&mut rep) } else { None },
                        &mut vals,
                    )
                    .map_err(|e| format!("read_records: {e}"))?;
                if recs == 0 && nv == 0 && lv == 0 {
                    break;
                }
            }
            vals.into_iter().map($f).collect::<Vec<PV>>()
        }};
    }
    let values: Vec<PV> = match cr {
        ColumnReader::BoolColumnReader(r) => go!(r, PV::Bool),
        ColumnReader::Int32ColumnReader(r) => go!(r, PV::I32),
        ColumnReader::Int64ColumnReader(r) => go!(r, PV::I64),
        ColumnReader::Int96ColumnReader(r) => go!(r, |v: Int96| {
            let d = v.data();
            PV::I96([d[0], d[1], d[2]])
        }),
        ColumnReader::FloatColumnReader(r) => go!(r, |v: f32| PV::F32(v.to_bits())),
        ColumnReader::DoubleColumnReader(r) => go!(r, |v: f64| PV::F64(v.to_bits())),
        ColumnReader::ByteArrayColumnReader(r) => go!(r, |v: parquet::data_type::ByteArray| PV::Bytes(v.data().to_vec())),
        ColumnReader::FixedLenByteArrayColumnReader(r) => {
            go!(r, |v: parquet::data_type::FixedLenByteArray| PV::Bytes(v.data().to_vec()))
        }
    };
    let levels = if max_def > 0 { def.len() } else { values.len() };
    if max_rep > 0 && rep.len() != levels {
        return Err(format!("model: {} repetition levels but {} definition levels", rep.len(), levels));
    }
    Ok(Decoded { values, def, rep, levels, max_def, max_rep })
}

/// One data page as delivered by a page reader.
pub struct PageInfo {
    pub levels: usize,
    /// (num_rows, num_nulls) of a v2 header
    pub v2: Option<(u32, u32)>,
    pub stats: Option<Statistics>,
    pub buf_len: usize,
    pub buf_hash: u64,
}

fn fnv(b: &[u8]) -> u64 {
    let mut h = 0xcbf29ce484222325u64;
    for x in b {
        h ^= *x as u64;
        h = h.wrapping_mul(0x100000001b3);
    }
    h
}

fn drain_pages(mut pr: Box<dyn PageReader>) -> Result<(Vec<PageInfo>, usize), String> {
    let mut out = Vec::new();
    let mut dict_pages = 0usize;
    while let Some(p) = pr.get_next_page().map_err(|e| e.to_string())? {
        match p {
            Page::DataPage { buf, num_values, statistics, .. } => {
                out.push(PageInfo { levels: num_values as usize, v2: None, stats: statistics, buf_len: buf.len(), buf_hash: fnv(&buf) })
            }
            Page::DataPageV2 { buf, num_values, num_nulls, num_rows, statistics, .. } => out.push(PageInfo {
                levels: num_values as usize,
                v2: Some((num_rows, num_nulls)),
                stats: statistics,
                buf_len: buf.len(),
                buf_hash: fnv(&buf),
            }),
            Page::DictionaryPage { .. } => dict_pages += 1,
        }
    }
    Ok((out, dict_pages))
}

/// Pages of a chunk read sequentially from the chunk's byte range (no offset index involved).
pub fn pages_sequential(fr: &SerializedFileReader<Bytes>, rg: usize, col: usize) -> Result<(Vec<PageInfo>, usize), String> {
    let rgr = fr.get_row_group(rg).map_err(|e| e.to_string())?;
    let pr = rgr.get_column_page_reader(col).map_err(|e| e.to_string())?;
    drain_pages(pr)
}

/// Pages of a chunk fetched at the offset index' page locations.
pub fn pages_located(bytes: &Bytes, meta: &ColumnChunkMetaData, rows: usize, locs: Vec<PageLocation>) -> Result<(Vec<PageInfo>, usize), String> {
    let props = Arc::new(ReaderProperties::builder().set_read_page_statistics(true).build());
    let pr = SerializedPageReader::new_with_properties(Arc::new(bytes.clone()), meta, rows, Some(locs), props).map_err(|e| e.to_string())?;
    drain_pages(Box::new(pr))
}

pub fn read_metadata(bytes: &Bytes) -> Result<ParquetMetaData, String> {
    ParquetMetaDataReader::new()
        .with_page_index_policy(PageIndexPolicy::Optional)
        .parse_and_finish(bytes)
        .map_err(|e| e.to_string())
}

// ------------------------------------------------------------------------------------------
// statistics as PV
// ------------------------------------------------------------------------------------------

#[derive(Clone, Debug, Default)]
pub struct Bounds {
    pub min: Option<PV>,
    pub max: Option<PV>,
    pub min_exact: bool,
    pub max_exact: bool,
    pub null_count: Option<u64>,
    pub nan_count: Option<u64>,
}

pub fn bounds_of(st: &Statistics) -> Bounds {
    let (min, max) = match st {
        Statistics::Boolean(v) => (v.min_opt().map(|x| PV::Bool(*x)), v.max_opt().map(|x| PV::Bool(*x))),
        Statistics::Int32(v) => (v.min_opt().map(|x| PV::I32(*x)), v.max_opt().map(|x| PV::I32(*x))),
        Statistics::Int64(v) => (v.min_opt().map(|x| PV::I64(*x)), v.max_opt().map(|x| PV::I64(*x))),
        Statistics::Int96(v) => {
            let f = |x: &Int96| {
                let d = x.data();
                PV::I96([d[0], d[1], d[2]])
            };
            (v.min_opt().map(f), v.max_opt().map(f))
        }
        Statistics::Float(v) => (v.min_opt().map(|x| PV::F32(x.to_bits())), v.max_opt().map(|x| PV::F32(x.to_bits()))),
        Statistics::Double(v) => (v.min_opt().map(|x| PV::F64(x.to_bits())), v.max_opt().map(|x| PV::F64(x.to_bits()))),
        Statistics::ByteArray(v) => (v.min_bytes_opt().map(|b| PV::Bytes(b.to_vec())), v.max_bytes_opt().map(|b| PV::Bytes(b.to_vec()))),
        Statistics::FixedLenByteArray(v) => (v.min_bytes_opt().map(|b| PV::Bytes(b.to_vec())), v.max_bytes_opt().map(|b| PV::Bytes(b.to_vec()))),
    };
    Bounds {
        min,
        max,
        min_exact: st.min_is_exact(),
        max_exact: st.max_is_exact(),
        null_count: st.null_count_opt(),
        nan_count: st.nan_count_opt(),
    }
}

/// Page `i` of a column index: (null page flag, min, max).
pub fn colidx_page(ci: &ColumnIndexMetaData, i: usize) -> (bool, Option<PV>, Option<PV>) {
    macro_rules! prim {
        ($ix:ident, $f:expr) => {
            ($ix.is_null_page(i), $ix.min_value(i).map($f), $ix.max_value(i).map($f))
        };
    }
    match ci {
        ColumnIndexMetaData::BOOLEAN(ix) => prim!(ix, |v: &bool| PV::Bool(*v)),
        ColumnIndexMetaData::INT32(ix) => prim!(ix, |v: &i32| PV::I32(*v)),
        ColumnIndexMetaData::INT64(ix) => prim!(ix, |v: &i64| PV::I64(*v)),
        ColumnIndexMetaData::INT96(ix) => prim!(ix, |v: &Int96| {
            let d = v.data();
            PV::I96([d[0], d[1], d[2]])
        }),
        ColumnIndexMetaData::FLOAT(ix) => prim!(ix, |v: &f32| PV::F32(v.to_bits())),
        ColumnIndexMetaData::DOUBLE(ix) => prim!(ix, |v: &f64| PV::F64(v.to_bits())),
        ColumnIndexMetaData::BYTE_ARRAY(ix) | ColumnIndexMetaData::FIXED_LEN_BYTE_ARRAY(ix) => {
            (ix.is_null_page(i), ix.min_value(i).map(|b| PV::Bytes(b.to_vec())), ix.max_value(i).map(|b| PV::Bytes(b.to_vec())))
        }
    }
}

pub fn bloom_check(f: &Sbbf, v: &PV) -> bool {
    if brk("bloom") {
        // self-test: probe a value that was (most likely) not written
        return match v {
            PV::I32(x) => f.check(&(x ^ 0x5a5a_5a5a)),
            PV::I64(x) => f.check(&(x ^ 0x5a5a_5a5a_5a5a)),
            PV::Bytes(b) => {
                let mut b = b.clone();
                b.push(0x5a);
                f.check(&b[..])
            }
            _ => true,
        };
    }
    match v {
        PV::Bool(b) => f.check(b),
        PV::I32(x) => f.check(x),
        PV::I64(x) => f.check(x),
        // same little-endian bytes as the f32/f64 the writer hashed, without moving a (possibly
        // signalling) NaN through a float register
        PV::F32(b) => f.check(b),
        PV::F64(b) => f.check(b),
        PV::Bytes(b) => f.check(&b[..]),
        PV::I96(d) => f.check(&Int96::from(d.to_vec())),
    }
}

// ------------------------------------------------------------------------------------------
// oracles
// ------------------------------------------------------------------------------------------

/// What is fixed for one leaf column of one file.
pub struct Leaf {
    pub idx: usize,
    pub kind: OrdKind,
    /// the footer declares IEEE_754_TOTAL_ORDER for this column
    pub total: bool,
    /// "<kind>|<flat|nested>"
    pub sigc: String,
    /// path / physical / logical for witnesses
    pub name: String,
}

pub fn make_leaf(md: &ParquetMetaData, idx: usize) -> Leaf {
    let d = md.file_metadata().schema_descr().column(idx);
    let order = md.file_metadata().column_order(idx);
    let kind = ord_kind(&d, order);
    Leaf {
        idx,
        kind,
        total: matches!(order, ColumnOrder::IEEE_754_TOTAL_ORDER),
        sigc: format!("{}:{:?}|{}", kind.name(), d.physical_type(), if d.max_rep_level() > 0 { "nested" } else { "flat" }),
        name: format!(
            "leaf {idx} {:?} {:?} logical={:?} converted={:?} len={} max_def={} max_rep={} column_order={:?}",
            d.path().string(),
            d.physical_type(),
            d.logical_type_ref(),
            d.converted_type(),
            d.type_length(),
            d.max_def_level(),
            d.max_rep_level(),
            order
        ),
    }
}

/// Violation sink: prefixes the signature, appends the file description to the witness.
pub struct Rep<'a> {
    pub ctx: &'a mut Ctx,
    pub base: String,
    pub fired: u32,
    /// oracle self-test: perturbation requested through `C07_BREAK`
    pub brk: Option<String>,
}

impl Rep<'_> {
    pub fn v(&mut self, lf: &Leaf, level: &str, what: &str, detail: String) {
        self.fired += 1;
        let sig = format!("C07|{level}|{what}|{}", lf.sigc);
        let base = &self.base;
        self.ctx.violation(&sig, format!("{detail}\n{}\n{base}", lf.name));
    }
    pub fn raw(&mut self, sig: &str, detail: String) {
        self.fired += 1;
        let base = &self.base;
        self.ctx.violation(sig, format!("{detail}\n{base}"));
    }
    pub fn breaks(&self, what: &str) -> bool {
        self.brk.as_deref() == Some(what)
    }
}

fn pv_eq(k: OrdKind, a: &PV, b: &PV) -> bool {
    a == b || pv_cmp(k, a, b) == Some(Ordering::Equal)
}

/// `min <= v <= max` for every non-NaN value, exact => attained.
pub fn check_minmax(rep: &mut Rep, lf: &Leaf, level: &str, at: &str, vals: &[PV], b: &Bounds) {
    let k = lf.kind;
    if k == OrdKind::Undefined {
        // not asserted: min/max on a column whose order the format leaves undefined
        if b.min.is_some() || b.max.is_some() {
            rep.ctx.count("minmax_present_on_undefined_order", 1);
        }
        return;
    }
    for (side, bound, exact) in [("min", &b.min, b.min_exact), ("max", &b.max, b.max_exact)] {
        let Some(bound) = bound else { continue };
        rep.ctx.count("bounds_checked", 1);
        let want_not = if side == "min" { Ordering::Less } else { Ordering::Greater };
        if pv_is_nan(k, bound) {
            // a NaN bound says "only NaNs here" (total order) / must be ignored (legacy)
            if let Some(v) = vals.iter().find(|v| !pv_is_nan(k, v)) {
                rep.v(
                    lf,
                    level,
                    &format!("{side}-is-nan"),
                    format!("{at}: {side} = {bound:?} is NaN but the covered values contain the non-NaN {v:?}\nvalues {}", dump_pvs(vals)),
                );
            }
        } else {
            let mut typed = true;
            for v in vals.iter().filter(|v| !pv_is_nan(k, v)) {
                match pv_cmp(k, v, bound) {
                    None => {
                        typed = false;
                        break;
                    }
                    Some(o) if o == want_not => {
                        rep.v(
                            lf,
                            level,
                            // a bound flagged exact was not truncated: a different defect class
                            &format!("{side}-bound{}", if exact { "-exact" } else { "" }),
                            format!("{at}: value {v:?} is {} the {side} {bound:?} (order {})\nvalues {}", if side == "min" { "below" } else { "above" }, k.name(), dump_pvs(vals)),
                        );
                        break;
                    }
                    Some(Ordering::Equal) if lf.total && pv_total_cmp(v, bound) == Some(want_not) => {
                        rep.v(
                            lf,
                            level,
                            &format!("{side}-bound-total-order"),
                            format!("{at}: column order is IEEE_754_TOTAL_ORDER and value {v:?} is {} the {side} {bound:?} in that order\nvalues {}", if side == "min" { "below" } else { "above" }, dump_pvs(vals)),
                        );
                        break;
                    }
                    _ => {}
                }
            }
            if !typed {
                rep.v(lf, level, &format!("{side}-type"), format!("{at}: {side} {bound:?} is not comparable with the column's values (order {})\nvalues {}", k.name(), dump_pvs(vals)));
                continue;
            }
        }
        if exact {
            rep.ctx.count("exact_flags_checked", 1);
            if !vals.iter().any(|v| pv_eq(k, v, bound)) {
                rep.v(
                    lf,
                    level,
                    &format!("{side}-exact-not-attained"),
                    format!("{at}: {side} {bound:?} is flagged exact but no covered value equals it\nvalues {}", dump_pvs(vals)),
                );
            }
        }
    }
}

pub fn check_counts(rep: &mut Rep, lf: &Leaf, level: &str, at: &str, vals: &[PV], nulls: usize, b_null: Option<u64>, b_nan: Option<u64>) {
    if let Some(n) = b_null {
        rep.ctx.count("null_counts_checked", 1);
        if n != nulls as u64 {
            rep.v(lf, level, "null-count", format!("{at}: null_count = {n} but {nulls} of the covered level entries are null ({} values)", vals.len()));
        }
    }
    if let Some(n) = b_nan {
        rep.ctx.count("nan_counts_checked", 1);
        let nans = vals.iter().filter(|v| pv_is_nan(lf.kind, v)).count() as u64;
        if n != nans && lf.kind.is_float() {
            rep.v(lf, level, "nan-count", format!("{at}: nan_count = {n} but {nans} covered values are NaN\nvalues {}", dump_pvs(vals)));
        }
    }
}

/// Per page facts derived from the decoded chunk and the page headers.
pub struct PageSpan {
    pub l0: usize,
    pub l1: usize,
    pub v0: usize,
    pub v1: usize,
    pub rows: usize,
    pub nulls: usize,
    pub first_row: usize,
}

pub fn page_spans(d: &Decoded, pages: &[PageInfo]) -> Result<Vec<PageSpan>, String> {
    let total: usize = pages.iter().map(|p| p.levels).sum();
    if total != d.levels {
        return Err(format!("model: page headers carry {total} level entries, the column reader decoded {}", d.levels));
    }
    let mut out = Vec::with_capacity(pages.len());
    let (mut l, mut v, mut r) = (0usize, 0usize, 0usize);
    for p in pages {
        let l1 = l + p.levels;
        if d.max_rep > 0 && p.levels > 0 && d.rep[l] != 0 {
            return Err(format!("page-not-at-record-boundary at level {l}"));
        }
        let nulls = d.nulls_in(l, l1);
        let nv = p.levels - nulls;
        let rows = d.rows_in(l, l1);
        out.push(PageSpan { l0: l, l1, v0: v, v1: v + nv, rows, nulls, first_row: r });
        l = l1;
        v += nv;
        r += rows;
    }
    if v != d.values.len() {
        return Err(format!("model: {} values decoded, levels say {v}", d.values.len()));
    }
    Ok(out)
}

fn boundary_cmp(lf: &Leaf, a: &PV, b: &PV) -> Option<Ordering> {
    if lf.kind.is_float() && lf.total { pv_total_cmp(a, b) } else { pv_cmp(lf.kind, a, b) }
}

/// What the caller handed to the writer for one chunk: which level entries are values, and
/// (if modelled) the physical values.
pub struct Expected {
    pub is_value: Vec<bool>,
    pub values: Option<Vec<PV>>,
    pub what: String,
}

/// All physical-level checks of one column chunk. Returns the decoded chunk and page spans (if
/// the chunk could be decoded) for the model-level checks of the caller.
pub fn check_chunk(
    rep: &mut Rep,
    lf: &Leaf,
    bytes: &Bytes,
    fr: &SerializedFileReader<Bytes>,
    md: &ParquetMetaData,
    rg: usize,
    expected: Option<&Expected>,
) -> Option<(Decoded, Vec<PageSpan>)> {
    let col = lf.idx;
    let rgm = md.row_group(rg);
    let cm = rgm.column(col);
    let at = format!("row group {rg}");
    if cm.column_descr().physical_type() == PhysicalType::FIXED_LEN_BYTE_ARRAY && cm.column_descr().type_length() == 0 {
        // the low-level plain decoder asserts `type_length > 0` (FixedSizeBinary(0), a known
        // round-trip corner): such chunks cannot be decoded independently, so they are skipped
        rep.ctx.reject();
        rep.ctx.count("skipped:zero-width-fixed-len-byte-array", 1);
        return None;
    }
    let d = match guard(|| decode_chunk(fr, rg, col)) {
        Ok(Ok(d)) => d,
        Ok(Err(e)) => {
            rep.ctx.inconclusive(&format!("decode_chunk: {e}"));
            return None;
        }
        Err(p) => {
            rep.ctx.inconclusive(&format!("decode_chunk panicked: {} @ {}", p.msg, p.loc));
            return None;
        }
    };
    let (pages, _dict) = match guard(|| pages_sequential(fr, rg, col)) {
        Ok(Ok(p)) => p,
        Ok(Err(e)) => {
            rep.ctx.inconclusive(&format!("pages_sequential: {e}"));
            return None;
        }
        Err(p) => {
            rep.ctx.inconclusive(&format!("pages_sequential panicked: {} @ {}", p.msg, p.loc));
            return None;
        }
    };
    let spans = match page_spans(&d, &pages) {
        Ok(s) => s,
        Err(e) if e.starts_with("model:") => {

            rep.ctx.inconclusive(&e);
            return None;
        }
        Err(e) => {
            rep.v(lf, "page", "not-at-record-boundary", format!("{at}: {e}"));
            return None;
        }
    };
    rep.ctx.count("empty_data_pages_seen", pages.iter().filter(|p| p.levels == 0).count() as u64);
    if let Some(e) = expected {
        let same_shape = e.is_value.len() == d.levels && e.is_value.iter().enumerate().all(|(i, s)| *s == d.is_value(i));
        if !same_shape {
            rep.ctx.inconclusive(&format!("model: level structure of {at} ({} entries written) differs from the decoded one ({} entries) for {}", e.is_value.len(), d.levels, e.what));
            return None;
        }
        match &e.values {
            Some(v) if v != &d.values => {
                // the Arrow round trip succeeded but the stored physical values are not the ones the
                // format prescribes for the written values (known: dictionary<fixed size binary>):
                // statistics of such a chunk are outside this property
                rep.ctx.reject();
                rep.ctx.count(&format!("skipped:stored-physical-values-differ-from-written:{}", e.what), 1);
                return None;
            }
            Some(_) => rep.ctx.count("chunks_matching_written_values", 1),
            None => rep.ctx.count("chunks_without_physical_model", 1),
        }
    }
    rep.ctx.count("chunks_checked", 1);
    rep.ctx.count("pages_checked", pages.len() as u64);
    rep.ctx.count("values_decoded", d.values.len() as u64);
    let rows = d.rows_in(0, d.levels);
    let nulls = d.nulls_in(0, d.levels);

    // ---- chunk level
    if rows as i64 != rgm.num_rows() {
        rep.v(lf, "chunk", "row-count", format!("{at}: row group num_rows = {} but the chunk holds {rows} rows", rgm.num_rows()));
    }
    if cm.num_values() != d.levels as i64 {
        rep.v(lf, "chunk", "num-values", format!("{at}: num_values = {} but the chunk holds {} level entries", cm.num_values(), d.levels));
    }
    if let Some(st) = cm.statistics() {
        rep.ctx.count("chunk_statistics_seen", 1);
        let mut b = bounds_of(st);
        if rep.breaks("chunk-null") {
            b.null_count = b.null_count.map(|n| n + 1);
        }
        if !b.min_exact && b.min.is_some() || !b.max_exact && b.max.is_some() {
            rep.ctx.count("chunk_bounds_inexact", 1);
        }
        check_minmax(rep, lf, "chunk", &at, &d.values, &b);
        check_counts(rep, lf, "chunk", &at, &d.values, nulls, b.null_count, b.nan_count);
    }

    // ---- page headers
    for (i, (p, s)) in pages.iter().zip(&spans).enumerate() {
        let atp = format!("{at} page {i} (rows {}..{})", s.first_row, s.first_row + s.rows);
        if let Some((r, n)) = p.v2 {
            if r as usize != s.rows {
                rep.v(lf, "page-header", "num-rows", format!("{atp}: v2 header num_rows = {r}, page holds {} rows", s.rows));
            }
            if n as usize != s.nulls {
                rep.v(lf, "page-header", "num-nulls", format!("{atp}: v2 header num_nulls = {n}, page holds {} nulls", s.nulls));
            }
        }
        if let Some(st) = &p.stats {
            rep.ctx.count("page_header_statistics_seen", 1);
            let b = bounds_of(st);
            let vals = &d.values[s.v0..s.v1];
            check_minmax(rep, lf, "page-header", &atp, vals, &b);
            check_counts(rep, lf, "page-header", &atp, vals, s.nulls, b.null_count, b.nan_count);
        }
    }

    // ---- offset index
    let pi = md.page_index();
    let oi = pi.and_then(|p| p.offset_index(rg, col));
    if let Some(oi) = oi {
        rep.ctx.count("offset_indexes_seen", 1);
        let locs = oi.page_locations();
        if locs.len() != pages.len() {
            rep.v(lf, "offset-index", "page-count", format!("{at}: offset index lists {} pages, the chunk has {} data pages", locs.len(), pages.len()));
        } else {
            for (i, (l, s)) in locs.iter().zip(&spans).enumerate() {
                let want = if rep.breaks("first-row") && i > 0 { s.first_row + 1 } else { s.first_row };
                if l.first_row_index != want as i64 {
                    rep.v(
                        lf,
                        "offset-index",
                        "first-row",
                        format!("{at} page {i}: first_row_index = {} but the preceding pages hold {} rows (page rows {:?})", l.first_row_index, s.first_row, spans.iter().map(|s| s.rows).collect::<Vec<_>>()),
                    );
                    break;
                }
            }
            // byte tiling
            let (start, len) = cm.byte_range();
            let mut ok = locs.first().map(|l| l.offset == cm.data_page_offset()).unwrap_or(true);
            for w in locs.windows(2) {
                ok &= w[0].offset + w[0].compressed_page_size as i64 == w[1].offset;
            }
            if let Some(l) = locs.last() {
                ok &= (l.offset + l.compressed_page_size as i64) as u64 == start + len;
            }
            if !ok {
                rep.v(
                    lf,
                    "offset-index",
                    "byte-tiling",
                    format!("{at}: page locations {:?} do not tile the chunk's data pages (chunk bytes {start}+{len}, data_page_offset {}, dictionary_page_offset {:?})", locs.iter().map(|l| (l.offset, l.compressed_page_size)).collect::<Vec<_>>(), cm.data_page_offset(), cm.dictionary_page_offset()),
                );
            }
            // the pages found at the locations are the pages of the chunk
            match guard(|| pages_located(bytes, cm, rows, locs.clone())) {
                Ok(Ok((lp, _))) => {
                    let same = lp.len() == pages.len()
                        && lp.iter().zip(&pages).all(|(a, b)| a.levels == b.levels && a.buf_len == b.buf_len && a.buf_hash == b.buf_hash);
                    if !same {
                        rep.v(lf, "offset-index", "located-pages-differ", format!("{at}: reading the pages at the offset index locations yields {} pages with level counts {:?}; sequential read: {:?}", lp.len(), lp.iter().map(|p| p.levels).collect::<Vec<_>>(), pages.iter().map(|p| p.levels).collect::<Vec<_>>()));
                    }
                }
                Ok(Err(e)) => rep.v(lf, "offset-index", "located-read-err", format!("{at}: reading the pages at the offset index locations failed: {e}")),
                Err(p) => rep.v(lf, "offset-index", "located-read-panic", format!("{at}: reading the pages at the offset index locations panicked: {} @ {}", strip_digits(&p.msg), p.loc)),
            }
        }
    }

    // ---- column index
    if let Some(ci) = pi.and_then(|p| p.column_index(rg, col)) {
        rep.ctx.count("column_indexes_seen", 1);
        let n = ci.num_pages() as usize;
        if n != pages.len() {
            rep.v(lf, "column-index", "page-count", format!("{at}: column index lists {n} pages, the chunk has {} data pages", pages.len()));
        } else {
            let mut entries: Vec<(bool, Option<PV>, Option<PV>)> = Vec::with_capacity(n);
            for (i, s) in spans.iter().enumerate() {
                let atp = format!("{at} page {i} (rows {}..{})", s.first_row, s.first_row + s.rows);
                let (null_page, mut min, max) = colidx_page(ci, i);
                if rep.breaks("page-min") && i == 0 {
                    // self-test: pretend the page minimum is the page maximum
                    min = max.clone();
                }
                let vals = &d.values[s.v0..s.v1];
                if null_page {
                    rep.ctx.count("null_pages_seen", 1);
                    if !vals.is_empty() {
                        // the value order plays no role here: one signature per nestedness
                        let lf = &Leaf { idx: lf.idx, kind: lf.kind, total: lf.total, sigc: lf.sigc.split('|').nth(1).unwrap_or("").to_string(), name: lf.name.clone() };
                        rep.v(
                            lf,
                            "column-index",
                            "null-page-has-values",
                            format!("{atp}: null_pages[{i}] = true but the page holds {} non-null values {} ({} rows, {} null level entries)", vals.len(), dump_pvs(vals), s.rows, s.nulls),
                        );
                    }
                } else {
                    let b = Bounds { min: min.clone(), max: max.clone(), ..Default::default() };
                    check_minmax(rep, lf, "column-index", &atp, vals, &b);
                }
                check_counts(rep, lf, "column-index", &atp, vals, s.nulls, ci.null_count(i).map(|x| x as u64), ci.nan_count(i).map(|x| x as u64));
                if ci.null_count(i).map(|x| x < 0).unwrap_or(false) {
                    rep.v(lf, "column-index", "null-count", format!("{atp}: negative null count {:?}", ci.null_count(i)));
                }
                entries.push((null_page, min, max));
            }
            // declared boundary order holds for the stored bounds of the non-null pages
            let order = ci.get_boundary_order().unwrap_or(BoundaryOrder::UNORDERED);
            if order != BoundaryOrder::UNORDERED && lf.kind != OrdKind::Undefined {
                rep.ctx.count(if order == BoundaryOrder::ASCENDING { "boundary_ascending_seen" } else { "boundary_descending_seen" }, 1);
                let nn: Vec<(usize, &PV, &PV)> = entries
                    .iter()
                    .enumerate()
                    .filter_map(|(i, e)| match e {
                        (false, Some(a), Some(b)) => Some((i, a, b)),
                        _ => None,
                    })
                    .collect();
                if nn.len() > 1 {
                    rep.ctx.count("boundary_orders_checked_multi_page", 1);
                }
                let bad = if order == BoundaryOrder::ASCENDING { Ordering::Greater } else { Ordering::Less };
                for w in nn.windows(2) {
                    let (i, amin, amax) = w[0];
                    let (j, bmin, bmax) = w[1];
                    let cmin = boundary_cmp(lf, amin, bmin);
                    let cmax = boundary_cmp(lf, amax, bmax);
                    if cmin == Some(bad) || cmax == Some(bad) {
                        rep.v(
                            lf,
                            "column-index",
                            &format!("boundary-order-{}", if order == BoundaryOrder::ASCENDING { "asc" } else { "desc" }),
                            format!(
                                "{at}: boundary_order = {order:?} but the stored bounds are not: page {i} min {amin:?} max {amax:?}; page {j} min {bmin:?} max {bmax:?}\nall pages (null, min, max): {:?}",
                                entries.iter().take(24).collect::<Vec<_>>()
                            ),
                        );
                        break;
                    }
                }
            } else if order == BoundaryOrder::UNORDERED {
                rep.ctx.count("boundary_unordered_seen", 1);
            }
        }
    }

    // ---- bloom filter
    match guard(|| Sbbf::read_from_column_chunk(cm, bytes)) {
        Ok(Ok(Some(f))) => {
            rep.ctx.count("bloom_filters_seen", 1);
            rep.ctx.count("bloom_probes", d.values.len() as u64);
            if let Some(v) = d.values.iter().find(|v| !bloom_check(&f, v)) {
                rep.v(lf, "bloom", "false-negative", format!("{at}: the chunk's bloom filter ({} blocks) answers 'absent' for the stored value {v:?}\nvalues {}", f.num_blocks(), dump_pvs(&d.values)));
            }
        }
        Ok(Ok(None)) => {}
        Ok(Err(e)) => rep.v(lf, "bloom", "read-err", format!("{at}: the bloom filter the writer produced cannot be read: {e}")),
        Err(p) => rep.v(lf, "bloom", "read-panic", format!("{at}: reading the bloom filter panicked: {} @ {}", p.msg, p.loc)),
    }
    Some((d, spans))
}
