//! Minimal hand-written reproducers for the C04 findings (`vrun C04 --section probe`).
//! Evidence helper only: prints what the real code does, asserts nothing.

use std::sync::Arc;

use arrow_array::builder::UnionBuilder;
use arrow_array::types::{Int32Type, Float64Type};
use arrow_array::*;
use arrow_buffer::{Buffer, OffsetBuffer, ScalarBuffer};
use arrow_ipc::MetadataVersion;
use arrow_ipc::reader::{StreamDecoder, StreamReader};
use arrow_ipc::writer::{IpcWriteOptions, StreamWriter};
use arrow_schema::{DataType, Field, Schema, UnionFields, UnionMode};
use vcore::extract::extract;
use vcore::mon::guard;

fn roundtrip(name: &str, batch: &RecordBatch, opts: IpcWriteOptions) {
    let r = guard(|| -> Result<String, String> {
        let mut w = StreamWriter::try_new_with_options(Vec::new(), &batch.schema(), opts).map_err(|e| format!("open: {e}"))?;
        w.write(batch).map_err(|e| format!("write: {e}"))?;
        w.finish().map_err(|e| format!("finish: {e}"))?;
        let bytes = w.into_inner().map_err(|e| format!("into_inner: {e}"))?;
        let r = StreamReader::try_new(&bytes[..], None).map_err(|e| format!("reader open: {e}"))?;
        let mut out = String::new();
        for b in r {
            let b = b.map_err(|e| format!("READ ERROR: {e}"))?;
            for (i, c) in b.columns().iter().enumerate() {
                let want = extract(batch.column(i).as_ref());
                let got = extract(c.as_ref());
                out.push_str(&format!("col {i}: wrote {want:?} read {got:?} {}\n", if want == got { "ok" } else { "MISMATCH" }));
            }
        }
        Ok(out)
    });
    match r {
        Ok(Ok(s)) => eprintln!("[{name}] {s}"),
        Ok(Err(e)) => eprintln!("[{name}] {e}"),
        Err(p) => eprintln!("[{name}] PANIC {} @ {}", p.msg, p.loc),
    }
}

fn v5() -> IpcWriteOptions {
    IpcWriteOptions::default()
}

fn dense_union() -> UnionArray {
    let mut b = UnionBuilder::new_dense();
    b.append::<Int32Type>("a", 1).unwrap();
    b.append::<Float64Type>("b", 2.5).unwrap();
    b.append::<Int32Type>("a", 3).unwrap();
    b.append::<Int32Type>("a", 4).unwrap();
    b.build().unwrap()
}

fn sparse_union() -> UnionArray {
    let mut b = UnionBuilder::new_sparse();
    b.append::<Int32Type>("a", 1).unwrap();
    b.append::<Float64Type>("b", 2.5).unwrap();
    b.append::<Int32Type>("a", 3).unwrap();
    b.append::<Int32Type>("a", 4).unwrap();
    b.build().unwrap()
}

fn batch1(name: &str, a: ArrayRef) -> RecordBatch {
    let s = Arc::new(Schema::new(vec![Field::new(name, a.data_type().clone(), true)]));
    RecordBatch::try_new(s, vec![a]).unwrap()
}

pub fn run() {
    // P1: run-end encoded column under metadata version V4
    let ree = RunArray::<Int32Type>::try_new(&Int32Array::from(vec![2, 3]), &Int32Array::from(vec![10, 20])).unwrap();
    for (n, legacy) in [("P1 REE V4", false), ("P1 REE V4-legacy", true)] {
        roundtrip(n, &batch1("r", Arc::new(ree.clone())), IpcWriteOptions::try_new(64, legacy, MetadataVersion::V4).unwrap());
    }
    roundtrip("P1 REE V5 (control)", &batch1("r", Arc::new(ree.clone())), v5());

    // P2: run-end encoded array sliced to zero rows / built empty
    roundtrip("P2 REE slice(1,0)", &batch1("r", Arc::new(ree.slice(1, 0))), v5());
    roundtrip("P2 REE slice(0,0)", &batch1("r", Arc::new(ree.slice(0, 0))), v5());
    let empty = RunArray::<Int32Type>::try_new(&Int32Array::from(Vec::<i32>::new()), &Int32Array::from(Vec::<i32>::new())).unwrap();
    roundtrip("P2 REE empty", &batch1("r", Arc::new(empty)), v5());

    // P3: union below a list whose offsets do not start at 0
    for (n, u) in [("P3 List<dense union>.slice(1,2)", dense_union()), ("P3 List<sparse union>.slice(1,2)", sparse_union())] {
        let f = Arc::new(Field::new("item", u.data_type().clone(), true));
        let l = ListArray::try_new(f, OffsetBuffer::new(ScalarBuffer::from(vec![0i32, 1, 2, 4])), Arc::new(u), None).unwrap();
        roundtrip(&format!("{n} control unsliced"), &batch1("l", Arc::new(l.clone())), v5());
        roundtrip(n, &batch1("l", Arc::new(l.slice(1, 2))), v5());
    }

    // P4: StreamDecoder on an unaligned input buffer with a dense union column
    {
        let batch = batch1("u", Arc::new(dense_union()));
        let mut w = StreamWriter::try_new(Vec::new(), &batch.schema()).unwrap();
        w.write(&batch).unwrap();
        w.finish().unwrap();
        let bytes = w.into_inner().unwrap();
        for shift in [0usize, 1] {
            let mut padded = vec![0u8; shift];
            padded.extend_from_slice(&bytes);
            let r = guard(|| -> Result<usize, String> {
                let mut b = Buffer::from(padded.clone()).slice(shift);
                let mut dec = StreamDecoder::new();
                let mut n = 0;
                while !b.is_empty() {
                    if dec.decode(&mut b).map_err(|e| e.to_string())?.is_some() {
                        n += 1;
                    }
                }
                Ok(n)
            });
            match r {
                Ok(Ok(n)) => eprintln!("[P4 StreamDecoder dense union, input shifted by {shift}] decoded {n} batch(es)"),
                Ok(Err(e)) => eprintln!("[P4 StreamDecoder dense union, input shifted by {shift}] Err {e}"),
                Err(p) => eprintln!("[P4 StreamDecoder dense union, input shifted by {shift}] PANIC {} @ {}", p.msg, p.loc),
            }
        }
    }

    // P6: list-view dictionary values, same length, different sizes, one null entry:
    // ArrayData equality / IPC dictionary tracking
    {
        use arrow_buffer::NullBuffer;
        let f = Arc::new(Field::new("item", DataType::Int32, true));
        let child: ArrayRef = Arc::new(Int32Array::from(vec![1, 2, 3]));
        let nulls = NullBuffer::from(vec![true, false]);
        let mk = |size0: i32| -> ArrayRef {
            Arc::new(
                ListViewArray::try_new(f.clone(), ScalarBuffer::from(vec![0i32, 0]), ScalarBuffer::from(vec![size0, 0]), child.clone(), Some(nulls.clone()))
                    .unwrap(),
            )
        };
        let (a, b) = (mk(1), mk(3));
        let eq = guard(|| a.to_data() == b.to_data());
        eprintln!("[P6 list-view equality] {:?} == {:?} -> {:?}", extract(a.as_ref()), extract(b.as_ref()), eq.map_err(|p| format!("PANIC {}", p.msg)));
        let keys = Int32Array::from(vec![0, 0]);
        let d0: ArrayRef = Arc::new(DictionaryArray::try_new(keys.clone(), a).unwrap());
        let d1: ArrayRef = Arc::new(DictionaryArray::try_new(keys, b).unwrap());
        let schema = Arc::new(Schema::new(vec![Field::new("d", d0.data_type().clone(), true)]));
        let r = guard(|| -> Result<String, String> {
            let mut w = StreamWriter::try_new(Vec::new(), &schema).map_err(|e| e.to_string())?;
            for d in [&d0, &d1] {
                w.write(&RecordBatch::try_new(schema.clone(), vec![d.clone()]).unwrap()).map_err(|e| format!("write: {e}"))?;
            }
            w.finish().map_err(|e| e.to_string())?;
            let bytes = w.into_inner().map_err(|e| e.to_string())?;
            let mut out = String::new();
            for (i, b) in StreamReader::try_new(&bytes[..], None).map_err(|e| e.to_string())?.enumerate() {
                let b = b.map_err(|e| format!("READ ERROR {e}"))?;
                out.push_str(&format!("batch {i} wrote {:?} read {:?}; ", extract([&d0, &d1][i].as_ref()), extract(b.column(0).as_ref())));
            }
            Ok(out)
        });
        eprintln!("[P6 stream with replaced list-view dictionary] {:?}", r.map_err(|p| format!("PANIC {} @ {}", p.msg, p.loc)));
    }

    // P7 (observation, a writer Err = rejection): utils::batches_to_flight_data with a dictionary column
    {
        let d: ArrayRef = Arc::new(DictionaryArray::try_new(Int32Array::from(vec![0, 1]), Arc::new(StringArray::from(vec!["a", "b"])) as ArrayRef).unwrap());
        let b = batch1("d", d);
        let r = arrow_flight::utils::batches_to_flight_data(&b.schema(), vec![b.clone()]).map(|v| v.len());
        eprintln!("[P7 batches_to_flight_data with a dictionary column] {r:?}");
    }

    // P8: delta dictionary whose values contain a run-end encoded child, first dictionary empty
    {
        use arrow_ipc::writer::DictionaryHandling;
        use vcore::val::Val;
        let ree = DataType::RunEndEncoded(
            Arc::new(Field::new("run_ends", DataType::Int16, false)),
            Arc::new(Field::new("values", DataType::LargeUtf8, true)),
        );
        for (name, vt) in [
            ("List<REE>", DataType::List(Arc::new(Field::new("item", ree.clone(), true)))),
            ("List<Int32>", DataType::List(Arc::new(Field::new("item", DataType::Int32, true)))),
        ] {
            let v0 = vcore::build::build(&vt, &[]);
            let v1 = vcore::build::build(&vt, &[Val::List(vec![])]);
            let c = guard(|| arrow_select::concat::concat(&[v0.as_ref(), v1.as_ref()]).map(|a| a.len()).map_err(|e| e.to_string()));
            eprintln!("[P8 concat(empty {name}, one empty list)] {:?}", c.map_err(|p| format!("PANIC {}", p.msg)));
            let d0: ArrayRef = Arc::new(DictionaryArray::try_new(Int32Array::from(vec![None::<i32>]), v0.clone()).unwrap());
            let d1: ArrayRef = Arc::new(DictionaryArray::try_new(Int32Array::from(vec![Some(0)]), v1.clone()).unwrap());
            let schema = Arc::new(Schema::new(vec![Field::new("d", d0.data_type().clone(), true)]));
            let r = guard(|| -> Result<String, String> {
                let o = IpcWriteOptions::default().with_dictionary_handling(DictionaryHandling::Delta);
                let mut w = StreamWriter::try_new_with_options(Vec::new(), &schema, o).map_err(|e| e.to_string())?;
                for d in [&d0, &d1] {
                    w.write(&RecordBatch::try_new(schema.clone(), vec![d.clone()]).unwrap()).map_err(|e| format!("write: {e}"))?;
                }
                w.finish().map_err(|e| e.to_string())?;
                let bytes = w.into_inner().map_err(|e| e.to_string())?;
                let mut out = String::new();
                for (i, b) in StreamReader::try_new(&bytes[..], None).map_err(|e| e.to_string())?.enumerate() {
                    let b = b.map_err(|e| format!("READ ERROR {e}"))?;
                    out.push_str(&format!("batch {i} read {:?}; ", extract(b.column(0).as_ref())));
                }
                Ok(out)
            });
            eprintln!("[P8 V5 delta stream, Dictionary<Int32,{name}>: empty dictionary then one entry] {:?}", r.map_err(|p| format!("PANIC {} @ {}", p.msg, p.loc)));
        }
    }

    // P9: view array compared as a list child at a non-zero start, an earlier element is null
    {
        let f = Arc::new(Field::new("item", DataType::Utf8View, true));
        let a = ListArray::try_new(
            f.clone(),
            OffsetBuffer::new(ScalarBuffer::from(vec![0i32, 1, 2])),
            Arc::new(StringViewArray::from(vec![None, Some("x")])),
            None,
        )
        .unwrap()
        .slice(1, 1);
        let b = ListArray::try_new(f, OffsetBuffer::new(ScalarBuffer::from(vec![0i32, 1])), Arc::new(StringViewArray::from(vec![Some("y")])), None).unwrap();
        let a: ArrayRef = Arc::new(a);
        let b: ArrayRef = Arc::new(b);
        let eq = guard(|| a.to_data() == b.to_data());
        eprintln!("[P9 view equality below a list] {:?} == {:?} -> {:?}", extract(a.as_ref()), extract(b.as_ref()), eq.map_err(|p| format!("PANIC {}", p.msg)));
    }

    // P5: Flight schema of a nullable union field with metadata
    {
        use arrow_flight::encode::FlightDataEncoderBuilder;
        let ufs = UnionFields::try_new(vec![0i8], vec![Field::new("a", DataType::Int32, true)]).unwrap();
        let f = Field::new("u", DataType::Union(ufs, UnionMode::Sparse), true)
            .with_metadata([("k".to_string(), "v".to_string())].into_iter().collect::<std::collections::HashMap<String, String>>());
        let schema = Arc::new(Schema::new(vec![f]));
        let enc = FlightDataEncoderBuilder::new()
            .with_schema(schema.clone())
            .build(futures::stream::iter(Vec::<Result<RecordBatch, arrow_flight::error::FlightError>>::new()));
        eprintln!("[P5 flight union field] input  {:?}\n[P5 flight union field] known_schema {:?}", schema.field(0), enc.known_schema().map(|s| s.field(0).clone()));
    }
}
