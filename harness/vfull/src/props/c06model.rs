//! C06 helper: the in-memory reference. A file is one unrestricted read (`Vec<Val>` per top-level
//! column); a reader configuration is evaluated on it in the documented order
//! row groups -> selection -> predicates -> offset -> limit -> projection.

use super::c06sel::broken;
use arrow_schema::{DataType, Field, FieldRef, Schema};
use std::hash::{Hash, Hasher};
use std::sync::Arc;
use vcore::val::Val;

/// Which leaves of a column type survive a `ProjectionMask` (mirrors the documented schema
/// projection: a struct keeps the children that keep a leaf, a list keeps its element, a map
/// needs both key and value).
#[derive(Clone, Debug)]
pub enum Plan {
    Leaf(bool),
    List(Box<Plan>),
    Struct(Vec<Plan>),
    Map(Box<Plan>, Box<Plan>),
}

impl Plan {
    pub fn of(dt: &DataType, next: &mut usize, mask: &[bool]) -> Plan {
        use DataType::*;
        match dt {
            List(f) | LargeList(f) | ListView(f) | LargeListView(f) | FixedSizeList(f, _) => Plan::List(Box::new(Plan::of(f.data_type(), next, mask))),
            Struct(fs) => Plan::Struct(fs.iter().map(|f| Plan::of(f.data_type(), next, mask)).collect()),
            Map(e, _) => match e.data_type() {
                Struct(kv) if kv.len() == 2 => {
                    let k = Plan::of(kv[0].data_type(), next, mask);
                    let v = Plan::of(kv[1].data_type(), next, mask);
                    Plan::Map(Box::new(k), Box::new(v))
                }
                other => panic!("model: map entries of type {other}"),
            },
            RunEndEncoded(_, v) => Plan::of(v.data_type(), next, mask),
            _ => {
                let i = *next;
                *next += 1;
                Plan::Leaf(*mask.get(i).unwrap_or_else(|| panic!("model: leaf {i} beyond the mask")))
            }
        }
    }
    /// a map of which only the key or only the value is projected (the readers decline that)
    pub fn partial_map(&self) -> bool {
        match self {
            Plan::Leaf(_) => false,
            Plan::List(c) => c.partial_map(),
            Plan::Struct(cs) => cs.iter().any(|c| c.partial_map()),
            Plan::Map(k, v) => k.keeps() != v.keeps() || k.partial_map() || v.partial_map(),
        }
    }
    pub fn keeps(&self) -> bool {
        match self {
            Plan::Leaf(b) => *b,
            Plan::List(c) => c.keeps(),
            Plan::Struct(cs) => cs.iter().any(|c| c.keeps()),
            Plan::Map(k, v) => k.keeps() && v.keeps(),
        }
    }
    fn field(&self, f: &FieldRef) -> FieldRef {
        Arc::new(f.as_ref().clone().with_data_type(self.ty(f.data_type())))
    }
    /// projected type (only for plans that keep something)
    pub fn ty(&self, dt: &DataType) -> DataType {
        use DataType::*;
        match (self, dt) {
            (Plan::Leaf(_), t) => t.clone(),
            (Plan::List(c), List(f)) => List(c.field(f)),
            (Plan::List(c), LargeList(f)) => LargeList(c.field(f)),
            (Plan::List(c), ListView(f)) => ListView(c.field(f)),
            (Plan::List(c), LargeListView(f)) => LargeListView(c.field(f)),
            (Plan::List(c), FixedSizeList(f, n)) => FixedSizeList(c.field(f), *n),
            (Plan::Struct(cs), Struct(fs)) => Struct(cs.iter().zip(fs.iter()).filter(|(c, _)| c.keeps()).map(|(c, f)| c.field(f)).collect()),
            (Plan::Map(k, v), Map(e, s)) => match e.data_type() {
                Struct(kv) => {
                    let st = Struct(vec![k.field(&kv[0]), v.field(&kv[1])].into());
                    Map(Arc::new(e.as_ref().clone().with_data_type(st)), *s)
                }
                _ => unreachable!(),
            },
            (p, RunEndEncoded(_, v)) => p.ty(v.data_type()),
            (p, t) => panic!("model: plan {p:?} does not fit type {t}"),
        }
    }
    pub fn val(&self, v: &Val) -> Val {
        match (self, v) {
            (_, Val::Null) => Val::Null,
            (Plan::Leaf(_), v) => v.clone(),
            (Plan::List(c), Val::List(xs)) => Val::List(xs.iter().map(|x| c.val(x)).collect()),
            (Plan::Struct(cs), Val::Struct(xs)) => Val::Struct(cs.iter().zip(xs).filter(|(c, _)| c.keeps()).map(|(c, x)| c.val(x)).collect()),
            (Plan::Map(k, vv), Val::List(es)) => Val::List(
                es.iter()
                    .map(|e| match e {
                        Val::Struct(kv) if kv.len() == 2 => Val::Struct(vec![k.val(&kv[0]), vv.val(&kv[1])]),
                        other => panic!("model: map entry {other:?}"),
                    })
                    .collect(),
            ),
            (p, v) => panic!("model: plan {p:?} does not fit value {v:?}"),
        }
    }
}

/// Projection of a whole table.
pub struct ProjModel {
    /// some map is projected to its key or its value only: "partial projection of MapArray is not
    /// supported" by the readers
    pub partial_map: bool,
    /// (top-level column, plan) of the columns that survive
    pub cols: Vec<(usize, Plan)>,
    pub schema: Schema,
}

pub fn proj_model(full: &Schema, mask: &[bool]) -> ProjModel {
    let mut next = 0usize;
    let mut cols = Vec::new();
    let mut fields: Vec<Field> = Vec::new();
    let mut partial_map = false;
    for (i, f) in full.fields().iter().enumerate() {
        let p = Plan::of(f.data_type(), &mut next, mask);
        partial_map |= p.partial_map();
        if p.keeps() {
            fields.push(f.as_ref().clone().with_data_type(p.ty(f.data_type())));
            cols.push((i, p));
        }
    }
    if next != mask.len() {
        panic!("model: {} leaves in the schema, mask of {}", next, mask.len());
    }
    ProjModel { partial_map, cols, schema: Schema::new(fields) }
}

impl ProjModel {
    pub fn row(&self, table: &[Vec<Val>], r: usize) -> Vec<Val> {
        self.cols.iter().map(|(c, p)| p.val(&table[*c][r])).collect()
    }
    pub fn columns(&self, table: &[Vec<Val>], rows: &[usize]) -> Vec<Vec<Val>> {
        self.cols.iter().map(|(c, p)| rows.iter().map(|r| p.val(&table[*c][*r])).collect()).collect()
    }
}

/// Deterministic predicate: a function of the row's projected values only.
#[derive(Clone, Debug)]
pub struct Decide {
    pub salt: u64,
    /// `t/den` true, `n/den` null, rest false
    pub t: u64,
    pub n: u64,
    pub den: u64,
}

pub fn row_hash<'a>(salt: u64, vals: impl Iterator<Item = &'a Val>) -> u64 {
    #[allow(deprecated)]
    let mut h = std::hash::SipHasher::new_with_keys(0x0c06, salt);
    for v in vals {
        v.hash(&mut h);
    }
    h.finish()
}

impl Decide {
    pub fn on(&self, h: u64) -> Option<bool> {
        let x = h % self.den;
        if x < self.t {
            Some(true)
        } else if x < self.t + self.n {
            None
        } else {
            Some(false)
        }
    }
}

/// The reference result of one reader configuration.
pub struct Expected {
    /// file row ids returned, in order
    pub rows: Vec<usize>,
    /// per predicate: hashes of the rows that reach it (after row groups, selection, earlier predicates)
    pub reach: Vec<Vec<u64>>,
    /// rows left after the predicates, before offset / limit
    pub after_preds: usize,
}

pub struct ModelCfg<'a> {
    pub rg_start: &'a [usize],
    pub rg_rows: &'a [usize],
    pub row_groups: Option<&'a [usize]>,
    pub sel: Option<&'a [bool]>,
    pub preds: Vec<(&'a ProjModel, &'a Decide)>,
    pub offset: Option<usize>,
    pub limit: Option<usize>,
}

pub fn expected(table: &[Vec<Val>], m: &ModelCfg) -> Expected {
    // 1. row groups (in the order given)
    let all: Vec<usize> = (0..m.rg_rows.len()).collect();
    let mut rgs: Vec<usize> = m.row_groups.map(|r| r.to_vec()).unwrap_or(all);
    if broken("rg-order") {
        rgs.sort();
    }
    let mut rows: Vec<usize> = Vec::new();
    for g in rgs {
        rows.extend(m.rg_start[g]..m.rg_start[g] + m.rg_rows[g]);
    }
    // 2. selection over exactly those rows
    if let Some(sel) = m.sel {
        if sel.len() != rows.len() {
            panic!("model: selection of {} rows for {} rows", sel.len(), rows.len());
        }
        let shift = if broken("sel-shift") { 1 } else { 0 };
        rows = rows.iter().enumerate().filter(|(i, _)| sel[(*i + shift).min(sel.len() - 1)]).map(|(_, r)| *r).collect();
    }
    // 3. predicates, in order; null counts as false
    let mut reach = Vec::new();
    for (pm, d) in &m.preds {
        let hs: Vec<u64> = rows.iter().map(|r| row_hash(d.salt, pm.row(table, *r).iter())).collect();
        let null_is = broken("pred-null");
        rows = rows.iter().zip(&hs).filter(|(_, h)| d.on(**h).unwrap_or(null_is)).map(|(r, _)| *r).collect();
        reach.push(hs);
    }
    let after_preds = rows.len();
    // 4. offset, 5. limit
    if let Some(o) = m.offset {
        let o = if broken("offset") { o.saturating_sub(1) } else { o };
        rows = rows.into_iter().skip(o).collect();
    }
    if let Some(l) = m.limit {
        let l = if broken("limit") { l.saturating_add(1) } else { l };
        rows.truncate(l);
    }
    Expected { rows, reach, after_preds }
}

/// greedy check that `seen` is a subsequence of `all`
pub fn is_subsequence(seen: &[u64], all: &[u64]) -> bool {
    let mut it = all.iter();
    seen.iter().all(|s| it.any(|a| a == s))
}
