//! C07: Parquet statistics, page indexes and bloom filters never exclude present data.
//!
//! Events: files produced by the real writers (`ArrowWriter`, the parallel `ArrowColumnWriter`
//! path, and the typed `SerializedFileWriter` column writers); their footer read back with the
//! page index (`ParquetMetaDataReader`), every column chunk decoded with the low-level column
//! reader (values + definition / repetition levels), every page enumerated with the page reader
//! (header statistics, v2 row / null counts) once sequentially and once at the offset index'
//! locations, the chunk's bloom filter (`Sbbf::read_from_column_chunk`) and the Arrow arrays of
//! `StatisticsConverter` (row group and data page level).
//!
//! Oracle (`c07core.rs`, written independently of parquet's own comparison code): under the
//! column's sort order per the format (signed, unsigned, byte-wise, decimal two's complement of any
//! width, float with NaN excluded and -0 == +0, additionally IEEE total order when the footer
//! declares it, INT96 timestamp order) every chunk / column index / page header bound bounds every
//! non-NaN value it covers, an exact flag implies the bound is attained, null / NaN / value / row
//! counts are exact, a null page holds no value, the declared boundary order holds of the stored
//! (truncated) bounds, the offset index lists exactly the chunk's data pages (count, first row
//! index, byte tiling, same pages when fetched at the locations), every stored value and every
//! value of the model is bloom-positive; the converter's arrays have the Arrow type, bound the
//! *model* rows of the row group / page under the Arrow type's natural order, and its counts are
//! exact.
//!
//! Sections
//! * `general`  – pq_common's nested schemas / every WriterProperties knob / serial + parallel writers
//! * `flat`     – one flat (dictionary / run-end) column, up to ~4k rows: many pages, dictionary fallback
//! * `typed`    – focused: every leaf type x value pattern (sorted / reversed / constant / blocks / NaN runs /
//!                null runs longer than a page) x tiny pages x truncation lengths 1-8, 64, none x
//!                statistics level x page header statistics x bloom fpp/ndv; strings with multi-byte
//!                characters at the cut, 0xFF runs, U+10FFFF, surrogate-gap neighbours; lists with null elements
//! * `lowlevel` – `SerializedFileWriter` typed column writers: BYTE_ARRAY / FLBA / INT32 / INT64 decimals
//!                (mixed-length two's complement), INT96, UINT_*, UUID, ENUM/JSON, FLOAT16, INTERVAL
//!
//! not asserted:
//! * tightness of non-exact bounds, presence of any statistic / index / filter (absent is sound);
//! * distinct counts, level histograms, unencoded byte sizes;
//! * min/max of columns whose order the format leaves undefined (INTERVAL, INT96 type order, UNKNOWN);
//! * `null_pages[i] == false` on a page without values (only `true` => no value is asserted);
//! * bloom filter false positive rate / size;
//! * files whose plain Arrow round trip already fails (C05's business): skipped and counted;
//! * converter: a null (unknown) statistic is always accepted; for Dictionary fields the value type
//!   is accepted as array type;
//! * zero-value data pages (the content-defined-chunking writer emits them): counted
//!   (`empty_data_pages_seen`), hidden from the low-level column reader (which stops at them).
//!
//! Oracle self-test (perturbs the expectation, never arrow-rs): `C07_BREAK=chunk-null | first-row |
//! page-min | signed | bloom | conv-swap` makes the corresponding check fire on the unchanged tree.
//!
//! Findings on the unchanged tree (signatures are `C07|<level>|<what>|<order>:<physical>|<flat|nested>`):
//! * `C07|column-index|null-page-has-values|nested` – `update_column_offset_index` computes
//!   `null_page = num_buffered_rows == num_page_nulls`: rows vs level entries; a page of a repeated
//!   column with as many null/empty level entries as rows is flagged all-null although it holds values;
//! * `C07|{chunk,page-header,column-index}|{min,max}-bound|decimal:BYTE_ARRAY|flat` (+ the
//!   `boundary-order-*|decimal:BYTE_ARRAY` consequences) – `can_truncate_value` exempts DECIMAL only on
//!   FIXED_LEN_BYTE_ARRAY: BYTE_ARRAY decimals get byte-wise truncated / incremented bounds, which do
//!   not bound under the signed numeric order;
//! * `C07|column-index|boundary-order-{asc,desc}|{utf8,bytes}:*` – ascending/descending is tracked on the
//!   untruncated page bounds but the truncated ones are stored: UTF-8 truncation to a character boundary
//!   and increment-with-carry (`a\xff..` -> `b\x00`) are not monotone, so the stored lists are not sorted.

use super::c07core::*;
use super::pq_common::{self as pq, DrawnProps, FailKind, GenCfg, Logical, ReadCfg, ReadOutcome, WriteCfg, WriteMode, Written};
use arrow_array::Array;
use arrow_schema::{DataType, Field, IntervalUnit, Schema, SchemaRef};
use bytes::Bytes;
use parquet::arrow::arrow_reader::statistics::StatisticsConverter;
use parquet::basic::{Compression, Type as PhysicalType};
use parquet::file::metadata::{PageIndexPolicy, ParquetMetaData};
use parquet::file::properties::{EnabledStatistics, WriterProperties, WriterVersion};
use std::cmp::Ordering;
use std::sync::Arc;
use vcore::extract::extract;
use vcore::gens::{self, TypeCfg};
use vcore::mon::{Ctx, guard, strip_digits};
use vcore::rng::Rng;
use vcore::val::{Val, dump_vals};

// ------------------------------------------------------------------------------------------
// model: leaf slots of the logical rows (Dremel flattening, values only)
// ------------------------------------------------------------------------------------------

fn nleaves(dt: &DataType) -> usize {
    let mut v = Vec::new();
    pq::arrow_leaves(dt, &mut v);
    v.len()
}

/// Append the leaf slots of one value of type `dt` to `out` (one vector per leaf below `dt`):
/// `Some(v)` for a present leaf value, `None` for every level entry that is not a value (null at any
/// level, empty list).
fn flatten_into(dt: &DataType, v: &Val, out: &mut [Vec<Option<Val>>]) {
    use DataType::*;
    let none_all = |out: &mut [Vec<Option<Val>>]| out.iter_mut().for_each(|o| o.push(None));
    match dt {
        List(f) | LargeList(f) | ListView(f) | LargeListView(f) | FixedSizeList(f, _) | Map(f, _) => match v {
            Val::List(items) if !items.is_empty() => items.iter().for_each(|x| flatten_into(f.data_type(), x, out)),
            _ => none_all(out),
        },
        Struct(fs) => match v {
            Val::Struct(vals) => {
                let mut at = 0usize;
                for (f, x) in fs.iter().zip(vals) {
                    let n = nleaves(f.data_type());
                    flatten_into(f.data_type(), x, &mut out[at..at + n]);
                    at += n;
                }
            }
            _ => none_all(out),
        },
        RunEndEncoded(_, vf) => flatten_into(vf.data_type(), v, out),
        Null => out[0].push(None),
        _ => out[0].push(if v.is_null() { None } else { Some(v.clone()) }),
    }
}

/// The slots of one leaf for all rows of the file.
pub struct LeafModel {
    pub arrow: DataType,
    pub slots: Vec<Option<Val>>,
    /// `row_off[r]..row_off[r+1]`: slots of row `r`
    pub row_off: Vec<usize>,
}

impl LeafModel {
    fn rows(&self, r0: usize, r1: usize) -> &[Option<Val>] {
        &self.slots[self.row_off[r0]..self.row_off[r1]]
    }
}

fn leaf_models(schema: &Schema, cols: &[Vec<Val>]) -> Vec<LeafModel> {
    let mut out = Vec::new();
    for (f, col) in schema.fields().iter().zip(cols) {
        let mut types = Vec::new();
        pq::arrow_leaves(f.data_type(), &mut types);
        let n = types.len();
        let mut slots: Vec<Vec<Option<Val>>> = vec![Vec::new(); n];
        let mut offs: Vec<Vec<usize>> = vec![vec![0]; n];
        for v in col {
            flatten_into(f.data_type(), v, &mut slots);
            for k in 0..n {
                offs[k].push(slots[k].len());
            }
        }
        for ((t, s), o) in types.into_iter().zip(slots).zip(offs) {
            out.push(LeafModel { arrow: t, slots: s, row_off: o });
        }
    }
    out
}

/// The physical value the Arrow writer stores for a model value (`None`: not modelled).
fn val_to_pv(dt: &DataType, phys: PhysicalType, type_len: i32, v: &Val) -> Option<PV> {
    use DataType::*;
    let dt = match dt {
        Dictionary(_, v) => v.as_ref(),
        d => d,
    };
    let be = |bytes: &[u8], n: usize| -> Vec<u8> {
        if n <= bytes.len() {
            bytes[bytes.len() - n..].to_vec()
        } else {
            let ext = if bytes[0] & 0x80 != 0 { 0xFF } else { 0 };
            let mut o = vec![ext; n - bytes.len()];
            o.extend_from_slice(bytes);
            o
        }
    };
    Some(match (dt, v) {
        (Boolean, Val::Bool(b)) => PV::Bool(*b),
        (Float16, Val::F16(b)) => PV::Bytes(b.to_le_bytes().to_vec()),
        (Float32, Val::F32(b)) => PV::F32(*b),
        (Float64, Val::F64(b)) => PV::F64(*b),
        (Utf8 | LargeUtf8 | Utf8View, Val::Str(s)) => PV::Bytes(s.as_bytes().to_vec()),
        (Binary | LargeBinary | BinaryView | FixedSizeBinary(_), Val::Bytes(b)) => PV::Bytes(b.clone()),
        (Interval(IntervalUnit::YearMonth), Val::Int(m)) => {
            let mut o = vec![0u8; 12];
            o[0..4].copy_from_slice(&(*m as i32).to_le_bytes());
            PV::Bytes(o)
        }
        (Interval(IntervalUnit::DayTime), Val::IntervalDT(d, ms)) => {
            let mut o = vec![0u8; 12];
            o[4..8].copy_from_slice(&d.to_le_bytes());
            o[8..12].copy_from_slice(&ms.to_le_bytes());
            PV::Bytes(o)
        }
        (Date64, Val::Int(i)) if phys == PhysicalType::INT32 => PV::I32((*i / 86_400_000) as i32),
        (Decimal256(_, _), Val::Big(b)) => match phys {
            PhysicalType::INT32 => PV::I32(b.to_i128()? as i32),
            PhysicalType::INT64 => PV::I64(b.to_i128()? as i64),
            _ => PV::Bytes(be(&b.to_be_bytes(), type_len as usize)),
        },
        (Decimal32(_, _) | Decimal64(_, _) | Decimal128(_, _), Val::Int(i)) => match phys {
            PhysicalType::INT32 => PV::I32(*i as i32),
            PhysicalType::INT64 => PV::I64(*i as i64),
            _ => PV::Bytes(be(&i.to_be_bytes(), type_len as usize)),
        },
        (_, Val::Int(i)) => match phys {
            PhysicalType::INT32 => PV::I32(*i as i32),
            PhysicalType::INT64 => PV::I64(*i as i64),
            _ => return None,
        },
        _ => return None,
    })
}

/// Natural order of the Arrow type on model values (`None`: NaN / not comparable).
fn val_cmp(a: &Val, b: &Val) -> Option<Ordering> {
    match (a, b) {
        (Val::Bool(x), Val::Bool(y)) => Some(x.cmp(y)),
        (Val::Int(x), Val::Int(y)) => Some(x.cmp(y)),
        (Val::Big(x), Val::Big(y)) => Some(x.cmp(y)),
        (Val::F16(_), Val::F16(_)) | (Val::F32(_), Val::F32(_)) | (Val::F64(_), Val::F64(_)) => a.f64()?.partial_cmp(&b.f64()?),
        (Val::Str(_) | Val::Bytes(_), Val::Str(_) | Val::Bytes(_)) => Some(a.as_bytes()?.cmp(b.as_bytes()?)),
        _ => None,
    }
}

fn val_is_nan(v: &Val) -> bool {
    matches!(v, Val::F16(_) | Val::F32(_) | Val::F64(_)) && v.f64().map(|f| f.is_nan()).unwrap_or(false)
}

// ------------------------------------------------------------------------------------------
// per-file check
// ------------------------------------------------------------------------------------------

/// What the caller knows about the rows of a file (absent for the low-level section).
pub struct Model<'a> {
    pub read_schema: SchemaRef,
    pub leaves: &'a [LeafModel],
}

fn conv_expected_type(dt: &DataType) -> DataType {
    match dt {
        DataType::Dictionary(_, v) => v.as_ref().clone(),
        d => d.clone(),
    }
}

/// StatisticsConverter oracle for one leaf: arrays bound the *model* rows.
#[allow(clippy::too_many_arguments)]
fn check_converter(
    rep: &mut Rep,
    lf: &Leaf,
    md: &ParquetMetaData,
    model: &Model,
    lm: &LeafModel,
    top_level: Option<&str>,
    rg_rows: &[(usize, usize)],
    page_rows: &[Option<Vec<(usize, usize)>>],
) {
    let sd = md.file_metadata().schema_descr();
    let idx: Vec<usize> = (0..md.num_row_groups()).collect();
    let leaf_field = Field::new("leaf", pq::expected_read_type(&lm.arrow), true);
    let conv = match top_level {
        Some(name) => StatisticsConverter::try_new(name, &model.read_schema, sd),
        None => StatisticsConverter::from_column_index(lf.idx, &leaf_field, sd),
    };
    let conv = match conv {
        Ok(c) => c,
        Err(e) => {
            rep.ctx.count(&format!("converter_declined: {}", strip_digits(&e.to_string()).chars().take(60).collect::<String>()), 1);
            return;
        }
    };
    if conv.parquet_column_index() != Some(lf.idx) {
        rep.ctx.count("converter_column_not_resolved", 1);
        return;
    }
    let field_type = conv.arrow_field().data_type().clone();
    let want_type = conv_expected_type(&field_type);
    let n_rg = md.num_row_groups();
    let rgs = md.row_groups();
    macro_rules! get {
        ($what:expr, $e:expr) => {
            match guard(|| $e) {
                Ok(Ok(a)) => Some(a),
                Ok(Err(e)) => {
                    rep.v(lf, "converter", &format!("{}-err", $what), format!("StatisticsConverter::{} failed on a file the writer produced: {e}\nfield {field_type}", $what));
                    None
                }
                Err(p) => {
                    rep.v(lf, "converter", &format!("{}-panic", $what), format!("StatisticsConverter::{} panicked: {} @ {}\nfield {field_type}", $what, p.msg, p.loc));
                    None
                }
            }
        };
    }
    rep.ctx.count("converter_leaves", 1);
    // --- row group level
    let mins = get!("row_group_mins", conv.row_group_mins(rgs.iter()));
    let maxes = get!("row_group_maxes", conv.row_group_maxes(rgs.iter()));
    let min_exact = get!("row_group_is_min_value_exact", conv.row_group_is_min_value_exact(rgs.iter()));
    let max_exact = get!("row_group_is_max_value_exact", conv.row_group_is_max_value_exact(rgs.iter()));
    let nulls = get!("row_group_null_counts", conv.row_group_null_counts(rgs.iter()));
    let nans = get!("row_group_nan_counts", conv.row_group_nan_counts(rgs.iter()));
    let rowc = get!("row_group_row_counts", conv.row_group_row_counts(rgs.iter()));
    let check_arrays = |rep: &mut Rep, level: &str, mins: Option<arrow_array::ArrayRef>, maxes: Option<arrow_array::ArrayRef>, exact: Option<(&arrow_array::BooleanArray, &arrow_array::BooleanArray)>, spans: &[(usize, usize)], names: &dyn Fn(usize) -> String| {
        let (mins, maxes) = if brk("conv-swap") { (maxes, mins) } else { (mins, maxes) };
        for (side, arr) in [("min", mins), ("max", maxes)] {
            let Some(arr) = arr else { continue };
            if arr.len() != spans.len() {
                rep.v(lf, level, &format!("{side}-length"), format!("{side} array has {} entries for {} units\nfield {field_type}", arr.len(), spans.len()));
                continue;
            }
            if arr.data_type() != &want_type && arr.data_type() != &field_type {
                rep.v(lf, level, &format!("{side}-type"), format!("{side} array has type {} for the Arrow field type {field_type}", arr.data_type()));
                continue;
            }
            let got = match guard(|| extract(arr.as_ref())) {
                Ok(g) => g,
                Err(p) => {
                    rep.ctx.inconclusive(&format!("extract of converter output: {} @ {}", p.msg, p.loc));
                    continue;
                }
            };
            let bad = if side == "min" { Ordering::Less } else { Ordering::Greater };
            for (u, ((r0, r1), b)) in spans.iter().zip(&got).enumerate() {
                if b.is_null() {
                    continue;
                }
                rep.ctx.count("converter_bounds_checked", 1);
                let vals: Vec<&Val> = lm.rows(*r0, *r1).iter().flatten().collect();
                if val_is_nan(b) {
                    if let Some(v) = vals.iter().find(|v| !val_is_nan(v)) {
                        rep.v(lf, level, &format!("{side}-is-nan"), format!("{}: {side} {b:?} is NaN but the rows contain {v:?}\nfield {field_type}", names(u)));
                    }
                    continue;
                }
                for v in vals.iter().filter(|v| !val_is_nan(v)) {
                    match val_cmp(v, b) {
                        Some(o) if o == bad => {
                            let dump: Vec<Val> = vals.iter().take(40).map(|v| (*v).clone()).collect();
                            rep.v(
                                lf,
                                level,
                                &format!("{side}-bound"),
                                format!("{}: the written value {v:?} is {} the converter's {side} {b:?}\nfield {field_type}\nrows {r0}..{r1} values {}", names(u), if side == "min" { "below" } else { "above" }, dump_vals(&dump)),
                            );
                            break;
                        }
                        None => {
                            rep.ctx.inconclusive(&format!("model: cannot compare {v:?} with converter output {b:?}"));
                            break;
                        }
                        _ => {}
                    }
                }
                if let Some((mi, ma)) = exact {
                    let e = if side == "min" { mi } else { ma };
                    if e.len() == spans.len() && e.is_valid(u) && e.value(u) {
                        rep.ctx.count("converter_exact_checked", 1);
                        if !vals.iter().any(|v| *v == b || val_cmp(v, b) == Some(Ordering::Equal)) {
                            rep.v(lf, level, &format!("{side}-exact-not-attained"), format!("{}: {side} {b:?} is reported exact but no written value equals it\nfield {field_type}", names(u)));
                        }
                    }
                }
            }
        }
    };
    let ex = match (&min_exact, &max_exact) {
        (Some(a), Some(b)) => Some((a, b)),
        _ => None,
    };
    check_arrays(rep, "conv-rg", mins, maxes, ex, rg_rows, &|u| format!("row group {u}"));
    if let Some(n) = &nulls {
        for (u, (r0, r1)) in rg_rows.iter().enumerate() {
            // a null count is only reported when the chunk has statistics
            if n.len() == n_rg && n.is_valid(u) && md.row_group(u).column(lf.idx).statistics().is_some() {
                rep.ctx.count("converter_null_counts_checked", 1);
                let want = lm.rows(*r0, *r1).iter().filter(|s| s.is_none()).count() as u64;
                if n.value(u) != want {
                    rep.v(lf, "conv-rg", "null-count", format!("row group {u}: converter null count {} but {want} level entries of rows {r0}..{r1} are null", n.value(u)));
                }
            }
        }
    }
    if let Some(n) = &nans {
        for (u, (r0, r1)) in rg_rows.iter().enumerate() {
            if n.len() == n_rg && n.is_valid(u) {
                let want = lm.rows(*r0, *r1).iter().flatten().filter(|v| val_is_nan(v)).count() as u64;
                if n.value(u) != want {
                    rep.v(lf, "conv-rg", "nan-count", format!("row group {u}: converter NaN count {} but {want} values of rows {r0}..{r1} are NaN", n.value(u)));
                }
            }
        }
    }
    if let Some(Some(rc)) = &rowc {
        for (u, (r0, r1)) in rg_rows.iter().enumerate() {
            if rc.len() != n_rg || rc.value(u) != (r1 - r0) as u64 {
                rep.v(lf, "conv-rg", "row-count", format!("row group {u}: converter row counts {rc:?}, rows {r0}..{r1}"));
                break;
            }
        }
    }
    // --- data page level (only when every row group has its pages delimited by an offset index)
    let Some(pi) = md.page_index() else { return };
    if !(pi.has_column_indexes() && pi.has_offset_indexes()) || page_rows.iter().any(|p| p.is_none()) || n_rg == 0 {
        return;
    }
    if (0..n_rg).any(|g| pi.column_index(g, lf.idx).is_none()) {
        return;
    }
    let spans: Vec<(usize, usize)> = page_rows.iter().flat_map(|p| p.as_ref().unwrap().iter().copied()).collect();
    let owner: Vec<(usize, usize)> = page_rows.iter().enumerate().flat_map(|(g, p)| (0..p.as_ref().unwrap().len()).map(move |i| (g, i))).collect();
    let pmins = get!("data_page_mins", conv.data_page_mins(pi, idx.iter()));
    let pmaxes = get!("data_page_maxes", conv.data_page_maxes(pi, idx.iter()));
    check_arrays(rep, "conv-page", pmins, pmaxes, None, &spans, &|u| format!("row group {} page {}", owner[u].0, owner[u].1));
    if let Some(n) = get!("data_page_null_counts", conv.data_page_null_counts(pi, idx.iter())) {
        if n.len() == spans.len() {
            for (u, (r0, r1)) in spans.iter().enumerate() {
                if n.is_valid(u) {
                    let want = lm.rows(*r0, *r1).iter().filter(|s| s.is_none()).count() as u64;
                    if n.value(u) != want {
                        rep.v(lf, "conv-page", "null-count", format!("row group {} page {}: converter null count {} but {want} level entries of rows {r0}..{r1} are null", owner[u].0, owner[u].1, n.value(u)));
                        break;
                    }
                }
            }
        }
    }
    if let Some(Some(rc)) = get!("data_page_row_counts", conv.data_page_row_counts(pi, rgs, idx.iter())) {
        let want: Vec<u64> = spans.iter().map(|(a, b)| (b - a) as u64).collect();
        let got: Vec<u64> = (0..rc.len()).map(|i| rc.value(i)).collect();
        if got != want {
            rep.v(lf, "conv-page", "row-count", format!("converter data page row counts {got:?}, the pages hold {want:?} rows"));
        }
    }
    // the same for a row-group selection that is not 0,1,2,...: reversed order and the last group only
    // (as after row-group pruning)
    if n_rg >= 2 {
        for sel in [(0..n_rg).rev().collect::<Vec<usize>>(), vec![n_rg - 1]] {
            if let Some(Some(rc)) = get!("data_page_row_counts", conv.data_page_row_counts(pi, rgs, sel.iter())) {
                let want: Vec<u64> = sel.iter().flat_map(|g| page_rows[*g].as_ref().unwrap().iter().map(|(a, b)| (b - a) as u64)).collect();
                let got: Vec<u64> = (0..rc.len()).map(|i| rc.value(i)).collect();
                if got != want {
                    rep.v(lf, "conv-page", "row-count-selected-row-groups", format!("row groups {sel:?}: converter data page row counts {got:?}, the pages hold {want:?} rows"));
                }
            }
        }
    }
}

/// Everything for one file. `model`: the rows as the caller wrote them (Arrow level), if known.
/// `written`: per leaf, per row group the rows (physical value or null) handed to the writer, if known.
pub fn check_file(ctx: &mut Ctx, bytes: &Bytes, desc: &str, model: Option<&Model>, written: Option<&[Vec<Vec<Option<PV>>>]>, tag: &str) -> bool {
    let md = match guard(|| read_metadata(bytes)) {
        Ok(Ok(m)) => m,
        Ok(Err(e)) => {
            ctx.violation(&format!("C07|metadata|read-err|{}", strip_digits(&e)), format!("the footer / page index of a file the writer produced cannot be read: {e}\n{desc}"));
            return false;
        }
        Err(p) => {
            ctx.panic_violation("metadata-read", &p, desc.to_string());
            return false;
        }
    };
    let fr = match guard(|| open_reader(bytes)) {
        Ok(Ok(f)) => f,
        Ok(Err(e)) => {
            ctx.inconclusive(&format!("SerializedFileReader: {e}"));
            return false;
        }
        Err(p) => {
            ctx.inconclusive(&format!("SerializedFileReader panicked: {} @ {}", p.msg, p.loc));
            return false;
        }
    };
    let brk = std::env::var("C07_BREAK").ok();
    let mut rep = Rep { ctx, base: desc.to_string(), fired: 0, brk };
    let n_leaves = md.file_metadata().schema_descr().num_columns();
    let n_rg = md.num_row_groups();
    rep.ctx.count("row_groups", n_rg as u64);
    // row ranges of the row groups
    let mut rg_rows: Vec<(usize, usize)> = Vec::with_capacity(n_rg);
    let mut at = 0usize;
    for g in 0..n_rg {
        let n = md.row_group(g).num_rows().max(0) as usize;
        rg_rows.push((at, at + n));
        at += n;
    }
    if let Some(m) = model {
        let rows = m.leaves.first().map(|l| l.row_off.len() - 1);
        if let Some(rows) = rows {
            if rows != at {
                rep.raw("C07|file|row-groups-row-count", format!("the row groups declare {at} rows in total ({:?}), {rows} rows were written", rg_rows));
                return false;
            }
        }
        if m.leaves.len() != n_leaves {
            rep.ctx.inconclusive(&format!("model: {} model leaves, {n_leaves} parquet leaves", m.leaves.len()));
            return false;
        }
    }
    let sd = md.file_metadata().schema_descr_ptr();
    for j in 0..n_leaves {
        let lf = make_leaf(&md, j);
        let d = sd.column(j);
        let mut page_rows: Vec<Option<Vec<(usize, usize)>>> = Vec::with_capacity(n_rg);
        let mut model_ok = model.is_some();
        for g in 0..n_rg {
            let (r0, r1) = rg_rows[g];
            let expected: Option<Expected> = if let Some(w) = written {
                let col_rows = &w[j][g];
                Some(Expected { is_value: col_rows.iter().map(|x| x.is_some()).collect(), values: Some(col_rows.iter().flatten().cloned().collect()), what: "lowlevel".into() })
            } else if let Some(m) = model {
                let lm = &m.leaves[j];
                let slots = lm.rows(r0, r1.min(lm.row_off.len() - 1));
                Some(Expected {
                    is_value: slots.iter().map(|s| s.is_some()).collect(),
                    values: slots.iter().flatten().map(|v| val_to_pv(&lm.arrow, d.physical_type(), d.type_length(), v)).collect(),
                    what: vcore::gens::type_class(&lm.arrow),
                })
            } else {
                None
            };
            let Some((_dec, spans)) = check_chunk(&mut rep, &lf, bytes, &fr, &md, g, expected.as_ref()) else {
                page_rows.push(None);
                model_ok = false;
                continue;
            };
            let has_oi = md.page_index().and_then(|p| p.offset_index(g, j)).is_some();
            page_rows.push(if has_oi { Some(spans.iter().map(|s| (r0 + s.first_row, r0 + s.first_row + s.rows)).collect()) } else { None });
        }
        if let (Some(m), true) = (model, model_ok) {
            let lm = &m.leaves[j];
            // top-level (non nested) column: resolve by name like a user would
            let top = {
                let mut k = 0usize;
                let mut r = None;
                for f in m.read_schema.fields() {
                    let n = nleaves(f.data_type());
                    if j >= k && j < k + n {
                        r = if n == 1 && !f.data_type().is_nested() { Some(f.name().as_str()) } else { None };
                        break;
                    }
                    k += n;
                }
                r
            };
            let fired = rep.fired;
            check_converter(&mut rep, &lf, &md, m, lm, top, &rg_rows, &page_rows);
            if rep.fired == fired {
                rep.ctx.count(if top.is_some() { "converter_top_level_ok" } else { "converter_nested_ok" }, 1);
            }
        }
        if at > 0 {
            let d = sd.column(j);
            rep.ctx.class(format!("{tag}|{:?}|{}|{}", d.physical_type(), lf.sigc, if d.max_def_level() > 0 { "opt" } else { "req" }));
        }
    }
    rep.fired == 0
}

// ------------------------------------------------------------------------------------------
// Arrow sections
// ------------------------------------------------------------------------------------------

fn witness(w: &Written) -> String {
    let mut s = format!("{}\n", w.desc);
    for (i, c) in w.logical.cols.iter().enumerate() {
        s.push_str(&format!("col{i} = {}\n", dump_vals(c)));
        if s.len() > 3500 {
            break;
        }
    }
    s
}

fn handle_write_fail(ctx: &mut Ctx, f: &pq::WriteFail) {
    // the property is conditional on the writer producing a file; failures are C05's business
    match &f.kind {
        FailKind::Model => ctx.inconclusive(&format!("model failure at {}: {}", f.stage, f.msg)),
        _ => {
            ctx.reject();
            let m: String = strip_digits(&f.msg).chars().take(70).collect();
            ctx.count(&format!("no-file@{}: {m}", f.stage), 1);
        }
    }
}

/// Plain round trip first (known C05 corner defects are not this property's business).
fn round_trip(ctx: &mut Ctx, w: &Written) -> Option<SchemaRef> {
    let rc = ReadCfg { batch_size: 1024, page_index: PageIndexPolicy::Skip };
    match pq::read_file(&w.bytes, &rc) {
        ReadOutcome::Ok(schema, batches) => {
            if pq::compare_schema(&w.schema, &schema, w.props.coerce_types).is_err() {
                ctx.reject();
                ctx.count("skipped:round-trip-schema-differs", 1);
                return None;
            }
            match pq::compare_rows(&w.expected_schema, &w.logical.cols, &batches) {
                Ok(Ok(())) => Some(schema),
                _ => {
                    ctx.reject();
                    ctx.count("skipped:round-trip-rows-differ", 1);
                    None
                }
            }
        }
        _ => {
            ctx.reject();
            ctx.count("skipped:round-trip-read-fails", 1);
            None
        }
    }
}

fn check_written(ctx: &mut Ctx, w: &Written, tag: &str) {
    let Some(read_schema) = round_trip(ctx, w) else { return };
    ctx.eval();
    let leaves = match guard(|| leaf_models(&w.expected_schema, &w.logical.cols)) {
        Ok(l) => l,
        Err(p) => {
            ctx.inconclusive(&format!("model: leaf_models: {} @ {}", p.msg, p.loc));
            return;
        }
    };
    let model = Model { read_schema, leaves: &leaves };
    let desc = witness(w);
    let opt = format!(
        "v{}|{}|{}{}",
        if w.props.version2 { 2 } else { 1 },
        w.props.stats,
        if w.props.bloom { "bloom" } else { "-" },
        if w.mode.is_parallel() { "|par" } else { "" }
    );
    let r = guard(|| check_file(ctx, &w.bytes, &desc, Some(&model), None, &format!("{tag}|{opt}")));
    if let Err(p) = r {
        if p.msg.starts_with("model:") || p.loc.contains("/harness/") {
            ctx.inconclusive(&format!("harness panic: {} @ {}", p.msg, p.loc));
        } else {
            ctx.panic_violation("check", &p, desc.clone());
        }
    }
    if w.logical.rows > 0 {
        for i in 0..w.props.leaves.len() {
            ctx.class(format!("{tag}|leaf|{}|{}", pq::leaf_class(&w.props, i), w.props.stats));
        }
    }
    ctx.count("files_checked", 1);
    ctx.count("rows_checked", w.logical.rows as u64);
    ctx.sample(|| w.desc.clone());
}

// ------------------------------------------------------------------------------------------
// `typed` section: focused generator
// ------------------------------------------------------------------------------------------

const STR_ALPHA: [&str; 14] = ["a", "a", "b", "\u{7f}", "\u{80}", "é", "\u{7ff}", "\u{800}", "€", "\u{d7ff}", "\u{e000}", "\u{ffff}", "\u{10000}", "\u{10ffff}"];
const BYTE_ALPHA: [u8; 8] = [0x00, 0x01, b'a', 0x7f, 0x80, 0xfe, 0xff, 0xff];

pub fn adv_string(rng: &mut Rng, narrow: bool) -> String {
    let mut s = String::new();
    if rng.chance(1, 10) {
        // long: around the default truncation length of 64 bytes
        let c = *rng.pick(&["a", "\u{10ffff}", "é", "\u{ffff}"]);
        let target = 58 + rng.below(10);
        while s.len() + c.len() <= target {
            s.push_str(c);
        }
    }
    let n = rng.below(7);
    let alpha: &[&str] = if narrow { &STR_ALPHA[..4] } else { &STR_ALPHA[..] };
    for _ in 0..n {
        s.push_str(if rng.chance(1, 3) { "a" } else { *rng.pick(alpha) });
    }
    s
}

pub fn adv_bytes(rng: &mut Rng, fixed: Option<usize>) -> Vec<u8> {
    let n = match fixed {
        Some(n) => n,
        None => {
            if rng.chance(1, 10) {
                60 + rng.below(10)
            } else {
                rng.below(10)
            }
        }
    };
    let run = *rng.pick(&BYTE_ALPHA);
    let runlen = if rng.bool() { rng.below(n + 1) } else { 0 };
    (0..n).map(|i| if i < runlen { run } else if rng.chance(1, 3) { 0xff } else { *rng.pick(&BYTE_ALPHA) }).collect()
}

fn typed_leaf_type(rng: &mut Rng) -> DataType {
    use DataType::*;
    let cfg = TypeCfg::flat();
    match rng.below(24) {
        0 => Boolean,
        1 => rng.pick(&[Int8, Int16, Int32, Int64]).clone(),
        2 | 3 => rng.pick(&[UInt8, UInt16, UInt32, UInt64]).clone(),
        4 => Float16,
        5 => Float32,
        6 => Float64,
        7 => Decimal32(1 + rng.below(9) as u8, rng.below(2) as i8),
        8 => Decimal64(1 + rng.below(18) as u8, rng.below(2) as i8),
        9 => Decimal128(*rng.pick(&[1u8, 5, 9, 10, 18, 19, 20, 25, 38]), 0),
        10 => Decimal256(*rng.pick(&[1u8, 9, 18, 19, 38, 39, 50, 76]), 0),
        11..=14 => rng.pick(&[Utf8, Utf8, LargeUtf8, Utf8View]).clone(),
        15 | 16 => rng.pick(&[Binary, LargeBinary, BinaryView]).clone(),
        17 | 18 => FixedSizeBinary(*rng.pick(&[1, 2, 3, 4, 8, 16, 17])),
        19 => Interval(*rng.pick(&[IntervalUnit::YearMonth, IntervalUnit::DayTime])),
        20 => rng.pick(&[Date32, Date64]).clone(),
        _ => loop {
            let t = gens::gen_primitive_type(rng, &cfg);
            if !matches!(t, Null | Interval(IntervalUnit::MonthDayNano)) {
                break t;
            }
        },
    }
}

fn typed_value(rng: &mut Rng, dt: &DataType, narrow: bool, cfg: &TypeCfg) -> Val {
    use DataType::*;
    match dt {
        Utf8 | LargeUtf8 | Utf8View => Val::Str(adv_string(rng, narrow)),
        Binary | LargeBinary | BinaryView => Val::Bytes(adv_bytes(rng, None)),
        FixedSizeBinary(n) => Val::Bytes(adv_bytes(rng, Some(*n as usize))),
        _ => gens::gen_value(rng, dt, cfg),
    }
}

fn nan_of(rng: &mut Rng, dt: &DataType) -> Option<Val> {
    Some(match dt {
        DataType::Float16 => Val::F16(*rng.pick(&[0x7E00u16, 0xFE00, 0x7C01, 0xFFFF, 0x7E01])),
        DataType::Float32 => Val::F32(*rng.pick(&[0x7FC0_0000u32, 0xFFC0_0000, 0x7F80_0001, 0xFFFF_FFFF, 0x7FC0_0001])),
        DataType::Float64 => Val::F64(*rng.pick(&[0x7FF8_0000_0000_0000u64, 0xFFF8_0000_0000_0000, 0x7FF0_0000_0000_0001, u64::MAX])),
        _ => return None,
    })
}

/// One flat column of `n` values with a drawn shape.
fn typed_column(rng: &mut Rng, dt: &DataType, n: usize, nullable: bool, page: usize) -> (Vec<Val>, String) {
    let cfg = TypeCfg::flat();
    let narrow = rng.bool();
    let pool_n = *rng.pick(&[1usize, 2, 3, 8, 1000]);
    let pool: Vec<Val> = (0..pool_n.min(n.max(1))).map(|_| typed_value(rng, dt, narrow, &cfg)).collect();
    let mut vals: Vec<Val> = (0..n).map(|_| if pool_n == 1000 { typed_value(rng, dt, narrow, &cfg) } else { rng.pick(&pool).clone() }).collect();
    let cmp = |a: &Val, b: &Val| val_cmp(a, b).unwrap_or_else(|| val_is_nan(a).cmp(&val_is_nan(b)).then(a.cmp(b)));
    let shape = rng.below(7);
    let shape_name = match shape {
        0 | 1 => "random",
        2 => {
            vals.sort_by(cmp);
            "asc"
        }
        3 => {
            vals.sort_by(|a, b| cmp(b, a));
            "desc"
        }
        4 => {
            if let Some(v) = vals.first().cloned() {
                vals.iter_mut().for_each(|x| *x = v.clone());
            }
            "const"
        }
        5 => {
            // sorted inside blocks of one page, blocks in random order
            let mut blocks: Vec<Vec<Val>> = vals.chunks(page.max(1)).map(|c| {
                let mut c = c.to_vec();
                c.sort_by(cmp);
                c
            }).collect();
            rng.shuffle(&mut blocks);
            vals = blocks.into_iter().flatten().collect();
            "blocks"
        }
        _ => {
            // ascending by the *signed / byte* view of the model value: stresses unsigned and decimal orders
            vals.sort();
            "model-ord"
        }
    };
    let mut tags = vec![shape_name.to_string()];
    // NaN runs
    if matches!(dt, DataType::Float16 | DataType::Float32 | DataType::Float64) && rng.chance(1, 2) && n > 0 {
        let runs = 1 + rng.below(3);
        for _ in 0..runs {
            let s = rng.below(n);
            let l = 1 + rng.below((2 * page).max(2));
            for v in vals[s..(s + l).min(n)].iter_mut() {
                *v = nan_of(rng, dt).unwrap();
            }
        }
        tags.push("nan-runs".into());
    }
    if nullable && n > 0 {
        match rng.below(5) {
            0 => {}
            1 => {
                let (a, b) = *rng.pick(&[(1u32, 10u32), (1, 3), (9, 10)]);
                vals.iter_mut().for_each(|v| {
                    if rng.chance(a, b) {
                        *v = Val::Null
                    }
                });
                tags.push("nulls".into());
            }
            2 | 3 => {
                let runs = 1 + rng.below(3);
                for _ in 0..runs {
                    let s = rng.below(n);
                    let l = 1 + rng.below((3 * page).max(2));
                    vals[s..(s + l).min(n)].iter_mut().for_each(|v| *v = Val::Null);
                }
                tags.push("null-runs".into());
            }
            _ => {
                if rng.chance(1, 3) {
                    vals.iter_mut().for_each(|v| *v = Val::Null);
                    tags.push("all-null".into());
                }
            }
        }
    }
    (vals, tags.join("+"))
}

pub fn trunc_len(rng: &mut Rng) -> Option<usize> {
    match rng.below(12) {
        0 => None,
        1 => Some(64),
        2 => Some(*rng.pick(&[16usize, 32, 63, 65])),
        _ => Some(1 + rng.below(8)),
    }
}

fn typed_case(rng: &mut Rng) -> Result<Written, pq::WriteFail> {
    use DataType::*;
    let ncols = 1 + rng.below(3);
    let rows = if rng.chance(1, 8) { rng.below(600) } else { 1 + rng.below(60) };
    let page = *rng.pick(&[1usize, 2, 3, 5, 8, 13, 50]);
    let mut fields = Vec::new();
    let mut cols = Vec::new();
    let mut shapes = Vec::new();
    for i in 0..ncols {
        let leaf = typed_leaf_type(rng);
        let nullable = !rng.chance(1, 4);
        let wrap = rng.below(10);
        let (dt, vals, shape) = match wrap {
            0 if !matches!(leaf, Boolean | FixedSizeBinary(_) | Utf8View | BinaryView | Interval(_)) => {
                let key = rng.pick(&[Int8, Int16, Int32, UInt8, UInt32, Int64]).clone();
                let (mut v, s) = typed_column(rng, &leaf, rows, true, page);
                // 8-bit keys: bound the number of distinct values
                if matches!(key, Int8 | UInt8) {
                    let pool: Vec<Val> = v.iter().filter(|x| !x.is_null()).take(40).cloned().collect();
                    let mut k = 0usize;
                    for x in v.iter_mut() {
                        if !x.is_null() && !pool.contains(x) {
                            *x = pool[k % pool.len()].clone();
                            k += 1;
                        }
                    }
                }
                (Dictionary(Box::new(key), Box::new(leaf.clone())), v, format!("dict:{s}"))
            }
            1 | 2 => {
                // list column: rows of 0..3 elements cut out of a flat sequence, null rows, null elements
                let (flat, s) = typed_column(rng, &leaf, rows * 2, true, page);
                let mut it = flat.into_iter();
                let mut v = Vec::with_capacity(rows);
                let nullp = *rng.pick(&[(0u32, 1u32), (1, 4), (2, 3)]);
                for _ in 0..rows {
                    if nullable && rng.chance(nullp.0, nullp.1) {
                        v.push(Val::Null);
                    } else {
                        let k = *rng.pick(&[0usize, 1, 1, 2, 3]);
                        v.push(Val::List((0..k).filter_map(|_| it.next()).collect()));
                    }
                }
                let f = Arc::new(Field::new("item", leaf.clone(), true));
                (if wrap == 1 { List(f) } else { LargeList(f) }, v, format!("list:{s}"))
            }
            _ => {
                let (v, s) = typed_column(rng, &leaf, rows, nullable, page);
                (leaf.clone(), v, s)
            }
        };
        let nullable = nullable || matches!(dt, Dictionary(_, _));
        fields.push(Field::new(format!("c{i}"), dt, nullable));
        cols.push(vals);
        shapes.push(shape);
    }
    let logical = Logical { schema: Arc::new(Schema::new(fields)), cols, rows };
    let fail = |stage: &str, msg: String| pq::WriteFail { kind: FailKind::Rejected, stage: stage.into(), msg, desc: String::new(), tags: vec![] };
    let (_sd, leaves) = pq::leaves_of(&logical.schema, false).map_err(|e| fail("schema", e))?;

    // ---- properties
    let mut d: Vec<String> = vec![format!("shapes={shapes:?}")];
    let mut b = WriterProperties::builder();
    let version2 = rng.bool();
    if version2 {
        b = b.set_writer_version(WriterVersion::PARQUET_2_0);
        d.push("version=2".into());
    }
    let dict_default = rng.bool();
    b = b.set_dictionary_enabled(dict_default);
    d.push(format!("dict={dict_default}"));
    if rng.chance(1, 3) {
        let v = *rng.pick(&[1usize, 8, 40, 200]);
        b = b.set_dictionary_page_size_limit(v);
        d.push(format!("dict_page_limit={v}"));
    }
    b = b.set_data_page_row_count_limit(page);
    d.push(format!("page_rows={page}"));
    let wb = *rng.pick(&[1usize, 1, 2, 3, 7, 16, 1024]);
    b = b.set_write_batch_size(wb);
    d.push(format!("write_batch={wb}"));
    if rng.chance(1, 4) {
        let v = *rng.pick(&[1usize, 16, 100]);
        b = b.set_data_page_size_limit(v);
        d.push(format!("data_page_limit={v}"));
    }
    if rng.chance(1, 3) {
        let v = 1 + rng.below(rows.max(2));
        let v = if rows / v > 40 { rows / 40 } else { v };
        b = b.set_max_row_group_row_count(Some(v.max(1)));
        d.push(format!("rg_rows={}", v.max(1)));
    }
    let stats = *rng.pick(&[EnabledStatistics::Page, EnabledStatistics::Page, EnabledStatistics::Page, EnabledStatistics::Page, EnabledStatistics::Chunk, EnabledStatistics::None]);
    b = b.set_statistics_enabled(stats);
    d.push(format!("stats={stats:?}"));
    let st = trunc_len(rng);
    b = b.set_statistics_truncate_length(st);
    d.push(format!("stats_trunc={st:?}"));
    let ct = trunc_len(rng);
    b = b.set_column_index_truncate_length(ct);
    d.push(format!("cidx_trunc={ct:?}"));
    if rng.bool() {
        b = b.set_write_page_header_statistics(true);
        d.push("page_header_stats".into());
    }
    if rng.chance(1, 10) {
        b = b.set_offset_index_disabled(true);
        d.push("offset_index=off".into());
    }
    let bloom = rng.bool();
    if bloom {
        b = b.set_bloom_filter_enabled(true);
        let fpp = *rng.pick(&[0.9f64, 0.5, 0.1, 0.01, 0.0001]);
        let ndv = *rng.pick(&[1u64, 2, 10, 100, 5000]);
        b = b.set_bloom_filter_fpp(fpp).set_bloom_filter_max_ndv(ndv);
        d.push(format!("bloom fpp={fpp} ndv={ndv}"));
    }
    let compression = if rng.chance(1, 5) { Compression::SNAPPY } else { Compression::UNCOMPRESSED };
    b = b.set_compression(compression);
    let mut leaf_enc = Vec::new();
    for (li, leaf) in leaves.iter().enumerate() {
        let mut enc = None;
        if rng.chance(1, 3) {
            let e = *rng.pick(&pq::valid_encodings(leaf));
            b = b.set_column_encoding(leaf.path.clone(), e);
            d.push(format!("[{li}]enc={e:?}"));
            enc = Some(e);
        }
        leaf_enc.push((enc, dict_default));
    }
    let props = DrawnProps {
        props: b.build(),
        desc: d.join(" "),
        version2,
        dict_default,
        compression: format!("{compression:?}"),
        coerce_types: false,
        cdc: false,
        stats: match stats {
            EnabledStatistics::None => "none",
            EnabledStatistics::Chunk => "chunk",
            EnabledStatistics::Page => "page",
        },
        bloom,
        leaf_enc,
        leaves,
    };
    let splits = pq::split_rows(rng, logical.rows);
    let batches = guard(|| pq::make_batches(rng, &logical, &splits, true)).map_err(|p| pq::WriteFail { kind: FailKind::Model, stage: "make_batches".into(), msg: format!("{} @ {}", p.msg, p.loc), desc: String::new(), tags: vec![] })?;
    let mode = if rng.chance(1, 4) { WriteMode::ParallelManual } else { WriteMode::Serial };
    pq::write_logical(rng, logical, batches, props, mode)
}

// ------------------------------------------------------------------------------------------
// sections
// ------------------------------------------------------------------------------------------

fn arrow_case(ctx: &mut Ctx, rng: &mut Rng, section: &str) {
    let res = match section {
        "general" => pq::write_file(rng, &WriteCfg::standard()),
        "flat" => {
            let mut c = WriteCfg::standard();
            c.gen_cfg = GenCfg::flat_long();
            pq::write_file(rng, &c)
        }
        _ => match guard(|| typed_case(rng)) {
            Ok(r) => r,
            Err(p) => {
                ctx.inconclusive(&format!("typed generator panicked: {} @ {}", p.msg, p.loc));
                return;
            }
        },
    };
    match res {
        Ok(w) => check_written(ctx, &w, section),
        Err(f) => handle_write_fail(ctx, &f),
    }
}

pub fn run(ctx: &mut Ctx) {
    let plan: Vec<(&str, u64)> = vec![
        // measured on an idle core: ~110 files/s over this mix (quick shard ~40 s, thorough shard ~7 min)
        ("general", ctx.tier.pick(16, 14_000, 150_000)),
        ("flat", ctx.tier.pick(8, 4_000, 40_000)),
        ("typed", ctx.tier.pick(24, 40_000, 400_000)),
        ("lowlevel", ctx.tier.pick(12, 14_000, 150_000)),
    ];
    let lists: Vec<Vec<u64>> = plan.iter().map(|(s, n)| ctx.cases(s, *n)).collect();
    let mut idx = vec![0usize; plan.len()];
    let wmin = plan.iter().map(|p| p.1.max(1)).min().unwrap();
    let per_round: Vec<usize> = plan.iter().map(|p| ((p.1 / wmin) as usize).max(1)).collect();
    'outer: loop {
        let mut progressed = false;
        for (k, (section, _)) in plan.iter().enumerate() {
            for _ in 0..per_round[k] {
                if idx[k] >= lists[k].len() {
                    break;
                }
                if ctx.out_of_time() {
                    break 'outer;
                }
                let i = lists[k][idx[k]];
                idx[k] += 1;
                progressed = true;
                let mut rng = ctx.begin(section, i);
                let t0 = std::time::Instant::now();
                let r = guard(|| {
                    if *section == "lowlevel" {
                        super::c07low::case(ctx, &mut rng);
                    } else {
                        arrow_case(ctx, &mut rng, section);
                    }
                });
                if let Err(p) = r {
                    ctx.inconclusive(&format!("harness panic outside the monitored operations: {} @ {}", p.msg, p.loc));
                }
                if t0.elapsed().as_secs_f64() > 5.0 {
                    ctx.count("cases_slower_than_5s", 1);
                }
            }
        }
        if !progressed {
            break;
        }
    }
}
